/-
  Vt.Props.InvX3 — the per-cell conditions through `perform`, `process`, the public API, and every
  reachable screen (`reachable_x`).
-/
import Vt.Props.InvX2
namespace Vt.InvX
open Vt Vt.C13
set_option linter.unusedSimpArgs false
set_option linter.unusedVariables false

variable {W : Nat → Option Nat}

def GoodX (ws : WS) : Prop := ScreenX ws.screen

/-- the callback policy keeps the per-cell conditions (on screens satisfying `Inv`) -/
def CbX (W : Nat → Option Nat) (cb : CbPolicy) : Prop :=
  ∀ e s s', EventOk e → ScreenInv W s → ScreenX s → cb e s = .ok s' → ScreenX s'

theorem cbNone_x : CbX W cbNone := by
  intro e s s' _ _ hx h
  simp only [cbNone, pure_eq_ok, Except.ok.injEq] at h
  rw [← h]; exact hx

theorem cbResize_x : CbX W cbResize := by
  intro e s s' _ _ hx h
  unfold cbResize at h
  split at h
  · split at h
    · exact screenX_setSize hx _ _ h
    · simp only [pure_eq_ok, Except.ok.injEq] at h
      rw [← h]; exact hx
  · simp only [pure_eq_ok, Except.ok.injEq] at h
    rw [← h]; exact hx

/-- a step keeps `Inv` and the per-cell conditions together (partial-correctness form) -/
def StepB (W : Nat → Option Nat) (f : WS → M WS) : Prop :=
  ∀ ws ws', Good W ws → GoodX ws → f ws = .ok ws' → Good W ws' ∧ GoodX ws'

theorem stepB_of {f : WS → M WS} (h1 : StepW W f) (h2 : ∀ ws ws', Good W ws → GoodX ws → f ws = .ok ws' → GoodX ws') :
    StepB W f := by
  intro ws ws' hg hx e
  obtain ⟨w, e1, g1⟩ := h1 ws hg
  have : w = ws' := by rw [e] at e1; exact (Except.ok.inj e1).symm
  subst this
  exact ⟨g1, h2 ws w hg hx e⟩

theorem stepB_emit {cb : CbPolicy} (hcb : CbInv W cb) (hcx : CbX W cb) (ev : Event) (he : EventOk ev) :
    StepB W (emit cb ev) := by
  refine stepB_of (stepW_emit hcb ev he) ?_
  intro ws ws' hg hx e
  unfold emit at e
  obtain ⟨s, hs, e⟩ := bind_eq_ok.mp e
  simp only [pure_eq_ok, Except.ok.injEq] at e
  rw [← e]
  exact hcx ev ws.screen s he hg hx hs

theorem stepB_pure : StepB W (fun ws => pure ws) := by
  intro ws ws' hg hx e
  simp only [pure_eq_ok, Except.ok.injEq] at e
  rw [← e]; exact ⟨hg, hx⟩

/-- a screen operation -/
theorem stepB_onScreen {f : Screen → M Screen}
    (h1 : ∀ s, ScreenInv W s → ∃ s', f s = .ok s' ∧ ScreenInv W s')
    (h2 : ∀ s s', ScreenInv W s → ScreenX s → f s = .ok s' → ScreenX s') : StepB W (fun ws => ws.onScreen f) := by
  refine stepB_of (stepW_onScreen h1) ?_
  intro ws ws' hg hx e
  unfold WS.onScreen at e
  obtain ⟨s, hs, e⟩ := bind_eq_ok.mp e
  simp only [pure_eq_ok, Except.ok.injEq] at e
  rw [← e]
  exact h2 ws.screen s hg hx hs

/-- a screen operation that is a grid operation on the active grid -/
theorem stepB_onGrid {f : Screen → M Screen} {k : Screen → Grid → M Grid}
    (hf : ∀ s, f s = s.modifyGrid (k s))
    (hk : ∀ s g, GridInv W g true → g.rows.length = g.size.rows → Total W (k s) g)
    (hx : ∀ s g', ScreenInv W s → ScreenX s → k s s.cur = .ok g' → GridX g') : StepB W (fun ws => ws.onScreen f) := by
  refine stepB_onScreen (fun s hs => by rw [hf]; exact screen_total hk s hs) ?_
  intro s s' hs hxs e
  rw [hf] at e
  exact screenX_modifyGrid hxs (fun g' hg => hx s g' hs hxs hg) e

theorem stepB_arm {unh : WS → M WS} (hunh : StepB W unh) (arm : Screen → M (Option Screen))
    (h1 : ∀ s, ScreenInv W s → ∃ r, arm s = .ok r ∧ ∀ s', r = some s' → ScreenInv W s')
    (h2 : ∀ s r, ScreenInv W s → ScreenX s → arm s = .ok r → ∀ s', r = some s' → ScreenX s') :
    StepB W (fun ws => do
      match ← arm ws.screen with
      | some s => pure { ws with screen := s }
      | none => unh ws) := by
  intro ws ws' hg hx e
  obtain ⟨r, hr, e⟩ := bind_eq_ok.mp e
  obtain ⟨r', hr', hi⟩ := h1 ws.screen hg
  have : r' = r := by rw [hr] at hr'; exact (Except.ok.inj hr').symm
  subst this
  cases r' with
  | none => exact hunh ws ws' hg hx e
  | some s1 =>
    simp only [pure_eq_ok, Except.ok.injEq] at e
    rw [← e]
    exact ⟨hi s1 rfl, h2 ws.screen _ hg hx hr s1 rfl⟩

theorem stepB_fold {α} (step : WS → α → M WS) (hstep : ∀ x, StepB W (fun ws => step ws x)) :
    ∀ (xs : List α), StepB W (fun ws => xs.foldlM step ws) := by
  intro xs
  induction xs with
  | nil =>
    intro ws ws' hg hx e
    simp only [List.foldlM_nil, pure_eq_ok, Except.ok.injEq] at e
    rw [← e]; exact ⟨hg, hx⟩
  | cons x xs ih =>
    intro ws ws' hg hx e
    have e : List.foldlM step ws (x :: xs) = .ok ws' := e
    rw [List.foldlM_cons] at e
    obtain ⟨w1, e1, e2⟩ := bind_eq_ok.mp e
    obtain ⟨g1, x1⟩ := hstep x ws w1 hg hx e1
    exact ih w1 ws' g1 x1 e2

/-! ### SGR -/

theorem goodX_modAttrs {ws : WS} (h : GoodX ws) (f : Attrs → Attrs) (hf : attrsOk (f ws.screen.attrs) = true) :
    GoodX (ws.modAttrs f) := ⟨hf, h.saved, h.grid, h.alt⟩

theorem goodX_setFg {ws : WS} (h : GoodX ws) (c : Color) (hc : colorOk c = true) : GoodX (ws.setFg c) := by
  refine ⟨?_, h.saved, h.grid, h.alt⟩
  have := h.pen
  simp only [attrsOk, Bool.and_eq_true] at this ⊢
  exact ⟨hc, this.2⟩

theorem goodX_setBg {ws : WS} (h : GoodX ws) (c : Color) (hc : colorOk c = true) : GoodX (ws.setBg c) := by
  refine ⟨?_, h.saved, h.grid, h.alt⟩
  have := h.pen
  simp only [attrsOk, Bool.and_eq_true] at this ⊢
  exact ⟨this.1, hc⟩

theorem stepB_sgr {unh : WS → M WS} (hunh : StepB W unh) (params : List (List Nat)) :
    StepB W (sgr unh params) := by
  have hgen : ∀ (ps : List (List Nat)) (ws ws' : WS), Good W ws → GoodX ws → sgrLoop unh ps ws = .ok ws' →
      Good W ws' ∧ GoodX ws' := by
    intro ps ws
    fun_induction sgrLoop unh ps ws <;> intro ws' hg hx e
    all_goals first
      | (simp only [pure_eq_ok, Except.ok.injEq] at e; rw [← e]; exact ⟨hg, hx⟩)
      | (rename_i ih; exact ih ws' (good_modAttrs hg _) (goodX_modAttrs hx _ (by
          have := hx.pen
          simp only [attrsOk, Bool.and_eq_true] at this ⊢
          first | exact this | exact ⟨by decide, by decide⟩)) e)
      | (rename_i ih; exact ih ws' (good_setFg hg _) (goodX_setFg hx _ (by
          first
            | (simp only [colorOk, Bool.and_eq_true, decide_eq_true_eq] at *; omega)
            | simp [colorOk])) e)
      | (rename_i ih; exact ih ws' (good_setBg hg _) (goodX_setBg hx _ (by
          first
            | (simp only [colorOk, Bool.and_eq_true, decide_eq_true_eq] at *; omega)
            | simp [colorOk])) e)
      | exact hunh _ _ hg hx e
      | skip
    all_goals
      rename_i ih
      obtain ⟨w1, e1, e2⟩ := bind_eq_ok.mp e
      obtain ⟨g1, x1⟩ := hunh _ w1 hg hx e1
      exact ih w1 ws' g1 x1 e2
  intro ws ws' hg hx e
  unfold sgr at e
  split at e
  · simp only [pure_eq_ok, Except.ok.injEq] at e
    rw [← e]
    exact ⟨good_modAttrs hg _, goodX_modAttrs hx _ attrsOk_default⟩
  · exact hgen params ws ws' hg hx e

/-! ### `perform` -/

theorem sameRows_total {k : Grid → M Grid} {g g' : Grid} (h : GridX g) (e : k g = .ok g')
    (hs : ∀ g g', k g = .ok g' → g'.rows = g.rows ∧ g'.scrollback = g.scrollback) : GridX g' :=
  gridP_same h (hs g g' e).1 (hs g g' e).2

theorem colSet_rows {n : Nat} : ∀ g g', Grid.colSet g n = .ok g' → g'.rows = g.rows ∧ g'.scrollback = g.scrollback :=
  fun g g' e => colClamp_rows (g := { g with pos := { g.pos with col := n } }) e

theorem colTab_rows : ∀ g g', Grid.colTab g = .ok g' → g'.rows = g.rows ∧ g'.scrollback = g.scrollback :=
  fun g g' e => colClamp_rows (g := { g with pos := { g.pos with col := g.pos.col - g.pos.col % 8 + 8 } }) e

theorem colIncClamp_rows {n : Nat} : ∀ g g', Grid.colIncClamp g n = .ok g' → g'.rows = g.rows ∧ g'.scrollback = g.scrollback :=
  fun g g' e => colClamp_rows (g := g.colInc n) e

theorem rowSet_rows {n : Nat} : ∀ g g', Grid.rowSet g n = .ok g' → g'.rows = g.rows ∧ g'.scrollback = g.scrollback :=
  fun g g' e => rowClamp_rows (g := { g with pos := { g.pos with row := n } }) e

theorem gridX_cnl {g g' : Grid} (h : GridX g) (n : Nat) (e : g.cnl n = .ok g') : GridX g' := by
  unfold Grid.cnl at e
  obtain ⟨g1, h1, e⟩ := bind_eq_ok.mp e
  exact gridX_rowIncClamp (sameRows_total h h1 colSet_rows) n e

theorem gridX_cpl {g g' : Grid} (h : GridX g) (n : Nat) (e : g.cpl n = .ok g') : GridX g' := by
  unfold Grid.cpl at e
  obtain ⟨g1, h1, e⟩ := bind_eq_ok.mp e
  simp only [pure_eq_ok, Except.ok.injEq] at e
  rw [← e]
  have hx1 := sameRows_total h h1 colSet_rows
  have := rowClampTop_rows ({ g1 with pos := { g1.pos with row := g1.pos.row - n } }) g1.inScrollRegion
  exact gridP_same (g := g1) hx1 this.1 this.2.1

theorem gridX_rowDecClamp {g : Grid} (h : GridX g) (n : Nat) : GridX (g.rowDecClamp n) := by
  have := rowClampTop_rows ({ g with pos := { g.pos with row := g.pos.row - n } }) g.inScrollRegion
  exact gridP_same (g := g) h this.1 this.2.1

/-- **every action keeps `Inv` and the per-cell conditions** -/
theorem x_perform (hW32 : W 32 = some 1) {cb : CbPolicy} (hcb : CbInv W cb) (hcx : CbX W cb)
    (a : Action) (ha : ActionOk a) : StepB W (fun ws => perform W cb ws a) := by
  have hemit : ∀ e, EventOk e → StepB W (emit cb e) := fun e he => stepB_emit hcb hcx e he
  have hlf : StepB W (fun ws => ws.onScreen Screen.lf) :=
    stepB_onGrid (k := fun _ g => do let (g, _) ← g.rowIncScroll 1; pure g) (fun s => rfl)
      (fun s g h l => by
        obtain ⟨g', n, e, st, _⟩ := rowIncScroll_ok h l
        exact ⟨g', by simp [e], st⟩)
      (fun s g' hs hx e => by
        obtain ⟨p, hp, e⟩ := bind_eq_ok.mp e
        obtain ⟨p1, p2⟩ := p
        simp only [pure_eq_ok, Except.ok.injEq] at e
        rw [← e]
        exact gridX_rowIncScroll hx.cur 1 hp)
  have hexec : ∀ b, StepB W (fun ws => performExecute cb ws b) := by
    intro b
    unfold performExecute
    split
    · exact hemit _ trivial
    · exact stepB_onGrid (k := fun _ g => pure (g.colDec 1)) (fun s => rfl) (fun s g h l => total_colDec h l 1)
        (fun s g' hs hx e => by
          simp only [pure_eq_ok, Except.ok.injEq] at e
          rw [← e]; exact gridP_same hx.cur rfl rfl)
    · exact stepB_onGrid (k := fun _ g => g.colTab) (fun s => rfl) (fun s g h l => total_colTab h l)
        (fun s g' hs hx e => sameRows_total hx.cur e colTab_rows)
    · exact hlf
    · exact hlf
    · exact hlf
    · exact stepB_onGrid (k := fun _ g => g.colSet 0) (fun s => rfl) (fun s g h l => total_colSet h l 0)
        (fun s g' hs hx e => sameRows_total hx.cur e colSet_rows)
    · exact stepB_pure
    · exact stepB_pure
    · exact hemit _ trivial
  cases a with
  | print c =>
    simp only [perform, performPrint]
    split
    · exact hexec c
    · split
      · exact hemit _ trivial
      · rename_i hnf
        exact stepB_onGrid (k := fun s g => g.text W s.attrs c) (fun s => rfl)
          (fun s g h l => text_total h l hW32 s.attrs ha)
          (fun s g' hs hx e => by
            obtain ⟨hc, hl⟩ := hs.cur
            exact gridX_text hc hl hx.cur hx.pen ha (by simpa using hnf) e)
  | execute b => exact hexec b
  | hook _ _ _ _ => exact stepB_pure
  | put _ => exact stepB_pure
  | unhook => exact stepB_pure
  | oscDispatch params _ =>
    simp only [perform, performOsc]
    split
    · rename_i str
      intro ws ws' hg hx e
      obtain ⟨w1, e1, e2⟩ := bind_eq_ok.mp e
      obtain ⟨g1, x1⟩ := hemit (.setWindowIconName str) trivial ws w1 hg hx e1
      exact hemit (.setWindowTitle str) trivial w1 ws' g1 x1 e2
    all_goals exact hemit _ trivial
  | escDispatch ints ig b =>
    simp only [perform, performEsc]
    split
    · exact hemit _ trivial
    · split
      · exact stepB_onScreen (f := Screen.decsc) (fun s hs => saveCursor_ok hs) (fun s s' hs hx e => screenX_saveCursor hx e)
      · exact stepB_onScreen (f := Screen.decrc) (fun s hs => restoreCursor_ok hs) (fun s s' hs hx e => screenX_restoreCursor hx e)
      · intro ws ws' hg hx e
        simp only [pure_eq_ok, Except.ok.injEq] at e
        rw [← e]
        exact ⟨screenInv_congr hg rfl rfl rfl, screenX_congr hx rfl rfl rfl rfl⟩
      · intro ws ws' hg hx e
        simp only [pure_eq_ok, Except.ok.injEq] at e
        rw [← e]
        exact ⟨screenInv_congr hg rfl rfl rfl, screenX_congr hx rfl rfl rfl rfl⟩
      · exact stepB_onGrid (k := fun _ g => g.rowDecScroll 1) (fun s => rfl) (fun s g h l => total_rowDecScroll h l)
          (fun s g' hs hx e => gridX_rowDecScroll hx.cur 1 e)
      · exact stepB_onScreen (f := Screen.ris) (fun s hs => ris_ok hs) (fun s s' hs hx e => screenX_new e)
      · exact hemit _ trivial
      · exact hemit _ trivial
  | csiDispatch params ints ig c =>
    simp only [ActionOk, ActOk] at ha
    simp only [perform, performCsi]
    split
    · split
      · exact stepB_onGrid (k := fun _ g => g.insertCells (canon1 params 1)) (fun s => rfl)
          (fun s g h l => total_insertCells h l _) (fun s g' hs hx e => gridX_insertCells hx.cur _ e)
      · exact stepB_onGrid (k := fun _ g => pure (g.rowDecClamp (canon1 params 1))) (fun s => rfl)
          (fun s g h l => total_rowDecClamp h l _) (fun s g' hs hx e => by
            simp only [pure_eq_ok, Except.ok.injEq] at e
            rw [← e]; exact gridX_rowDecClamp hx.cur _)
      · exact stepB_onGrid (k := fun _ g => g.rowIncClamp (canon1 params 1)) (fun s => rfl)
          (fun s g h l => total_rowIncClamp h l _) (fun s g' hs hx e => gridX_rowIncClamp hx.cur _ e)
      · exact stepB_onGrid (k := fun _ g => g.colIncClamp (canon1 params 1)) (fun s => rfl)
          (fun s g h l => total_colIncClamp h l _) (fun s g' hs hx e => sameRows_total hx.cur e colIncClamp_rows)
      · exact stepB_onGrid (k := fun _ g => pure (g.colDec (canon1 params 1))) (fun s => rfl)
          (fun s g h l => total_colDec h l _) (fun s g' hs hx e => by
            simp only [pure_eq_ok, Except.ok.injEq] at e
            rw [← e]; exact gridP_same hx.cur rfl rfl)
      · exact stepB_onGrid (k := fun _ g => g.cnl (canon1 params 1)) (fun s => rfl)
          (fun s g h l => total_cnl h l _) (fun s g' hs hx e => gridX_cnl hx.cur _ e)
      · exact stepB_onGrid (k := fun _ g => g.cpl (canon1 params 1)) (fun s => rfl)
          (fun s g h l => total_cpl h l _) (fun s g' hs hx e => gridX_cpl hx.cur _ e)
      · -- CHA
        refine stepB_onScreen ?_ ?_
        · intro s hs
          simp only [Screen.cha, subM_ok (C06.canon1_pos params), ok_bind]
          exact screen_total (f := fun _ g => g.colSet (canon1 params 1 - 1)) (fun s g h l => total_colSet h l _) s hs
        · intro s s' hs hx e
          simp only [Screen.cha] at e
          obtain ⟨c1, _, e⟩ := bind_eq_ok.mp e
          exact screenX_modifyGrid hx (fun g' hg => sameRows_total hx.cur hg colSet_rows) e
      · -- CUP
        refine stepB_onScreen ?_ ?_
        · intro s hs
          obtain ⟨h1, h2⟩ := canon2_pos params 1 1 (Nat.le_refl _) (Nat.le_refl _)
          simp only [Screen.cup, subM_ok h1, subM_ok h2, ok_bind]
          exact screen_total (f := fun _ g => g.setPos ⟨(canon2 params 1 1).1 - 1, (canon2 params 1 1).2 - 1⟩)
            (fun s g h l => total_setPos h l _ _) s hs
        · intro s s' hs hx e
          simp only [Screen.cup] at e
          obtain ⟨r1, _, e⟩ := bind_eq_ok.mp e
          obtain ⟨c1, _, e⟩ := bind_eq_ok.mp e
          exact screenX_modifyGrid hx (fun g' hg => by
            have := setPos_rows hg
            exact gridP_same hx.cur this.1 this.2) e
      · exact stepB_arm (hemit _ (by trivial)) (fun s => s.edMode (canon1 params 0)) (fun s hs => edMode_ok hs _)
          (fun s r hs hx e => screenX_edMode hx _ e)
      · exact stepB_arm (hemit _ (by trivial)) (fun s => s.elMode (canon1 params 0)) (fun s hs => elMode_ok hs _)
          (fun s r hs hx e => screenX_elMode hx _ e)
      · exact stepB_onGrid (k := fun _ g => g.insertLines (canon1 params 1)) (fun s => rfl)
          (fun s g h l => total_insertLines h l _) (fun s g' hs hx e => gridP_insertLines rx_pred hx.cur _ e)
      · exact stepB_onGrid (k := fun _ g => g.deleteLines (canon1 params 1)) (fun s => rfl)
          (fun s g h l => total_deleteLines h l _) (fun s g' hs hx e => gridP_deleteLines rx_pred hx.cur _ e)
      · exact stepB_onGrid (k := fun _ g => g.deleteCells (canon1 params 1)) (fun s => rfl)
          (fun s g h l => total_deleteCells h l _) (fun s g' hs hx e => gridX_deleteCells hx.cur _ e)
      · exact stepB_onGrid (k := fun _ g => g.scrollUp (canon1 params 1)) (fun s => rfl)
          (fun s g h l => total_scrollUp h l _) (fun s g' hs hx e => gridP_scrollUp rx_pred hx.cur _ e)
      · exact stepB_onGrid (k := fun _ g => g.scrollDown (canon1 params 1)) (fun s => rfl)
          (fun s g h l => total_scrollDown h l _) (fun s g' hs hx e => gridP_scrollDown rx_pred hx.cur _ e)
      · exact stepB_onGrid (k := fun s g => g.eraseCells (canon1 params 1) s.attrs) (fun s => rfl)
          (fun s g h l => total_eraseCells h l _ _) (fun s g' hs hx e => gridX_eraseCells hx.cur hx.pen _ e)
      · -- VPA
        refine stepB_onScreen ?_ ?_
        · intro s hs
          simp only [Screen.vpa, subM_ok (C06.canon1_pos params), ok_bind]
          exact screen_total (f := fun _ g => g.rowSet (canon1 params 1 - 1)) (fun s g h l => total_rowSet h l _) s hs
        · intro s s' hs hx e
          simp only [Screen.vpa] at e
          obtain ⟨r1, _, e⟩ := bind_eq_ok.mp e
          exact screenX_modifyGrid hx (fun g' hg => sameRows_total hx.cur hg rowSet_rows) e
      · exact stepB_sgr (hemit _ (by trivial)) params
      · -- DECSTBM
        refine stepB_onScreen ?_ ?_
        · intro s hs
          have hrp := hs.cur.1.rows_pos
          obtain ⟨h1, h2⟩ := canon2_pos params 1 s.cur.size.rows (Nat.le_refl _) hrp
          simp only [Screen.decstbm, subM_ok h1, subM_ok h2, ok_bind]
          exact screen_total (f := fun s g => g.setScrollRegion ((canon2 params 1 s.cur.size.rows).1 - 1)
              ((canon2 params 1 s.cur.size.rows).2 - 1))
            (fun s g h l => total_setScrollRegion h l _ _) s hs
        · intro s s' hs hx e
          simp only [Screen.decstbm] at e
          obtain ⟨t1, _, e⟩ := bind_eq_ok.mp e
          obtain ⟨b1, _, e⟩ := bind_eq_ok.mp e
          exact screenX_modifyGrid hx (fun g' hg => gridX_setScrollRegion hx.cur _ _ hg) e
      · -- XTWINOPS
        split
        · intro ws ws' hg hx e
          refine hemit _ ?_ ws ws' hg hx e
          have hsz := hg.cur.1
          refine ⟨xtArg_le ?_ _ hsz.rows_u16, xtArg_le ?_ _ hsz.cols_u16⟩
          · intro p hp; exact ha p (List.mem_of_mem_tail hp)
          · intro p hp; exact ha p (List.mem_of_mem_tail (List.mem_of_mem_tail hp))
        · exact hemit _ trivial
      · exact hemit _ trivial
    · split
      · exact stepB_arm (hemit _ (by trivial)) (fun s => s.edMode (canon1 params 0)) (fun s hs => edMode_ok hs _)
          (fun s r hs hx e => screenX_edMode hx _ e)
      · exact stepB_arm (hemit _ (by trivial)) (fun s => s.elMode (canon1 params 0)) (fun s hs => elMode_ok hs _)
          (fun s r hs hx e => screenX_elMode hx _ e)
      · exact stepB_fold _ (fun p => stepB_arm (hemit _ (by trivial)) (fun s => s.decsetOne p) (fun s hs => decsetOne_ok hs p)
          (fun s r hs hx e => screenX_decsetOne hx p e)) params
      · exact stepB_fold _ (fun p => stepB_arm (hemit _ (by trivial)) (fun s => s.decrstOne p) (fun s hs => decrstOne_ok hs p)
          (fun s r hs hx e => screenX_decrstOne hx p e)) params
      · exact hemit _ trivial
    · exact hemit _ trivial

/-! ### `process`, the API, reachable screens -/

theorem x_actions (hW32 : W 32 = some 1) {cb : CbPolicy} (hcb : CbInv W cb) (hcx : CbX W cb) :
    ∀ (acts : List Action) (ws ws' : WS), Good W ws → GoodX ws → (∀ a ∈ acts, ActionOk a) →
      acts.foldlM (perform W cb) ws = .ok ws' → Good W ws' ∧ GoodX ws' := by
  intro acts
  induction acts with
  | nil =>
    intro ws ws' hg hx _ e
    simp only [List.foldlM_nil, pure_eq_ok, Except.ok.injEq] at e
    rw [← e]; exact ⟨hg, hx⟩
  | cons a rest ih =>
    intro ws ws' hg hx hok e
    rw [List.foldlM_cons] at e
    obtain ⟨w1, e1, e2⟩ := bind_eq_ok.mp e
    obtain ⟨g1, x1⟩ := x_perform hW32 hcb hcx a (hok a (List.mem_cons_self)) ws w1 hg hx e1
    exact ih w1 ws' g1 x1 (fun x hx => hok x (List.mem_cons_of_mem _ hx)) e2

theorem x_process (hW32 : W 32 = some 1) {cb : CbPolicy} (hcb : CbInv W cb) (hcx : CbX W cb)
    (p p' : Parser) (hp : ParserInv W p) (hx : ScreenX p.ws.screen) (bytes : List Nat) (hb : ∀ b ∈ bytes, b < 256)
    (e : p.process W cb bytes = .ok p') : ScreenX p'.ws.screen := by
  obtain ⟨_, a1⟩ := good_advance p.vte bytes hp.vte hb
  simp only [Parser.process] at e
  obtain ⟨ws', e1, e⟩ := bind_eq_ok.mp e
  simp only [pure_eq_ok, Except.ok.injEq] at e
  rw [← e]
  exact (x_actions hW32 hcb hcx _ p.ws ws' hp.screen hx a1 e1).2

theorem x_applyOp (hW32 : W 32 = some 1) {cb : CbPolicy} (hcb : CbInv W cb) (hcx : CbX W cb)
    (p p' : Parser) (hp : ParserInv W p) (hx : ScreenX p.ws.screen) (op : Op) (hv : op.Valid)
    (e : applyOp W cb p op = .ok p') : ScreenX p'.ws.screen := by
  cases op with
  | process bytes => exact x_process hW32 hcb hcx p p' hp hx bytes hv e
  | setSize r c =>
    simp only [applyOp] at e
    obtain ⟨s, hs, e⟩ := bind_eq_ok.mp e
    simp only [pure_eq_ok, Except.ok.injEq] at e
    rw [← e]
    exact screenX_setSize hx r c hs
  | setScrollback k =>
    simp only [applyOp] at e
    obtain ⟨s, hs, e⟩ := bind_eq_ok.mp e
    simp only [pure_eq_ok, Except.ok.injEq] at e
    rw [← e]
    exact screenX_modifyGrid hx (fun g' hg => by
      simp only [pure_eq_ok, Except.ok.injEq] at hg
      rw [← hg]; exact gridP_same hx.cur rfl rfl) hs

/-- **every reachable screen satisfies `Inv` and the per-cell conditions**: every history of
`process` / `set_size` / `set_scrollback` calls from `Parser::new`, any bytes, any chunking -/
theorem reachable_x (hW32 : W 32 = some 1) {cb : CbPolicy} (hcb : CbInv W cb) (hcx : CbX W cb)
    (rows cols sb : Nat) (hr : 1 ≤ rows) (hc : 1 ≤ cols) (hr' : rows ≤ 65535) (hc' : cols ≤ 65535)
    (ops : List Op) (hv : ∀ op ∈ ops, op.Valid) :
    ∃ p, (Parser.new rows cols sb >>= fun p0 => ops.foldlM (applyOp W cb) p0) = .ok p ∧ ParserInv W p ∧
      ScreenX p.ws.screen := by
  obtain ⟨p0, e0, i0⟩ := new_parserInv (W := W) rows cols sb hr hc hr' hc'
  have x0 : ScreenX p0.ws.screen := by
    simp only [Parser.new] at e0
    obtain ⟨s, hs, e0⟩ := bind_eq_ok.mp e0
    simp only [pure_eq_ok, Except.ok.injEq] at e0
    rw [← e0]
    exact screenX_new hs
  rw [e0]
  simp only [ok_bind]
  clear e0
  induction ops generalizing p0 with
  | nil => exact ⟨p0, rfl, i0, x0⟩
  | cons op rest ih =>
    obtain ⟨p1, e1, i1⟩ := applyOp_total hW32 hcb p0 i0 op (hv op (List.mem_cons_self))
    have x1 := x_applyOp hW32 hcb hcx p0 p1 i0 x0 op (hv op (List.mem_cons_self)) e1
    obtain ⟨p2, e2, i2, x2⟩ := ih (fun o ho => hv o (List.mem_cons_of_mem _ ho)) p1 i1 x1
    exact ⟨p2, by simp [List.foldlM, e1, e2], i2, x2⟩

end Vt.InvX
