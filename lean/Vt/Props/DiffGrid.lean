/-
  Vt.Props.DiffGrid — C02 for screens without soft-wrapped lines: the loop of `Grid::write_contents_diff` over the
  lines (each line by `DiffRow.row_diff_draws`), the cursor fix-up, the pen, cursor visibility and input modes.

  `state_diff_unwrapped`: P and S any two screens satisfying the invariants, of the same size, not scrolled back,
  in which NO line is soft-wrapped; a receiver (a parser satisfying the parser invariant) that reproduces P, fed the
  BYTES of `S.state_diff(P)`, reproduces S — whatever the lines of P and S hold: text, wide characters, combining
  characters, attributes, blanks.  The conclusion re-establishes the hypotheses, so diffs chain.

  The restriction to unwrapped lines is where the property is TRUE of the pinned tree: all listed C02 findings
  (F8a, F8b, F9, F12) need a wrapped line or a scrolled view.
-/
import Vt.Props.DiffRow
import Vt.Props.C02b
namespace Vt.C02
open Vt Vt.Recv Vt.C19 Vt.C09 Vt.RowDraw Vt.GridDraw Vt.Tok Vt.C03 Vt.C01 Vt.Bytes Vt.DiffRow
set_option linter.unusedSimpArgs false
set_option linter.unusedVariables false

variable {W : Nat → Option Nat} {cb : CbPolicy}

/-- the receiver between the lines of a diff: lines `< i` show the current screen, lines `≥ i` the previous one;
no line is wrapped -/
structure RowsInvD (srows prows : List Row) (cols i : Nat) (pp : Pos) (R : RS) : Prop where
  canvas : Canvas R.g
  hcols : R.g.size.cols = cols
  nrows : R.g.size.rows = srows.length
  plen : prows.length = srows.length
  pos : R.g.pos = pp
  row : ∀ k (hk : k < srows.length), ∃ Rk, R.g.rows[k]? = some Rk ∧ Rk.wrapped = false ∧
    (k < i → Rk.cells.map view = srows[k].cells.map view) ∧
    (i ≤ k → Rk.cells.map view = (prows[k]'(by rw [plen]; exact hk)).cells.map view)

/-- the parser after an emitted prefix satisfies the parser invariant -/
theorem parserInv_of_emitted (hW32 : W 32 = some 1) (hcb : C13.CbInv W cb) {p0 p1 : Parser} (hp : C13.ParserInv W p0)
    {out : List Nat} (hb : Bytes out) (e : p0.process W cb out = .ok p1) : C13.ParserInv W p1 := by
  obtain ⟨p', e', hinv⟩ := C13.process_total hW32 hcb p0 hp out hb
  have : p' = p1 := by rw [e] at e'; exact (Except.ok.inj e').symm
  subst this; exact hinv

/-- **one line of the loop** -/
theorem diff_rows_step (hW : WOk W) (hcb : C13.CbInv W cb) (p0 : Parser) (h0 : Ready p0) (hpi : C13.ParserInv W p0)
    {srows prows : List Row} {cols : Nat} (hS : SrcRows W cols srows) (hP : SrcRows W cols prows)
    (hsu : ∀ r ∈ srows, r.wrapped = false) (hpu : ∀ r ∈ prows, r.wrapped = false)
    {i : Nat} (hi : i < srows.length) {pp : Pos} {R : RS} {out : List Nat}
    (hinv : RowsInvD srows prows cols i pp R) (hem : Emitted W cb p0 out R) (hb : Bytes out) (hpp : pp.col ≤ cols) (pw : Bool) :
    ∃ bs np na R', srows[i].writeContentsDiff (prows[i]'(by rw [hinv.plen]; exact hi)) 0 cols i false pw pp R.pen = .ok (bs, np, na) ∧
      Emitted W cb p0 (out ++ bs) R' ∧ R'.pen = na ∧ RowsInvD srows prows cols (i + 1) np R' ∧ Bytes (out ++ bs) ∧
      np.col ≤ cols ∧ R'.g.scrollbackOffset = R.g.scrollbackOffset ∧ (Attrs.wf R.pen → Attrs.wf na) := by
  have hip : i < prows.length := by rw [hinv.plen]; exact hi
  have hmem : srows[i] ∈ srows := List.getElem_mem hi
  have hmemp : prows[i] ∈ prows := List.getElem_mem hip
  have hwd := hS.width _ hmem
  have hwdp := hP.width _ hmemp
  obtain ⟨Ri0, hRi0, hRu, _, hshow⟩ := hinv.row i hi
  have hir : i < R.g.size.rows := by rw [hinv.nrows]; exact hi
  have hil : i < R.g.rows.length := by rw [hinv.canvas.alloc]; exact hir
  obtain ⟨p1, e1, w1, r1⟩ := hem
  have hrs : rsOf p1.ws = R := by rw [w1, rsOf_withRS]
  have hpi1 := parserInv_of_emitted hW.space hcb hpi hb e1
  have hrow := row_diff_draws (cb := cb) hW hcb p1 r1 hpi1 (by rw [hrs]; exact hinv.canvas) i (by rw [hrs]; exact hir)
    srows[i] prows[i] (by rw [hrs, hinv.hcols]; exact hwd) (by rw [hrs, hinv.hcols]; exact hwdp) (hS.ok _ hmem) (hP.ok _ hmemp)
    (hsu _ hmem) (hpu _ hmemp) Ri0 (by rw [hrs]; exact hRi0) (hshow (Nat.le_refl _)) hRu
    (by rw [hrs, hinv.pos, hinv.hcols]; exact hpp) pw
  rw [hrs, hinv.pos, hwd] at hrow
  obtain ⟨bs, np, na, ewc, hex, hbb, hnp, hwf⟩ := hrow
  obtain ⟨Ri, hemr, hv, hu⟩ := hex
  rw [hinv.hcols] at hnp
  have hRil : Ri.cells.length = R.g.size.cols := by
    have := congrArg List.length hv
    simp only [List.length_map] at this
    rw [this, hwd, hinv.hcols]
  refine ⟨bs, np, na, shape R i Ri np na, ewc, emitted_comp h0 e1 w1 r1 hemr, rfl, ?_, Bytes.append hb hbb, hnp, rfl, hwf⟩
  refine ⟨shape_canvas hinv.canvas hRil np na, hinv.hcols, hinv.nrows, hinv.plen, rfl, ?_⟩
  intro k hk
  by_cases hki : k = i
  · subst hki
    refine ⟨Ri, ?_, hu, fun _ => hv, fun h => by omega⟩
    rw [shape_rows_get]; simp [hil]
  · obtain ⟨Rk, hRk, hku, hlo, hhi⟩ := hinv.row k hk
    refine ⟨Rk, ?_, hku, fun h => hlo (by omega), fun h => hhi (by omega)⟩
    rw [shape_rows_get, if_neg (fun h => hki h.1)]; exact hRk

/-- **the loop over the lines** -/
theorem diff_rows_loop (hW : WOk W) (hcb : C13.CbInv W cb) (p0 : Parser) (h0 : Ready p0) (hpi : C13.ParserInv W p0)
    {srows prows : List Row} {cols : Nat} (hS : SrcRows W cols srows) (hP : SrcRows W cols prows)
    (hsu : ∀ r ∈ srows, r.wrapped = false) (hpu : ∀ r ∈ prows, r.wrapped = false) (hpl : prows.length = srows.length) :
    ∀ (rs : List (Row × Row)) (i : Nat) (pw : Bool) (pp : Pos) (out : List Nat) (R : RS),
    (srows.zip prows).drop i = rs → i ≤ srows.length →
    RowsInvD srows prows cols i pp R → Emitted W cb p0 out R → Bytes out → pp.col ≤ cols →
    ∃ out' pp' pa' R', Grid.diffRowsLoop cols rs i false pw pp R.pen out = .ok (out', pp', pa') ∧
      Emitted W cb p0 out' R' ∧ R'.pen = pa' ∧ RowsInvD srows prows cols srows.length pp' R' ∧ Bytes out' ∧
      pp'.col ≤ cols ∧ R'.g.scrollbackOffset = R.g.scrollbackOffset ∧ (Attrs.wf R.pen → Attrs.wf pa')
  | [], i, pw, pp, out, R, hrs, hil, hinv, hem, hb, hpp => by
    have hi : i = srows.length := by
      have := congrArg List.length hrs
      simp only [List.length_drop, List.length_nil, List.length_zip, hpl, Nat.min_self] at this
      omega
    subst hi
    exact ⟨out, pp, R.pen, R, rfl, hem, rfl, hinv, hb, hpp, rfl, id⟩
  | (r, pr) :: rest, i, pw, pp, out, R, hrs, hil, hinv, hem, hb, hpp => by
    have hi : i < srows.length := by
      have := congrArg List.length hrs
      simp only [List.length_drop, List.length_cons, List.length_zip, hpl, Nat.min_self] at this
      omega
    have hiz : i < (srows.zip prows).length := by simp [List.length_zip, hpl]; exact hi
    have hr : (srows[i], prows[i]'(by rw [hpl]; exact hi)) = (r, pr) := by
      have := congrArg (fun l => l[0]?) hrs
      simp only [List.getElem?_drop, Nat.add_zero, List.getElem?_eq_getElem hiz, List.getElem?_cons_zero,
        Option.some.injEq, List.getElem_zip] at this
      exact this
    have hrest : (srows.zip prows).drop (i + 1) = rest := by
      have := congrArg List.tail hrs
      simpa [List.tail_drop] using this
    obtain ⟨bs, np, na, R1, ewc, hem1, hpen1, hinv1, hb1, hnp1, hoff1, hwf1⟩ :=
      diff_rows_step hW hcb p0 h0 hpi hS hP hsu hpu hi hinv hem hb hpp pw
    obtain ⟨out', pp', pa', R', e', hem', hpen', hinv', hb', hpp', hoff', hwf'⟩ :=
      diff_rows_loop hW hcb p0 h0 hpi hS hP hsu hpu hpl rest (i + 1) pr.wrapped np (out ++ bs) R1 hrest (by omega) hinv1 hem1 hb1 hnp1
    refine ⟨out', pp', pa', R', ?_, hem', hpen', hinv', hb', hpp', hoff'.trans hoff1, fun h => hwf' (hpen1 ▸ hwf1 h)⟩
    simp only [Prod.mk.injEq] at hr
    rw [← hr.1, ← hr.2]
    simp only [Grid.diffRowsLoop, ewc, ok_bind]
    rw [← hpen1, hsu _ (List.getElem_mem hi), hr.2]
    exact e'

/-- **C02 for screens without soft-wrapped lines**: `P` and `S` satisfy the invariants (`SrcScreen`: every reachable
screen that is not scrolled back), have the same size, and none of their lines is soft-wrapped.  A receiver `q`
satisfying the parser invariant that reproduces `P`, fed the bytes of `S.state_diff(P)`, reproduces `S`, still
satisfies the parser invariant, and reports no event — so the step chains along any sequence of such snapshots -/
theorem state_diff_unwrapped (hW : WOk W) (hcb : C13.CbInv W cb) {q : Parser} (P S : Screen) (hq : Reproduces q P)
    (hqi : C13.ParserInv W q) (hsz : S.cur.size = P.cur.size) (hS : SrcScreen W S) (hP : SrcScreen W P)
    (hsu : ∀ r ∈ S.cur.rows, r.wrapped = false) (hpu : ∀ r ∈ P.cur.rows, r.wrapped = false) :
    ∃ bytes q', S.stateDiff P = .ok bytes ∧ q.process W cb bytes = .ok q' ∧ Reproduces q' S ∧ C13.ParserInv W q' ∧
      q'.ws.events = q.ws.events := by
  have hoffS := hS.off
  have hoffP := hP.off
  have hvS := C19.visibleRows_offset0 S.cur hoffS
  have hvP := C19.visibleRows_offset0 P.cur hoffP
  have hpl : P.cur.rows.length = S.cur.rows.length := by rw [hP.alloc, hS.alloc, hsz]
  -- 1. cursor visibility
  obtain ⟨q1, hcbytes, e1, w1ev, r1, hrs1, hh1, hm1⟩ : ∃ q1 hcb, q.process W cb hcb = .ok q1 ∧ q1.ws.events = q.ws.events ∧
      Ready q1 ∧ rsOf q1.ws = rsOf q.ws ∧ q1.ws.screen.hideCursor = S.hideCursor ∧
      C10.inputModes q1.ws.screen = C10.inputModes q.ws.screen ∧
      hcb = (if S.hideCursor != P.hideCursor then Term.hideCursor S.hideCursor else []) := by
    by_cases hd : (S.hideCursor != P.hideCursor) = true
    · obtain ⟨q1, e1, w1, r1⟩ := C10.process_hideCursor W cb q S.hideCursor hq.ready
      refine ⟨q1, _, e1, by rw [w1], r1, by rw [w1]; exact rsOf_hide _ _, by rw [w1], by rw [w1]; rfl, by rw [if_pos hd]⟩
    · have hd' : S.hideCursor = P.hideCursor := by simpa using hd
      refine ⟨q, [], C04.process_nil W cb q hq.ready.2, rfl, hq.ready, rfl, by rw [hq.hide, hd'], rfl, by rw [if_neg hd]⟩
  have hcbb : Bytes hcbytes := by
    rw [hm1.2]; split
    · exact hideCursor_bytes _
    · exact Bytes.nil
  have hpi1 := parserInv_of_emitted hW.space hcb hqi hcbb e1
  -- 2. the lines
  have hinvD : RowsInvD S.cur.rows P.cur.rows S.cur.size.cols 0 P.cur.pos (rsOf q1.ws) := by
    rw [hrs1]
    have hd := hq.drawn
    refine ⟨hd.canvas, by rw [hd.hcols, hsz], by rw [hd.nrows, hpl], hpl, hd.pos, ?_⟩
    intro k hk
    have hkp : k < P.cur.rows.length := by rw [hpl]; exact hk
    obtain ⟨Rk, hRk, hdone, _⟩ := hd.row k hkp
    obtain ⟨d1, _, d3⟩ := hdone hkp
    refine ⟨Rk, hRk, ?_, fun h => absurd h (Nat.not_lt_zero _), fun _ => d1⟩
    rw [d3, if_neg (by simp)]
    exact hpu _ (List.getElem_mem hkp)
  have hPs : SrcRows W S.cur.size.cols P.cur.rows := by rw [hsz]; exact hP.rows
  obtain ⟨out, np, na, R', eloop, hem', hpen', hinv', hbout, hnp, hoff', hwfna⟩ :=
    diff_rows_loop hW hcb q1 r1 hpi1 hS.rows hPs hsu hpu hpl (S.cur.rows.zip P.cur.rows) 0 false P.cur.pos []
      (rsOf q1.ws) rfl (Nat.zero_le _) hinvD (emitted_nil W cb q1 r1) Bytes.nil (by rw [hsz]; exact hP.cur_col)
  have hpen1 : (rsOf q1.ws).pen = P.attrs := by rw [hrs1]; exact hq.pen
  rw [hpen1] at eloop hwfna
  have hwf : Attrs.wf na := hwfna hP.pen_wf
  -- the receiver's cells are well formed: the invariant C01's cursor fix-up starts from
  have hg' := (emitted_inv hW.space hcb hpi1 hbout hem').1
  have hinvS : RowsInv S.cur.rows S.cur.size.cols S.cur.rows.length false np R' := by
    refine ⟨hinv'.canvas, hinv'.hcols, hinv'.nrows, hinv'.pos, ?_, fun h => by simp at h⟩
    intro k hk
    obtain ⟨Rk, hRk, hku, hlo, _⟩ := hinv'.row k hk
    refine ⟨Rk, hRk, fun _ => ⟨hlo hk, ?_, ?_⟩, fun h => by omega⟩
    · intro c hc
      have hrow := hg'.row_ok Rk (List.mem_of_getElem? hRk)
      have hok := ((rowOk_iff W Rk).mp hrow.2).2.cells_ok c hc
      simp only [cellOk, Bool.and_eq_true, beq_iff_eq] at hok
      exact hok.1.1.1.1
    · rw [hku, if_neg (by simp)]
      exact (hsu _ (List.getElem_mem hk)).symm
  obtain ⟨cur, ecur, Rf, hemf, hpenf, hinvf, hofff⟩ := cursor_fixup (cb := cb) hW r1 S.cur hS.rows hS.alloc hS.cur_row hS.cur_col
    hem' hpen' hwf hinvS (some np) (fun p hp => by
      have : np = p := Option.some.inj hp
      subst this
      exact ⟨rfl, hnp⟩)
  -- 3. the pen
  have hem2 := emitted_step W cb r1 hemf (step_pen W cb S.attrs na hS.pen_wf)
    (r' := { Rf with pen := S.attrs }) (by simp [hpenf])
  obtain ⟨q2, e2, w2, r2⟩ := hem2
  -- 4. the input modes
  have hm2 : C10.inputModes q2.ws.screen = C10.inputModes P := by
    rw [w2]
    have : C10.inputModes (withRS q1.ws { Rf with pen := S.attrs }).screen = C10.inputModes q1.ws.screen := by
      simp only [C10.inputModes, withRS, Screen.setCur]; split <;> rfl
    rw [this, hm1.1, hq.modes]
  obtain ⟨q3, e3, w3, r3⟩ := C10.process_input_mode_diff W cb q2 S P r2 hm2
  -- assemble
  have egrid : S.cur.writeContentsDiff P.cur P.attrs = .ok (out ++ cur, na) := by
    simp only [Grid.writeContentsDiff, hvS, hvP, ok_bind]
    rw [eloop]
    simp only [ok_bind]
    have : S.cur.writeCursorPositionFormatted (some np) (some na) = .ok cur := ecur
    rw [this]
    simp only [ok_bind, pure_eq_ok]
  have ecd : S.writeContentsDiff P = .ok (hcbytes ++ (out ++ cur) ++ S.attrs.writeEscapeCodeDiff na) := by
    simp only [Screen.writeContentsDiff, egrid, ok_bind, pure_eq_ok, hm1.2]
  have ebytes : S.stateDiff P = .ok ((hcbytes ++ (out ++ cur) ++ S.attrs.writeEscapeCodeDiff na) ++ S.inputModeDiff P) := by
    simp only [Screen.stateDiff, ecd, ok_bind, pure_eq_ok, Screen.inputModeDiff]
  have eproc : q.process W cb ((hcbytes ++ (out ++ cur) ++ S.attrs.writeEscapeCodeDiff na) ++ S.inputModeDiff P) = .ok q3 := by
    have s1 := process_then' (cb := cb) hq.ready e1 r1 e2
    have s2 := process_then' (cb := cb) hq.ready s1 r2 e3
    simpa [List.append_assoc] using s2
  refine ⟨_, q3, ebytes, eproc, ?_, parserInv_of_emitted hW.space hcb hqi (stateDiff_bytes' S P ebytes) eproc, ?_⟩
  · have hrs3 : rsOf q3.ws = { Rf with pen := S.attrs } := by
      rw [w3]
      have : rsOf ({ q2.ws with screen := C10.setInputModes q2.ws.screen (C10.inputModes S) } : WS) = rsOf q2.ws := rfl
      rw [this, w2, rsOf_withRS]
    refine ⟨r3, ?_, by rw [hrs3], ?_, by rw [w3]; rfl, ?_⟩
    · show RowsInv _ _ _ false _ (rsOf q3.ws)
      rw [hrs3]
      have := rowsInv_frame hinvf { Rf with pen := S.attrs } rfl rfl rfl rfl rfl
      rw [show ({ Rf with pen := S.attrs } : RS).g.pos = S.cur.pos from hinvf.pos] at this
      exact this
    · rw [w3]
      show (C10.setInputModes q2.ws.screen (C10.inputModes S)).hideCursor = S.hideCursor
      have : (C10.setInputModes q2.ws.screen (C10.inputModes S)).hideCursor = q2.ws.screen.hideCursor := rfl
      rw [this, w2]
      have : (withRS q1.ws { Rf with pen := S.attrs }).screen.hideCursor = q1.ws.screen.hideCursor := by
        simp only [withRS, Screen.setCur]; split <;> rfl
      rw [this, hh1]
    · rw [hrs3]
      show Rf.g.scrollbackOffset = 0
      rw [hofff, hoff', hrs1]; exact hq.off
  · rw [w3]
    show q2.ws.events = q.ws.events
    rw [w2]
    show q1.ws.events = q.ws.events
    exact w1ev

/-- a full redraw on a new parser leaves a parser that satisfies the parser invariant and reproduces the source -/
theorem reproduces_of_redraw_inv (hW : WOk W) (hcb : C13.CbInv W cb) (P : Screen) (hinv : emitInvB W P = true)
    (hoff : P.cur.scrollbackOffset = 0) (sb : Nat) :
    ∃ q bytes q', Parser.new P.cur.size.rows P.cur.size.cols sb = .ok q ∧ P.stateFormatted = .ok bytes ∧
      q.process W cb bytes = .ok q' ∧ Reproduces q' P ∧ C13.ParserInv W q' ∧ q'.ws.events = [] := by
  obtain ⟨q, b1, q1, enew, eb1, ep1, hrep⟩ := reproduces_of_redraw (cb := cb) hW P hinv hoff sb
  have hI : Inv W P := by
    simp only [emitInvB, invPlusB, Bool.and_eq_true] at hinv
    exact hinv.1.1.1.1.1
  obtain ⟨hcg, _⟩ := ((inv_iff W P).mp hI).cur
  obtain ⟨q0, e0, i0⟩ := C13.new_parserInv (W := W) P.cur.size.rows P.cur.size.cols sb hcg.rows_pos hcg.cols_pos
    hcg.rows_u16 hcg.cols_u16
  have hq0 : q0 = q := by rw [enew] at e0; exact (Except.ok.inj e0).symm
  subst hq0
  refine ⟨q0, b1, q1, enew, eb1, ep1, hrep, parserInv_of_emitted hW.space hcb i0 (stateFormatted_bytes' P eb1) ep1, ?_⟩
  obtain ⟨q', b', q1', enew', eb', ep', _, hev'⟩ := full_redraw_fresh (cb := cb) hW P hinv hoff sb
  have hq : q' = q0 := by rw [enew] at enew'; exact (Except.ok.inj enew').symm
  subst hq
  have hb : b' = b1 := by rw [eb1] at eb'; exact (Except.ok.inj eb').symm
  subst hb
  have hq1 : q1' = q1 := by rw [ep1] at ep'; exact (Except.ok.inj ep').symm
  subst hq1
  exact hev'

/-- a receiver fed the diffs of a chain of snapshots, each against the one before -/
def feedDiffs (W : Nat → Option Nat) (cb : CbPolicy) : Parser → Screen → List Screen → M Parser
  | q, _, [] => pure q
  | q, prev, S :: rest => do
    let bytes ← S.stateDiff prev
    let q' ← q.process W cb bytes
    feedDiffs W cb q' S rest

/-- what is asked of each snapshot of a chain: the invariants (every reachable screen), not scrolled back, the size
of the chain, no soft-wrapped line -/
structure Snap (W : Nat → Option Nat) (size : Size) (S : Screen) : Prop where
  inv : emitInvB W S = true
  off : S.cur.scrollbackOffset = 0
  size : S.cur.size = size
  unwrapped : ∀ r ∈ S.cur.rows, r.wrapped = false

/-- **C02 along chains**: a single receiver fed `diff(S1,S0)`, `diff(S2,S1)`, … stays a reproduction of the latest
snapshot -/
theorem chain_unwrapped (hW : WOk W) (hcb : C13.CbInv W cb) (size : Size) :
    ∀ (Ss : List Screen) (q : Parser) (P : Screen), Reproduces q P → C13.ParserInv W q → Snap W size P →
      (∀ S ∈ Ss, Snap W size S) →
      ∃ q', feedDiffs W cb q P Ss = .ok q' ∧ Reproduces q' ((P :: Ss).getLast (by simp)) ∧ C13.ParserInv W q' ∧
        q'.ws.events = q.ws.events
  | [], q, P, hq, hqi, _, _ => ⟨q, rfl, by simpa using hq, hqi, rfl⟩
  | S :: rest, q, P, hq, hqi, hP, hall => by
    have hS := hall S (List.mem_cons_self ..)
    obtain ⟨bytes, q1, eb, ep, hrep, hinv1, hev⟩ := state_diff_unwrapped (cb := cb) hW hcb P S hq hqi
      (by rw [hS.size, hP.size]) (srcScreen_of_inv hS.inv hS.off) (srcScreen_of_inv hP.inv hP.off) hS.unwrapped hP.unwrapped
    obtain ⟨q', e', hrep', hinv', hev'⟩ := chain_unwrapped hW hcb size rest q1 S hrep hinv1 hS
      (fun T hT => hall T (List.mem_cons_of_mem _ hT))
    refine ⟨q', ?_, ?_, hinv', hev'.trans hev⟩
    · simp only [feedDiffs, eb, ok_bind, ep]
      exact e'
    · rw [List.getLast_cons (by simp)]
      exact hrep'

/-- **C02, as the property states it, for screens without soft-wrapped lines**: a new parser fed
`S0.state_formatted()` and then the diffs of any chain of snapshots ends in the observable state of the last one, and
reports no event -/
theorem diff_chain_after_redraw (hW : WOk W) (hcb : C13.CbInv W cb) (S0 : Screen) (Ss : List Screen)
    (h0 : Snap W S0.cur.size S0) (hall : ∀ S ∈ Ss, Snap W S0.cur.size S) (sb : Nat) :
    ∃ q b0 q0 qn, Parser.new S0.cur.size.rows S0.cur.size.cols sb = .ok q ∧ S0.stateFormatted = .ok b0 ∧
      q.process W cb b0 = .ok q0 ∧ feedDiffs W cb q0 S0 Ss = .ok qn ∧
      obs qn.screen = obs ((S0 :: Ss).getLast (by simp)) ∧ qn.ws.events = [] := by
  obtain ⟨q, b0, q0, enew, eb0, ep0, hrep0, hinv0, hev0⟩ := reproduces_of_redraw_inv (cb := cb) hW hcb S0 h0.inv h0.off sb
  obtain ⟨qn, en, hrepn, _, hevn⟩ := chain_unwrapped (cb := cb) hW hcb S0.cur.size Ss q0 S0 hrep0 hinv0 h0 hall
  have hlast : Snap W S0.cur.size ((S0 :: Ss).getLast (by simp)) := by
    have := List.getLast_mem (l := S0 :: Ss) (by simp)
    rcases List.mem_cons.mp this with h | h
    · rw [h]; exact h0
    · exact hall _ h
  have hSl := srcScreen_of_inv hlast.inv hlast.off
  refine ⟨q, b0, q0, qn, enew, eb0, ep0, en, shows_obs (shows_of_reproduces hrepn hSl.alloc) hrepn.modes hlast.off, ?_⟩
  rw [hevn, hev0]

/-- the hypotheses are satisfiable by screens that differ in their cells: text, a wide character, colours, an erased
cell; no line wrapped (kernel-evaluated; a test) -/
theorem snap_nonvacuous :
    isOkTrue (do
      let p ← C02.run 3 6 0 [[97, 98, 0xe4, 0xb8, 0x80, 99]]
      let s ← C02.run 3 6 0 [[97, 98, 0xe4, 0xb8, 0x80, 99, 0x1b, 0x5b, 0x31, 0x3b, 0x32, 0x48, 0x1b, 0x5b, 0x33, 0x31, 0x6d, 120, 121,
        0x1b, 0x5b, 0x32, 0x3b, 0x31, 0x48, 122, 0x1b, 0x5b, 0x31, 0x3b, 0x36, 0x48, 0x1b, 0x5b, 0x58]]
      pure (emitInvB W0 p.screen && emitInvB W0 s.screen && p.screen.cur.scrollbackOffset == 0 &&
            s.screen.cur.scrollbackOffset == 0 && s.screen.cur.size == p.screen.cur.size &&
            p.screen.cur.rows.all (fun r => !r.wrapped) && s.screen.cur.rows.all (fun r => !r.wrapped) &&
            s.screen.cur.rows != p.screen.cur.rows)) = true := by
  decide +kernel

end Vt.C02
