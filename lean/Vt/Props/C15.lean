/-
  C15 — row-wise redraw (rows_formatted, rows_diff, cursor_state, attributes).

  Proved so far (see `partial` in the registry):
  * `subwindow_never_wraps` / `rows_formatted_subwindow` : for a proper sub-window
    (`start ≠ 0` or `width ≠ cols`), `rows_formatted` passes `wrapping = false` to every row,
    whatever the rows' wrap flags — the rows of a sub-window are always positioned explicitly
    and never rely on the previous row's wrap.
  * `rows_formatted_length` : one byte string per visible row.
  * `rows_examples` : kernel-evaluated full-width and sub-window redraws of a non-trivial screen
    with the repository's drawing protocol (tests of the model).
-/
import Vt.Spec.Obs
import Vt.Props.C02
namespace Vt.C15
open Vt

/-- the rows of a proper sub-window, each drawn with `wrapping = false` -/
def rowsNoWrap (start width : Nat) : List Row → Nat → M (List (List Nat))
  | [], _ => pure []
  | r :: rs, i => do
    let (bs, _, _) ← r.writeContentsFormatted start width i false none none
    let rest ← rowsNoWrap start width rs (i + 1)
    pure (bs :: rest)

/-- for a proper sub-window (`start ≠ 0` or `width ≠ cols`) `rows_formatted` passes
`wrapping = false` to every row, whatever the rows' wrap flags are: each row of a sub-window is
self-contained and must be positioned explicitly by the caller -/
theorem subwindow_never_wraps (start width : Nat) :
    ∀ (rs : List Row) (i : Nat),
      Screen.rowsFormattedLoop false start width rs i false = rowsNoWrap start width rs i := by
  intro rs
  induction rs with
  | nil => intro i; rfl
  | cons r rs ih =>
    intro i
    simp only [Screen.rowsFormattedLoop, rowsNoWrap, Bool.false_eq_true, ↓reduceIte, ih]

theorem rows_formatted_subwindow (s : Screen) (start width : Nat)
    (h : (start == 0 && width == s.grid.size.cols) = false) :
    s.rowsFormatted start width = (s.cur.visibleRows >>= fun rs => rowsNoWrap start width rs 0) := by
  simp only [Screen.rowsFormatted, h, subwindow_never_wraps]

theorem rowsFormattedLoop_length (full : Bool) (start width : Nat) :
    ∀ (rs : List Row) (i : Nat) (w : Bool) (out : List (List Nat)),
      Screen.rowsFormattedLoop full start width rs i w = .ok out → out.length = rs.length := by
  intro rs
  induction rs with
  | nil => intro i w out h; simp [Screen.rowsFormattedLoop] at h; subst h; rfl
  | cons r rs ih =>
    intro i w out h
    simp only [Screen.rowsFormattedLoop] at h
    obtain ⟨⟨bs, p, a⟩, _, h⟩ := bind_eq_ok.mp h
    obtain ⟨rest, hrest, h⟩ := bind_eq_ok.mp h
    simp only [pure_eq_ok, Except.ok.injEq] at h
    subst h
    simp [ih _ _ _ hrest]

/-- draw the rows with the repository's protocol and compare the observable state -/
def rowsReproduce (S : Screen) : M Bool := do
  let q ← Parser.new S.cur.size.rows S.cur.size.cols 0
  let rs ← S.rowsFormatted 0 S.cur.size.cols
  let vr ← S.cur.visibleRows
  let bytes := (rs.zip (vr.zipIdx)).foldl (fun (acc : List Nat × Bool) p =>
      let (row, (vrow, i)) := p
      (acc.1 ++ [0x1b, 0x5b, 0x6d] ++ (if acc.2 then [] else Term.moveTo ⟨i, 0⟩) ++ row, vrow.wrapped))
    (([] : List Nat), false)
  let cur ← S.cursorStateFormatted
  let q ← q.process W0 cbNone (bytes.1 ++ [0x1b, 0x5b, 0x6d] ++ cur ++ S.attributesFormatted)
  let a ← obs S
  let b ← obs q.screen
  pure (obsEq (S.cur.scrollbackOffset != 0) { a with modes := b.modes } b)

theorem rows_examples :
    isOkTrue (do
      let p ← C02.run 3 4 0 [[0x1b, 0x5b, 0x33, 0x31, 0x3b, 0x34, 0x6d, 97, 0xCC, 0x81, 0xE4, 0xB8, 0x80, 98, 99, 100, 101, 102]]
      rowsReproduce p.screen) = true ∧
    isOkTrue (do
      let p ← C02.run 4 5 0 [[120, 121, 13, 10, 10, 0x1b, 0x5b, 0x34, 0x32, 0x6d, 122, 0x1b, 0x5b, 0x4b, 0x1b, 0x5b, 0x31, 0x3b, 0x35, 0x48, 113]]
      rowsReproduce p.screen) = true := by
  refine ⟨by decide +kernel, by decide +kernel⟩

end Vt.C15
