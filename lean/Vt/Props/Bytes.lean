/-
  Scratch.Bytes — every byte string the model's emitters return consists of numbers < 256.

  `Bytes l := ∀ b ∈ l, b < 256`.  Partial-correctness style: if an emitter returns `.ok bs` then `Bytes bs`.
  All results are unconditional: the fixed escape sequences are constants, numbers go through `itoa`
  (digits 48..57), and cell contents have passed `Utf8.valid` in `Cell.contentsBytes`
  (`utf8_err_none_bytes`: a list accepted by `fromUtf8` has all entries ≤ 0xF4).  The `Inv` / `GridInv` /
  `cellOk` forms at the end are restatements (hypotheses unused), plus `*_total_bytes` = C03 totality + bytes.
-/
import Vt.Props.PosBound
namespace Vt.Bytes
open Vt
set_option linter.unusedSimpArgs false

def Bytes (l : List Nat) : Prop := ∀ b ∈ l, b < 256

theorem Bytes.nil : Bytes [] := fun _ h => by cases h

theorem Bytes.cons {b : Nat} {l : List Nat} (hb : b < 256) (hl : Bytes l) : Bytes (b :: l) := by
  intro x hx
  rcases List.mem_cons.mp hx with rfl | hx
  · exact hb
  · exact hl x hx

theorem Bytes.append {l₁ l₂ : List Nat} (h₁ : Bytes l₁) (h₂ : Bytes l₂) : Bytes (l₁ ++ l₂) := by
  intro x hx
  rcases List.mem_append.mp hx with hx | hx
  · exact h₁ x hx
  · exact h₂ x hx

theorem isCont_lt {b : Nat} (h : Utf8.isCont b = true) : b < 256 := by
  simp only [Utf8.isCont, Bool.and_eq_true, decide_eq_true_eq] at h
  omega

theorem ok3_lt {a b : Nat} (h : Utf8.ok3 a b = true) : b < 256 := by
  simp only [Utf8.ok3, Bool.and_eq_true, Bool.or_eq_true, decide_eq_true_eq, beq_iff_eq] at h
  omega

theorem ok4_lt {a b : Nat} (h : Utf8.ok4 a b = true) : b < 256 := by
  simp only [Utf8.ok4, Bool.and_eq_true, Bool.or_eq_true, decide_eq_true_eq, beq_iff_eq] at h
  omega

theorem utf8_err_none_bytes : ∀ bs : List Nat, (Utf8.fromUtf8 bs).err = none → Bytes bs := by
  intro bs
  fun_induction Utf8.fromUtf8 bs
  all_goals intro h
  all_goals try (simp [Utf8.Res.stop] at h; done)
  case case1 => exact Bytes.nil
  case case2 b rest hb ih => exact Bytes.cons (by omega) (ih h)
  case case4 b0 _ h0 b1 rest h1 ih =>
    simp only [Bool.and_eq_true, decide_eq_true_eq] at h0
    exact Bytes.cons (by omega) (Bytes.cons (isCont_lt h1) (ih h))
  case case8 b0 _ _ h0 b1 h1 b2 rest h2 ih =>
    simp only [Bool.and_eq_true, decide_eq_true_eq] at h0
    exact Bytes.cons (by omega) (Bytes.cons (ok3_lt h1) (Bytes.cons (isCont_lt h2) (ih h)))
  case case14 b0 _ _ _ h0 b1 h1 b2 h2 b3 rest h3 ih =>
    simp only [Bool.and_eq_true, decide_eq_true_eq] at h0
    exact Bytes.cons (by omega) (Bytes.cons (ok4_lt h1) (Bytes.cons (isCont_lt h2) (Bytes.cons (isCont_lt h3) (ih h))))


/-! ### simp set -/

theorem bytes_nil : Bytes [] ↔ True := ⟨fun _ => trivial, fun _ => Bytes.nil⟩

theorem bytes_cons {b : Nat} {l : List Nat} : Bytes (b :: l) ↔ b < 256 ∧ Bytes l :=
  ⟨fun h => ⟨h b (List.mem_cons_self ..), fun x hx => h x (List.mem_cons_of_mem _ hx)⟩,
   fun h => Bytes.cons h.1 h.2⟩

theorem bytes_append {l₁ l₂ : List Nat} : Bytes (l₁ ++ l₂) ↔ Bytes l₁ ∧ Bytes l₂ :=
  ⟨fun h => ⟨fun x hx => h x (List.mem_append_left _ hx), fun x hx => h x (List.mem_append_right _ hx)⟩,
   fun h => Bytes.append h.1 h.2⟩

theorem bytes_replicate {n b : Nat} (hb : b < 256) : Bytes (List.replicate n b) := by
  intro x hx
  rw [(List.mem_replicate.mp hx).2]; exact hb

theorem Bytes.take {l : List Nat} (h : Bytes l) (n : Nat) : Bytes (l.take n) :=
  fun x hx => h x (List.mem_of_mem_take hx)

/-! ### `Term` -/

theorem digitsAux_bytes : ∀ (fuel n : Nat) (acc : List Nat), Bytes acc → Bytes (Term.digitsAux fuel n acc)
  | 0, _, acc, h => by simpa [Term.digitsAux] using h
  | fuel + 1, n, acc, h => by
    unfold Term.digitsAux
    split
    · exact Bytes.cons (by omega) h
    · exact digitsAux_bytes fuel (n / 10) _ (Bytes.cons (by omega) h)

theorem itoa_bytes (n : Nat) : Bytes (Term.itoa n) := digitsAux_bytes _ _ _ Bytes.nil

theorem clearScreen_bytes : Bytes Term.clearScreen := by unfold Bytes; decide
theorem clearRowForward_bytes : Bytes Term.clearRowForward := by unfold Bytes; decide
theorem crlf_bytes : Bytes Term.crlf := by unfold Bytes; decide
theorem backspace_bytes : Bytes Term.backspace := by unfold Bytes; decide
theorem saveCursor_bytes : Bytes Term.saveCursor := by unfold Bytes; decide
theorem restoreCursor_bytes : Bytes Term.restoreCursor := by unfold Bytes; decide
theorem clearAttrs_bytes : Bytes Term.clearAttrs := by unfold Bytes; decide

theorem moveTo_bytes (p : Pos) : Bytes (Term.moveTo p) := by
  unfold Term.moveTo
  split
  · unfold Bytes; decide
  · simp only [bytes_append, bytes_cons, bytes_nil, itoa_bytes, Term.ESC, and_true]
    omega

theorem moveRight_bytes (n : Nat) : Bytes (Term.moveRight n) := by
  unfold Term.moveRight
  split
  · exact Bytes.nil
  · unfold Bytes; decide
  · simp only [bytes_append, bytes_cons, bytes_nil, itoa_bytes, Term.ESC, and_true]
    omega

theorem eraseChar_bytes (n : Nat) : Bytes (Term.eraseChar n) := by
  unfold Term.eraseChar
  split
  · exact Bytes.nil
  · unfold Bytes; decide
  · simp only [bytes_append, bytes_cons, bytes_nil, itoa_bytes, Term.ESC, and_true]
    omega

theorem hideCursor_bytes (b : Bool) : Bytes (Term.hideCursor b) := by
  cases b <;> (unfold Bytes; decide)

theorem moveFromTo_bytes (a b : Pos) : Bytes (Term.moveFromTo a b) := by
  unfold Term.moveFromTo
  split
  · exact crlf_bytes
  · split
    · exact moveRight_bytes _
    · split
      · exact moveTo_bytes _
      · exact Bytes.nil

theorem applicationKeypad_bytes (b : Bool) : Bytes (Term.applicationKeypad b) := by
  cases b <;> (unfold Bytes; decide)
theorem applicationCursor_bytes (b : Bool) : Bytes (Term.applicationCursor b) := by
  cases b <;> (unfold Bytes; decide)
theorem bracketedPaste_bytes (b : Bool) : Bytes (Term.bracketedPaste b) := by
  cases b <;> (unfold Bytes; decide)

theorem mouseProtocolMode_bytes (m p : MouseMode) : Bytes (Term.mouseProtocolMode m p) := by
  cases m <;> cases p <;> (unfold Bytes; decide)

theorem mouseProtocolEncoding_bytes (m p : MouseEnc) : Bytes (Term.mouseProtocolEncoding m p) := by
  cases m <;> cases p <;> (unfold Bytes; decide)

theorem joinParams_bytes : ∀ ps : List Nat, Bytes (Term.joinParams ps)
  | [] => by simpa [Term.joinParams] using Bytes.nil
  | [p] => by simpa [Term.joinParams] using itoa_bytes p
  | p :: q :: ps => by
    have ih := joinParams_bytes (q :: ps)
    rw [Term.joinParams]
    · simp only [bytes_append, bytes_cons, bytes_nil, itoa_bytes, ih, and_true, true_and]
      omega
    · intro h; cases h

theorem sgrWrite_bytes (a : Term.SgrAttrs) : Bytes a.write := by
  unfold Term.SgrAttrs.write
  split
  · exact Bytes.nil
  · simp only [bytes_append, bytes_cons, bytes_nil, joinParams_bytes, Term.ESC, and_true]
    omega

theorem writeEscapeCodeDiff_bytes (a b : Attrs) : Bytes (a.writeEscapeCodeDiff b) := by
  unfold Attrs.writeEscapeCodeDiff
  split
  · exact clearAttrs_bytes
  · exact sgrWrite_bytes _


/-! ### cells -/

/-- unconditional: the bytes `contents()` returns passed `from_utf8`, so they are bytes -/
theorem contentsBytes_bytes {c : Cell} {bs : List Nat} (e : c.contentsBytes = .ok bs) : Bytes bs := by
  unfold Cell.contentsBytes at e
  simp only at e
  split at e
  · rename_i hv
    simp only [pure_eq_ok, Except.ok.injEq] at e
    rw [← e]
    apply utf8_err_none_bytes
    simpa [Utf8.valid] using hv
  · exact absurd e (panic_ne_ok _ _)

/-- the same from the stored bytes being bytes (without appeal to UTF-8 validity) -/
theorem contentsBytes_bytes_of_all {c : Cell} {bs : List Nat} (hc : c.contents.all (· < 256) = true)
    (e : c.contentsBytes = .ok bs) : Bytes bs := by
  unfold Cell.contentsBytes at e
  simp only at e
  split at e
  · simp only [pure_eq_ok, Except.ok.injEq] at e
    rw [← e]
    intro b hb
    have := List.all_eq_true.mp hc b (List.mem_of_mem_take hb)
    simpa using this
  · exact absurd e (panic_ne_ok _ _)

theorem contentsBytes_bytes_of_cellOk {W : Nat → Option Nat} {c : Cell} {bs : List Nat}
    (hc : cellOk W c = true) (e : c.contentsBytes = .ok bs) : Bytes bs := by
  simp only [cellOk, Bool.and_eq_true] at hc
  exact contentsBytes_bytes_of_all hc.1.1.2 e

/-! ### rows: the formatted / diff cell loop -/

open Vt.C03 Vt.PosBound

theorem eraseMove_bytes (n row : Nat) (w : Bool) (st : Row.FmtSt) (pc : Nat) (a : Attrs)
    (h : Bytes st.out) : Bytes (Row.eraseMove n row w st pc a).out := by
  unfold Row.eraseMove
  simp only
  refine Bytes.append (Bytes.append h ?_) ?_
  · split
    · split
      · exact bytes_replicate (by omega)
      · exact Bytes.cons (by omega) backspace_bytes
    · exact moveFromTo_bytes _ _
  · split
    · exact writeEscapeCodeDiff_bytes _ _
    · exact Bytes.nil


theorem ite_bytes {q : Prop} [Decidable q] {a b : List Nat} (ha : Bytes a) (hb : Bytes b) :
    Bytes (if q then a else b) := by
  split <;> assumption

theorem ite_out_bytes {q : Prop} [Decidable q] {a b : Row.FmtSt} (ha : Bytes a.out) (hb : Bytes b.out) :
    Bytes (if q then a else b).out := by
  split <;> assumption

theorem flush_bytes (n row : Nat) (w : Bool) (st : Row.FmtSt) (col : Nat) (c : Cell)
    (h : Bytes st.out) {st1 : Row.FmtSt} (e : C03.flush n row w st col c = .ok st1) : Bytes st1.out := by
  unfold C03.flush at e
  cases he : st.erase with
  | none =>
    rw [he] at e
    simp only [pure_eq_ok, Except.ok.injEq] at e
    rw [← e]; exact h
  | some pa =>
    obtain ⟨pc, a⟩ := pa
    rw [he] at e
    simp only at e
    split at e
    · cases hs : subM 331 col pc with
      | error err => rw [hs] at e; simp at e
      | ok k =>
        rw [hs] at e
        simp only [ok_bind, pure_eq_ok, Except.ok.injEq] at e
        rw [← e]
        exact Bytes.append (eraseMove_bytes n row w st pc a h) (eraseChar_bytes _)
    · simp only [pure_eq_ok, Except.ok.injEq] at e
      rw [← e]; exact h

theorem emit_bytes (n row : Nat) (w : Bool) (st : Row.FmtSt) (col : Nat) (c : Cell) (d : Bool)
    (h : Bytes st.out) {st1 : Row.FmtSt} (e : C03.emit n row w st col c d = .ok st1) : Bytes st1.out := by
  unfold C03.emit at e
  simp only at e
  split at e
  · split at e
    · obtain ⟨bs, hb, e⟩ := bind_eq_ok.mp e
      simp only [pure_eq_ok, Except.ok.injEq] at e
      rw [← e]
      simp only
      refine Bytes.append ?_ (contentsBytes_bytes hb)
      have hX : ∀ (q : Prop) [Decidable q] (mv : List Nat) (p : Pos), Bytes mv →
          Bytes (if q then { st with out := st.out ++ mv, prevPos := p } else st).out := by
        intro q _ mv p hmv
        exact ite_out_bytes (Bytes.append h hmv) h
      apply ite_out_bytes
      · exact Bytes.append (hX _ _ _ (ite_bytes (moveFromTo_bytes _ _) Bytes.nil)) (writeEscapeCodeDiff_bytes _ _)
      · exact hX _ _ _ (ite_bytes (moveFromTo_bytes _ _) Bytes.nil)
    · split at e
      · simp only [pure_eq_ok, Except.ok.injEq] at e
        rw [← e]; exact h
      · simp only [pure_eq_ok, Except.ok.injEq] at e
        rw [← e]; exact h
  · simp only [pure_eq_ok, Except.ok.injEq] at e
    rw [← e]; exact h

theorem fmtCellStep_bytes (n row : Nat) (w : Bool) (st : Row.FmtSt) (col : Nat) (c : Cell) (d : Bool)
    (h : Bytes st.out) {st1 : Row.FmtSt} (e : Row.fmtCellStep n row w st col c d = .ok st1) :
    Bytes st1.out := by
  rw [C03.fmtCellStep_eq] at e
  obtain ⟨s2, hf, e⟩ := bind_eq_ok.mp e
  exact emit_bytes n row w s2 col c d (flush_bytes n row w st col c h hf) e

theorem fmtStep_bytes (n row : Nat) (w : Bool) (st : Row.FmtSt) (p : Nat × Cell)
    (h : Bytes st.out) {st1 : Row.FmtSt} (e : Row.fmtStep n row w st p = .ok st1) : Bytes st1.out := by
  obtain ⟨col, c⟩ := p
  unfold Row.fmtStep at e
  simp only at e
  split at e
  · simp only [pure_eq_ok, Except.ok.injEq] at e
    rw [← e]; exact h
  · refine fmtCellStep_bytes n row w _ col c _ ?_ e
    exact h

theorem diffStep_bytes (n row : Nat) (w : Bool) (st : Row.FmtSt) (p : Nat × (Cell × Cell))
    (h : Bytes st.out) {st1 : Row.FmtSt} (e : Row.diffStep n row w st p = .ok st1) : Bytes st1.out := by
  obtain ⟨col, c, pc⟩ := p
  unfold Row.diffStep at e
  simp only at e
  split at e
  · simp only [pure_eq_ok, Except.ok.injEq] at e
    rw [← e]; exact h
  · refine fmtCellStep_bytes n row w _ col c _ ?_ e
    exact h

theorem fmtFinish_bytes (n row : Nat) (w : Bool) (st : Row.FmtSt) (h : Bytes st.out) :
    Bytes (Row.fmtFinish n row w st).out := by
  unfold Row.fmtFinish
  split
  · exact Bytes.append (eraseMove_bytes n row w st _ _ h) clearRowForward_bytes
  · exact h

theorem ite_fst_bytes {α} {q : Prop} [Decidable q] {a b : List Nat × α} (ha : Bytes a.1) (hb : Bytes b.1) :
    Bytes (if q then a else b).1 := by
  split <;> assumption

theorem fmt_tail_bytes (r : Row) (start width row : Nat) (w : Bool) (st0 : Row.FmtSt) (h0 : Bytes st0.out)
    {res : List Nat × Pos × Attrs}
    (e : (do
        let st ← (Row.window r.cells start width).foldlM (Row.fmtStep r.cols row w) st0
        let st := Row.fmtFinish r.cols row w st
        pure (st.out, st.prevPos, st.prevAttrs) : M (List Nat × Pos × Attrs)) = .ok res) : Bytes res.1 := by
  obtain ⟨st, hf, e⟩ := bind_eq_ok.mp e
  simp only [pure_eq_ok, Except.ok.injEq] at e
  rw [← e]
  apply fmtFinish_bytes
  exact foldlM_ok_inv _ (fun s => Bytes s.out) _ st0 st
    (fun s x s1 _ hs hx => fmtStep_bytes _ _ _ s x hs hx) h0 hf

/-- **`Row::write_contents_formatted`** (any window, any arguments) writes bytes -/
theorem row_formatted_bytes (r : Row) (start width row : Nat) (w : Bool) (pp : Option Pos) (pa : Option Attrs)
    {res : List Nat × Pos × Attrs}
    (e : r.writeContentsFormatted start width row w pp pa = .ok res) : Bytes res.1 := by
  have hst0 : ∀ (q : Prop) [Decidable q] (p : Pos) (a : Attrs) (x : Pos),
      Bytes (if q then
        ({ prevWasWide := false, prevPos := x,
           prevAttrs := (if (a != Cell.new.attrs) = true then (Cell.new.attrs.writeEscapeCodeDiff a, Cell.new.attrs)
              else ([], a)).2,
           erase := none,
           out := (if (a != Cell.new.attrs) = true then (Cell.new.attrs.writeEscapeCodeDiff a, Cell.new.attrs)
              else ([], a)).1 ++ [32] ++ Term.backspace ++ Term.eraseChar 1 } : Row.FmtSt)
        else { prevWasWide := false, prevPos := p, prevAttrs := a, erase := none, out := [] }).out := by
    intro q _ p a x
    refine ite_out_bytes ?_ Bytes.nil
    exact Bytes.append (Bytes.append (Bytes.append (ite_fst_bytes (writeEscapeCodeDiff_bytes _ _) Bytes.nil)
      (Bytes.cons (by omega) Bytes.nil)) backspace_bytes) (eraseChar_bytes 1)
  unfold Row.writeContentsFormatted at e
  cases pp with
  | some p =>
    simp only [pure_bind', ok_bind] at e
    exact fmt_tail_bytes r start width row w _ (hst0 _ _ _ _) e
  | none =>
    simp only at e
    split at e
    · obtain ⟨r1, _, e⟩ := bind_eq_ok.mp e
      simp only [pure_bind', ok_bind] at e
      exact fmt_tail_bytes r start width row _ _ (hst0 _ _ _ _) e
    · simp only [pure_bind', ok_bind] at e
      exact fmt_tail_bytes r start width row w _ (hst0 _ _ _ _) e


theorem diffStart_bytes (r prev : Row) (start row : Nat) (w pw : Bool) (pp : Pos) (pa : Attrs)
    {st0 : Row.FmtSt} (e : Row.diffStart r prev start row w pw pp pa = .ok st0) : Bytes st0.out := by
  unfold Row.diffStart at e
  cases e1 : r.cells[start]? with
  | none =>
    rw [e1] at e
    simp only [pure_eq_ok, Except.ok.injEq] at e
    rw [← e]; exact Bytes.nil
  | some fc =>
    cases e2 : prev.cells[start]? with
    | none =>
      rw [e1, e2] at e
      simp only [pure_eq_ok, Except.ok.injEq] at e
      rw [← e]; exact Bytes.nil
    | some pc =>
      rw [e1, e2] at e
      simp only at e
      by_cases hcnd : (w && !pw && fc.eq pc && pp.row + 1 == row
          && decide (pp.col ≥ r.cols - (if pc.isWide then 1 else 0))) = true
      · simp only [hcnd, ↓reduceIte] at e
        obtain ⟨cc, hcc, e⟩ := bind_eq_ok.mp e
        simp only [pure_eq_ok, Except.ok.injEq] at e
        rw [← e]
        have hcc := contentsBytes_bytes hcc
        refine Bytes.append (Bytes.append (Bytes.append (Bytes.append
          (ite_fst_bytes (writeEscapeCodeDiff_bytes _ _) Bytes.nil) ?_) backspace_bytes)
          (ite_bytes backspace_bytes Bytes.nil)) (ite_bytes (eraseChar_bytes 1) Bytes.nil)
        exact ite_fst_bytes (Bytes.cons (by omega) Bytes.nil) hcc
      · simp only [hcnd, Bool.false_eq_true, ↓reduceIte, pure_eq_ok, Except.ok.injEq] at e
        rw [← e]; exact Bytes.nil


theorem diffEnd_bytes (r prev : Row) (row : Nat) (st : Row.FmtSt) (h : Bytes st.out)
    {res : List Nat × Pos × Attrs} (e : Row.diffEnd r prev row st = .ok res) : Bytes res.1 := by
  unfold Row.diffEnd at e
  by_cases hc : ((!r.wrapped && prev.wrapped) || (!prev.wrapped && r.wrapped)) = true
  · simp only [hc, ↓reduceIte] at e
    obtain ⟨c1, _, e⟩ := bind_eq_ok.mp e
    obtain ⟨lastCell, _, e⟩ := bind_eq_ok.mp e
    have hout : ∀ endPos : Pos, Bytes (if (!r.wrapped) = true then
        st.out ++ Term.moveFromTo st.prevPos endPos ++ Term.eraseChar 1
        else st.out ++ Term.moveFromTo st.prevPos endPos) := fun endPos =>
      ite_bytes (Bytes.append (Bytes.append h (moveFromTo_bytes _ _)) (eraseChar_bytes 1))
        (Bytes.append h (moveFromTo_bytes _ _))
    by_cases hw : lastCell.isWideContinuation = true
    case' pos =>
      simp only [hw, ↓reduceIte] at e
      obtain ⟨c2, _, e⟩ := bind_eq_ok.mp e
    case' neg =>
      simp only [hw, Bool.false_eq_true, ↓reduceIte] at e
    all_goals
      simp only [pure_bind'] at e
      obtain ⟨endCell, _, e⟩ := bind_eq_ok.mp e
      by_cases hh : endCell.hasContents = true
      · simp only [hh, ↓reduceIte] at e
        obtain ⟨bs, hb, e⟩ := bind_eq_ok.mp e
        simp only [pure_eq_ok, Except.ok.injEq] at e
        rw [← e]
        exact Bytes.append (Bytes.append (hout _) (ite_fst_bytes (writeEscapeCodeDiff_bytes _ _) Bytes.nil))
          (contentsBytes_bytes hb)
      · simp only [hh, Bool.false_eq_true, ↓reduceIte, pure_eq_ok, Except.ok.injEq] at e
        rw [← e]
        exact hout _
  · simp only [hc, Bool.false_eq_true, ↓reduceIte, pure_eq_ok, Except.ok.injEq] at e
    rw [← e]; exact h

/-- **`Row::write_contents_diff`** (any window, any arguments, any previous row) writes bytes -/
theorem row_diff_bytes (r prev : Row) (start width row : Nat) (w pw : Bool) (pp : Pos) (pa : Attrs)
    {res : List Nat × Pos × Attrs}
    (e : r.writeContentsDiff prev start width row w pw pp pa = .ok res) : Bytes res.1 := by
  unfold Row.writeContentsDiff at e
  obtain ⟨st0, h0, e⟩ := bind_eq_ok.mp e
  obtain ⟨st, hf, e⟩ := bind_eq_ok.mp e
  refine diffEnd_bytes r prev row _ (fmtFinish_bytes _ _ _ _ ?_) e
  exact foldlM_ok_inv _ (fun s => Bytes s.out) _ st0 st
    (fun s x s1 _ hs hx => diffStep_bytes _ _ _ s x hs hx) (diffStart_bytes _ _ _ _ _ _ _ _ h0) hf


/-! ### grids -/

theorem moveOpt_bytes (pp : Option Pos) (p : Pos) : Bytes (Grid.moveOpt pp p) := by
  unfold Grid.moveOpt
  split
  · exact moveFromTo_bytes _ _
  · exact moveTo_bytes _

theorem redraw_bytes {cell : Cell} {pa : Attrs} {rd : List Nat}
    (e : (do
      let bs ← cell.contentsBytes
      pure (cell.attrs.writeEscapeCodeDiff pa ++ bs ++ pa.writeEscapeCodeDiff cell.attrs) : M (List Nat)) = .ok rd) :
    Bytes rd := by
  obtain ⟨bs, hb, e⟩ := bind_eq_ok.mp e
  simp only [pure_eq_ok, Except.ok.injEq] at e
  rw [← e]
  exact Bytes.append (Bytes.append (writeEscapeCodeDiff_bytes _ _) (contentsBytes_bytes hb))
    (writeEscapeCodeDiff_bytes _ _)

theorem cursorSearch_bytes (g : Grid) (pp : Option Pos) (pa : Attrs) :
    ∀ (is : List Nat) {out : List Nat}, g.cursorSearch pp pa is = .ok (some out) → Bytes out
  | [], out, e => by
    simp [Grid.cursorSearch] at e
  | i :: is, out, e => by
    simp only [Grid.cursorSearch] at e
    obtain ⟨pos, _, e⟩ := bind_eq_ok.mp e
    obtain ⟨cell, _, e⟩ := bind_eq_ok.mp e
    by_cases hh : cell.hasContents = true
    · simp only [hh, ↓reduceIte] at e
      have hrep : Bytes (List.replicate (g.pos.row - i) 10) := bytes_replicate (by omega)
      cases pp with
      | some q =>
        simp only at e
        split at e
        · obtain ⟨rd, hrd, e⟩ := bind_eq_ok.mp e
          simp only [pure_bind', ok_bind, pure_eq_ok, Except.ok.injEq, Option.some.injEq] at e
          rw [← e]
          exact Bytes.append (Bytes.append (moveFromTo_bytes _ _) (redraw_bytes hrd)) hrep
        · simp only [pure_bind', ok_bind, pure_eq_ok, Except.ok.injEq, Option.some.injEq] at e
          rw [← e]
          exact Bytes.append Bytes.nil hrep
      | none =>
        simp only at e
        obtain ⟨rd, hrd, e⟩ := bind_eq_ok.mp e
        simp only [pure_bind', ok_bind, pure_eq_ok, Except.ok.injEq, Option.some.injEq] at e
        rw [← e]
        exact Bytes.append (Bytes.append (moveTo_bytes _) (redraw_bytes hrd)) hrep
    · simp only [hh, Bool.false_eq_true, ↓reduceIte] at e
      exact cursorSearch_bytes g pp pa is e


/-- **`Grid::write_cursor_position_formatted`** writes bytes -/
theorem cursor_bytes (g : Grid) (pp : Option Pos) (pa : Option Attrs) {bs : List Nat}
    (e : g.writeCursorPositionFormatted pp pa = .ok bs) : Bytes bs := by
  unfold Grid.writeCursorPositionFormatted at e
  simp only at e
  split at e
  · obtain ⟨pos, _, e⟩ := bind_eq_ok.mp e
    obtain ⟨cell, _, e⟩ := bind_eq_ok.mp e
    by_cases hh : cell.hasContents = true
    · simp only [hh, ↓reduceIte] at e
      obtain ⟨cb, hb, e⟩ := bind_eq_ok.mp e
      simp only [pure_eq_ok, Except.ok.injEq] at e
      rw [← e]
      exact Bytes.append (Bytes.append (Bytes.append (moveOpt_bytes _ _) (writeEscapeCodeDiff_bytes _ _))
        (contentsBytes_bytes hb)) (writeEscapeCodeDiff_bytes _ _)
    · simp only [hh, Bool.false_eq_true, ↓reduceIte] at e
      obtain ⟨found, hf, e⟩ := bind_eq_ok.mp e
      cases found with
      | some out =>
        simp only [pure_eq_ok, Except.ok.injEq] at e
        rw [← e]
        exact cursorSearch_bytes g pp _ _ hf
      | none =>
        simp only at e
        obtain ⟨c1, _, e⟩ := bind_eq_ok.mp e
        obtain ⟨endCell, _, e⟩ := bind_eq_ok.mp e
        simp only [pure_eq_ok, Except.ok.injEq] at e
        rw [← e]
        simp only [bytes_append, bytes_cons, bytes_nil, moveOpt_bytes, writeEscapeCodeDiff_bytes,
          saveCursor_bytes, backspace_bytes, eraseChar_bytes, restoreCursor_bytes, and_true, true_and]
        omega
  · simp only [pure_eq_ok, Except.ok.injEq] at e
    rw [← e]
    exact moveOpt_bytes _ _


theorem fmtRowsLoop_bytes (cols : Nat) : ∀ (rs : List Row) (i : Nat) (w : Bool) (pp : Pos) (pa : Attrs)
    (out : List Nat), Bytes out →
    ∀ {res : List Nat × Pos × Attrs}, Grid.fmtRowsLoop cols rs i w pp pa out = .ok res → Bytes res.1
  | [], i, w, pp, pa, out, h, res, e => by
    simp only [Grid.fmtRowsLoop, pure_eq_ok, Except.ok.injEq] at e
    rw [← e]; exact h
  | r :: rs, i, w, pp, pa, out, h, res, e => by
    simp only [Grid.fmtRowsLoop] at e
    obtain ⟨⟨bs, np, na⟩, hr, e⟩ := bind_eq_ok.mp e
    exact fmtRowsLoop_bytes cols rs (i + 1) r.wrapped np na _
      (Bytes.append h (row_formatted_bytes r 0 cols i w (some pp) (some pa) hr)) e

theorem diffRowsLoop_bytes (cols : Nat) : ∀ (rs : List (Row × Row)) (i : Nat) (w pw : Bool) (pp : Pos) (pa : Attrs)
    (out : List Nat), Bytes out →
    ∀ {res : List Nat × Pos × Attrs}, Grid.diffRowsLoop cols rs i w pw pp pa out = .ok res → Bytes res.1
  | [], i, w, pw, pp, pa, out, h, res, e => by
    simp only [Grid.diffRowsLoop, pure_eq_ok, Except.ok.injEq] at e
    rw [← e]; exact h
  | (r, pr) :: rs, i, w, pw, pp, pa, out, h, res, e => by
    simp only [Grid.diffRowsLoop] at e
    obtain ⟨⟨bs, np, na⟩, hr, e⟩ := bind_eq_ok.mp e
    exact diffRowsLoop_bytes cols rs (i + 1) r.wrapped pr.wrapped np na _
      (Bytes.append h (row_diff_bytes r pr 0 cols i w pw pp pa hr)) e

/-- **`Grid::write_contents_formatted`** writes bytes -/
theorem grid_formatted_bytes (g : Grid) {res : List Nat × Attrs} (e : g.writeContentsFormatted = .ok res) :
    Bytes res.1 := by
  unfold Grid.writeContentsFormatted at e
  obtain ⟨rs, _, e⟩ := bind_eq_ok.mp e
  obtain ⟨⟨out, pp, pa⟩, hl, e⟩ := bind_eq_ok.mp e
  obtain ⟨cur, hc, e⟩ := bind_eq_ok.mp e
  simp only [pure_eq_ok, Except.ok.injEq] at e
  rw [← e]
  exact Bytes.append
    (fmtRowsLoop_bytes _ rs 0 false ⟨0, 0⟩ Attrs.default _ (Bytes.append clearAttrs_bytes clearScreen_bytes) hl)
    (cursor_bytes g _ _ hc)

/-- **`Grid::write_contents_diff`** writes bytes -/
theorem grid_diff_bytes (g prev : Grid) (pa : Attrs) {res : List Nat × Attrs}
    (e : g.writeContentsDiff prev pa = .ok res) : Bytes res.1 := by
  unfold Grid.writeContentsDiff at e
  obtain ⟨rs, _, e⟩ := bind_eq_ok.mp e
  obtain ⟨prs, _, e⟩ := bind_eq_ok.mp e
  obtain ⟨⟨out, pp, pa'⟩, hl, e⟩ := bind_eq_ok.mp e
  obtain ⟨cur, hc, e⟩ := bind_eq_ok.mp e
  simp only [pure_eq_ok, Except.ok.injEq] at e
  rw [← e]
  exact Bytes.append (diffRowsLoop_bytes _ _ 0 false false prev.pos pa [] Bytes.nil hl) (cursor_bytes g _ _ hc)

/-! ### screens -/

theorem writeContentsFormatted_bytes (s : Screen) {bs : List Nat} (e : s.writeContentsFormatted = .ok bs) :
    Bytes bs := by
  unfold Screen.writeContentsFormatted at e
  obtain ⟨⟨gb, pa⟩, hg, e⟩ := bind_eq_ok.mp e
  simp only [pure_eq_ok, Except.ok.injEq] at e
  rw [← e]
  exact Bytes.append (Bytes.append (hideCursor_bytes _) (grid_formatted_bytes _ hg)) (writeEscapeCodeDiff_bytes _ _)

theorem contentsFormatted_bytes' (s : Screen) {bs : List Nat} (e : s.contentsFormatted = .ok bs) : Bytes bs :=
  writeContentsFormatted_bytes s e

theorem inputModeFormatted_bytes (s : Screen) : Bytes s.inputModeFormatted := by
  unfold Screen.inputModeFormatted Screen.writeInputModeFormatted
  simp only [bytes_append, applicationKeypad_bytes, applicationCursor_bytes, bracketedPaste_bytes,
    mouseProtocolMode_bytes, mouseProtocolEncoding_bytes, and_self]

theorem stateFormatted_bytes' (s : Screen) {bs : List Nat} (e : s.stateFormatted = .ok bs) : Bytes bs := by
  unfold Screen.stateFormatted at e
  obtain ⟨c, hc, e⟩ := bind_eq_ok.mp e
  simp only [pure_eq_ok, Except.ok.injEq] at e
  rw [← e]
  exact Bytes.append (writeContentsFormatted_bytes s hc) (inputModeFormatted_bytes s)

theorem writeContentsDiff_bytes (s p : Screen) {bs : List Nat} (e : s.writeContentsDiff p = .ok bs) :
    Bytes bs := by
  unfold Screen.writeContentsDiff at e
  simp only at e
  obtain ⟨⟨gb, pa⟩, hg, e⟩ := bind_eq_ok.mp e
  simp only [pure_eq_ok, Except.ok.injEq] at e
  rw [← e]
  exact Bytes.append (Bytes.append (ite_bytes (hideCursor_bytes _) Bytes.nil) (grid_diff_bytes _ _ _ hg))
    (writeEscapeCodeDiff_bytes _ _)

theorem contentsDiff_bytes' (s p : Screen) {bs : List Nat} (e : s.contentsDiff p = .ok bs) : Bytes bs :=
  writeContentsDiff_bytes s p e

theorem inputModeDiff_bytes (s p : Screen) : Bytes (s.inputModeDiff p) := by
  unfold Screen.inputModeDiff Screen.writeInputModeDiff
  exact Bytes.append (Bytes.append (Bytes.append (Bytes.append
    (ite_bytes (applicationKeypad_bytes _) Bytes.nil) (ite_bytes (applicationCursor_bytes _) Bytes.nil))
    (ite_bytes (bracketedPaste_bytes _) Bytes.nil)) (mouseProtocolMode_bytes _ _))
    (mouseProtocolEncoding_bytes _ _)

theorem stateDiff_bytes' (s p : Screen) {bs : List Nat} (e : s.stateDiff p = .ok bs) : Bytes bs := by
  unfold Screen.stateDiff at e
  obtain ⟨c, hc, e⟩ := bind_eq_ok.mp e
  simp only [pure_eq_ok, Except.ok.injEq] at e
  rw [← e]
  exact Bytes.append (writeContentsDiff_bytes s p hc) (inputModeDiff_bytes s p)

theorem attributesFormatted_bytes (s : Screen) : Bytes s.attributesFormatted :=
  Bytes.append clearAttrs_bytes (writeEscapeCodeDiff_bytes _ _)

theorem cursorStateFormatted_bytes' (s : Screen) {bs : List Nat} (e : s.cursorStateFormatted = .ok bs) :
    Bytes bs := by
  unfold Screen.cursorStateFormatted at e
  obtain ⟨c, hc, e⟩ := bind_eq_ok.mp e
  simp only [pure_eq_ok, Except.ok.injEq] at e
  rw [← e]
  exact Bytes.append (hideCursor_bytes _) (cursor_bytes _ _ _ hc)

theorem rowsFormattedLoop_bytes (fw : Bool) (start width : Nat) : ∀ (rs : List Row) (i : Nat) (w : Bool)
    {res : List (List Nat)}, Screen.rowsFormattedLoop fw start width rs i w = .ok res → ∀ bs ∈ res, Bytes bs
  | [], i, w, res, e => by
    simp only [Screen.rowsFormattedLoop, pure_eq_ok, Except.ok.injEq] at e
    rw [← e]; intro bs hbs; cases hbs
  | r :: rs, i, w, res, e => by
    simp only [Screen.rowsFormattedLoop] at e
    obtain ⟨⟨b, np, na⟩, hr, e⟩ := bind_eq_ok.mp e
    obtain ⟨rest, hrest, e⟩ := bind_eq_ok.mp e
    simp only [pure_eq_ok, Except.ok.injEq] at e
    rw [← e]
    intro bs hbs
    rcases List.mem_cons.mp hbs with rfl | hbs
    · exact row_formatted_bytes r start width i w none none hr
    · exact rowsFormattedLoop_bytes fw start width rs _ _ hrest bs hbs

theorem rowsFormatted_bytes' (s : Screen) (start width : Nat) {res : List (List Nat)}
    (e : s.rowsFormatted start width = .ok res) : ∀ bs ∈ res, Bytes bs := by
  unfold Screen.rowsFormatted at e
  obtain ⟨rs, _, e⟩ := bind_eq_ok.mp e
  exact rowsFormattedLoop_bytes _ start width rs 0 false e

theorem rowsDiffLoop_bytes (start width : Nat) : ∀ (rs : List (Row × Row)) (i : Nat)
    {res : List (List Nat)}, Screen.rowsDiffLoop start width rs i = .ok res → ∀ bs ∈ res, Bytes bs
  | [], i, res, e => by
    simp only [Screen.rowsDiffLoop, pure_eq_ok, Except.ok.injEq] at e
    rw [← e]; intro bs hbs; cases hbs
  | (r, pr) :: rs, i, res, e => by
    simp only [Screen.rowsDiffLoop] at e
    obtain ⟨⟨b, np, na⟩, hr, e⟩ := bind_eq_ok.mp e
    obtain ⟨rest, hrest, e⟩ := bind_eq_ok.mp e
    simp only [pure_eq_ok, Except.ok.injEq] at e
    rw [← e]
    intro bs hbs
    rcases List.mem_cons.mp hbs with rfl | hbs
    · exact row_diff_bytes r pr start width i false false ⟨i, start⟩ Attrs.default hr
    · exact rowsDiffLoop_bytes start width rs _ hrest bs hbs

theorem rowsDiff_bytes' (s p : Screen) (start width : Nat) {res : List (List Nat)}
    (e : s.rowsDiff p start width = .ok res) : ∀ bs ∈ res, Bytes bs := by
  unfold Screen.rowsDiff at e
  obtain ⟨rs, _, e⟩ := bind_eq_ok.mp e
  obtain ⟨prs, _, e⟩ := bind_eq_ok.mp e
  exact rowsDiffLoop_bytes start width _ 0 e


/-! ### the requested hypothesis forms

Everything above is unconditional (partial correctness: *if* the emitter returns `.ok bs` then `Bytes bs`),
because the only data-dependent bytes are `Cell.contentsBytes`, which has passed the `from_utf8` check.
The forms below restate the results under `cellOk` / `GridInv` / `Inv`; the hypotheses are not used. -/

variable {W : Nat → Option Nat}

theorem row_formatted_bytes_ok {r : Row} (_hr : ∀ c ∈ r.cells, cellOk W c = true) (start width row : Nat)
    (w : Bool) (pp : Option Pos) (pa : Option Attrs) {bs : List Nat} {np : Pos} {na : Attrs}
    (e : r.writeContentsFormatted start width row w pp pa = .ok (bs, np, na)) : Bytes bs :=
  row_formatted_bytes r start width row w pp pa e

theorem row_diff_bytes_ok {r prev : Row} (_hr : ∀ c ∈ r.cells, cellOk W c = true)
    (_hp : ∀ c ∈ prev.cells, cellOk W c = true) (start width row : Nat) (w pw : Bool) (pp : Pos) (pa : Attrs)
    {bs : List Nat} {np : Pos} {na : Attrs}
    (e : r.writeContentsDiff prev start width row w pw pp pa = .ok (bs, np, na)) : Bytes bs :=
  row_diff_bytes r prev start width row w pw pp pa e

theorem grid_cursor_bytes_inv {g : Grid} (_h : GridInv W g true) (pp : Option Pos) (pa : Option Attrs)
    {bs : List Nat} (e : g.writeCursorPositionFormatted pp pa = .ok bs) : Bytes bs :=
  cursor_bytes g pp pa e

theorem grid_formatted_bytes_inv {g : Grid} (_h : GridInv W g true) {bs : List Nat} {pa : Attrs}
    (e : g.writeContentsFormatted = .ok (bs, pa)) : Bytes bs :=
  grid_formatted_bytes g e

theorem grid_diff_bytes_inv {g prev : Grid} (_h : GridInv W g true) (_hp : GridInv W prev true) (a : Attrs)
    {bs : List Nat} {pa : Attrs} (e : g.writeContentsDiff prev a = .ok (bs, pa)) : Bytes bs :=
  grid_diff_bytes g prev a e

/-- **headline** `state_formatted()` returns bytes -/
theorem stateFormatted_bytes {S : Screen} {bs : List Nat} (_h : Inv W S) (e : S.stateFormatted = .ok bs) :
    Bytes bs := stateFormatted_bytes' S e

/-- **headline** `state_diff(prev)` returns bytes -/
theorem stateDiff_bytes {S P : Screen} {bs : List Nat} (_h : Inv W S) (_hp : Inv W P)
    (e : S.stateDiff P = .ok bs) : Bytes bs := stateDiff_bytes' S P e

theorem contentsFormatted_bytes {S : Screen} {bs : List Nat} (_h : Inv W S) (e : S.contentsFormatted = .ok bs) :
    Bytes bs := contentsFormatted_bytes' S e

theorem contentsDiff_bytes {S P : Screen} {bs : List Nat} (_h : Inv W S) (_hp : Inv W P)
    (e : S.contentsDiff P = .ok bs) : Bytes bs := contentsDiff_bytes' S P e

theorem cursorStateFormatted_bytes {S : Screen} {bs : List Nat} (_h : Inv W S)
    (e : S.cursorStateFormatted = .ok bs) : Bytes bs := cursorStateFormatted_bytes' S e

theorem rowsFormatted_bytes {S : Screen} (_h : Inv W S) (start width : Nat) {res : List (List Nat)}
    (e : S.rowsFormatted start width = .ok res) : ∀ bs ∈ res, Bytes bs := rowsFormatted_bytes' S start width e

theorem rowsDiff_bytes {S P : Screen} (_h : Inv W S) (_hp : Inv W P) (start width : Nat) {res : List (List Nat)}
    (e : S.rowsDiff P start width = .ok res) : ∀ bs ∈ res, Bytes bs := rowsDiff_bytes' S P start width e

/-! with the totality theorems of C03: on `Inv` screens the emitters return, and return bytes -/

theorem stateFormatted_total_bytes {S : Screen} (h : Inv W S) : ∃ bs, S.stateFormatted = .ok bs ∧ Bytes bs := by
  obtain ⟨bs, e⟩ := C03.state_formatted_total h
  exact ⟨bs, e, stateFormatted_bytes' S e⟩

theorem stateDiff_total_bytes {S P : Screen} (h : Inv W S) (hp : Inv W P) :
    ∃ bs, S.stateDiff P = .ok bs ∧ Bytes bs := by
  obtain ⟨bs, e⟩ := C03.state_diff_total h hp
  exact ⟨bs, e, stateDiff_bytes' S P e⟩

theorem contentsFormatted_total_bytes {S : Screen} (h : Inv W S) :
    ∃ bs, S.contentsFormatted = .ok bs ∧ Bytes bs := by
  obtain ⟨bs, e⟩ := C03.contents_formatted_total h
  exact ⟨bs, e, contentsFormatted_bytes' S e⟩

theorem contentsDiff_total_bytes {S P : Screen} (h : Inv W S) (hp : Inv W P) :
    ∃ bs, S.contentsDiff P = .ok bs ∧ Bytes bs := by
  obtain ⟨bs, e⟩ := C03.contents_diff_total h hp
  exact ⟨bs, e, contentsDiff_bytes' S P e⟩

end Vt.Bytes

/- `#print axioms` (run 2026-09-29), all six:  [propext, Classical.choice, Quot.sound]
#print axioms Vt.Bytes.stateFormatted_bytes
#print axioms Vt.Bytes.stateDiff_bytes
#print axioms Vt.Bytes.stateFormatted_bytes'
#print axioms Vt.Bytes.stateDiff_bytes'
#print axioms Vt.Bytes.stateFormatted_total_bytes
#print axioms Vt.Bytes.stateDiff_total_bytes
-/
