/-
  Vt.Props.C04write — C04, the `std::io::Write` clause beyond `write`: the provided methods `write_all` and
  `write_vectored` (the crate overrides neither), as the correspondence check drives them (ops `WA`, `WV`).
  The model (`Parser.writeAll`, `writeVectored`, `writeVectoredAll` in Vt/Model/Perform.lean) has the LOOPS of the
  provided methods / of the caller, advancing by the count `write` reports; that they come down to `process` calls is
  proved here from `write` reporting the whole buffer (`C04.write_eq_process`).

  * `writeAll_eq_process`   : `write_all(buf)` is one `process(buf)` (no call at all for an empty buffer).
  * `writeVectored_first`   : `write_vectored` hands exactly the first non-empty slice to `process` and reports its length.
  * `writeVectoredAll_eq`   : offering what is left again until all is taken is one `process` call per non-empty slice, in
                              order — so by `C04cut.process_chunks_cut` it equals `process` of the concatenation whenever
                              no slice boundary is a losing cut (finding F10) and no UTF-8 bytes are pending at the start.
-/
import Vt.Props.C04cut
namespace Vt.C04
open Vt

theorem write_ok {W : Nat → Option Nat} {cb : CbPolicy} {p p' : Parser} {bytes : List Nat}
    (h : p.process W cb bytes = .ok p') : p.write W cb bytes = .ok (p', bytes.length) := by
  simp [Parser.write, h, bind, Except.bind, pure, Except.pure]

theorem write_err {W : Nat → Option Nat} {cb : CbPolicy} {p : Parser} {bytes : List Nat} {e : Panic}
    (h : p.process W cb bytes = .error e) : p.write W cb bytes = .error e := by
  simp [Parser.write, h, bind, Except.bind]

theorem writeAll_eq_process (W : Nat → Option Nat) (cb : CbPolicy) (p : Parser) (bytes : List Nat) (hne : bytes ≠ []) :
    p.writeAll W cb bytes = p.process W cb bytes := by
  cases bytes with
  | nil => exact absurd rfl hne
  | cons b bs =>
    unfold Parser.writeAll
    simp only [List.length_cons, Parser.writeAllLoop, List.isEmpty_cons, Bool.false_eq_true, ↓reduceIte]
    cases h : p.process W cb (b :: bs) with
    | error e => simp [write_err h, bind, Except.bind]
    | ok p1 =>
      simp only [write_ok h, bind, Except.bind, List.length_cons]
      have : ((bs.length + 1 == 0) = false) := by simp
      simp only [this, Bool.false_eq_true, ↓reduceIte]
      have hd : (b :: bs).drop (bs.length + 1) = [] := by simp
      rw [hd]
      cases bs <;> simp [Parser.writeAllLoop, pure, Except.pure]

theorem writeAll_nil (W : Nat → Option Nat) (cb : CbPolicy) (p : Parser) : p.writeAll W cb [] = .ok p := rfl

theorem writeVectored_first (W : Nat → Option Nat) (cb : CbPolicy) (p : Parser) (s : List Nat) (rest : List (List Nat))
    (hs : s ≠ []) :
    p.writeVectored W cb (s :: rest) = (p.process W cb s >>= fun p' => pure (p', s.length)) := by
  unfold Parser.writeVectored
  have : (s :: rest).find? (fun s => !s.isEmpty) = some s := by
    cases s with
    | nil => exact absurd rfl hs
    | cons a as => simp [List.find?]
  rw [this]
  rfl

/-- leading empty slices do not matter to `write_vectored` -/
theorem writeVectored_skip (W : Nat → Option Nat) (cb : CbPolicy) (p : Parser) (rest : List (List Nat)) :
    p.writeVectored W cb ([] :: rest) = p.writeVectored W cb rest := by
  simp [Parser.writeVectored, List.find?]

theorem advanceSlices_nil_cons (rest : List (List Nat)) (n : Nat) :
    Parser.advanceSlices ([] :: rest) n = Parser.advanceSlices rest n := by
  simp [Parser.advanceSlices]

theorem all_empty_cons_nil (rest : List (List Nat)) :
    (([] : List Nat) :: rest).all (fun s => s.isEmpty) = rest.all (fun s => s.isEmpty) := by simp

/-- after a whole first slice has been taken, what is left has the same non-empty slices as the rest -/
theorem filter_advance_full (s : List Nat) (rest : List (List Nat)) :
    (Parser.advanceSlices (s :: rest) s.length).filter (fun t => !t.isEmpty) = rest.filter (fun t => !t.isEmpty) := by
  simp only [Parser.advanceSlices, Nat.lt_irrefl, ↓reduceIte, Nat.sub_self]
  induction rest with
  | nil => rfl
  | cons t ts ih =>
    cases t with
    | nil => simpa [Parser.advanceSlices] using ih
    | cons a as => simp [Parser.advanceSlices]

theorem sum_advance_full (s : List Nat) (rest : List (List Nat)) :
    ((Parser.advanceSlices (s :: rest) s.length).map List.length).sum = (rest.map List.length).sum := by
  simp only [Parser.advanceSlices, Nat.lt_irrefl, ↓reduceIte, Nat.sub_self]
  induction rest with
  | nil => rfl
  | cons t ts ih =>
    cases t with
    | nil => simpa [Parser.advanceSlices] using ih
    | cons a as => simp [Parser.advanceSlices]

/-- the loop, with enough fuel, is one `process` call per non-empty slice, in order -/
theorem writeVectoredAllLoop_eq (W : Nat → Option Nat) (cb : CbPolicy) : ∀ (fuel : Nat) (slices : List (List Nat)) (p : Parser),
    (slices.map List.length).sum < fuel →
    Parser.writeVectoredAllLoop W cb fuel p slices =
      (slices.filter (fun s => !s.isEmpty)).foldlM (fun p c => p.process W cb c) p
  | 0, _, _, h => absurd h (Nat.not_lt_zero _)
  | fuel + 1, [], p, _ => by simp [Parser.writeVectoredAllLoop, pure, Except.pure]
  | fuel + 1, [] :: rest, p, h => by
    have ih := writeVectoredAllLoop_eq W cb (fuel + 1) rest p (by simpa using h)
    simp only [Parser.writeVectoredAllLoop, all_empty_cons_nil, writeVectored_skip, advanceSlices_nil_cons,
      List.filter_cons, List.isEmpty_nil, Bool.not_true, Bool.false_eq_true, ↓reduceIte] at ih ⊢
    exact ih
  | fuel + 1, (a :: as) :: rest, p, h => by
    have hne : (a :: as) ≠ [] := by simp
    simp only [Parser.writeVectoredAllLoop, List.all_cons, List.isEmpty_cons, Bool.false_and, Bool.false_eq_true,
      ↓reduceIte, writeVectored_first W cb p (a :: as) rest hne, List.filter_cons, Bool.not_false, List.foldlM_cons]
    cases hp : p.process W cb (a :: as) with
    | error e => simp [bind, Except.bind]
    | ok p1 =>
      simp only [bind, Except.bind, pure, Except.pure, List.length_cons]
      have : ((as.length + 1 == 0) = false) := by simp
      simp only [this, Bool.false_eq_true, ↓reduceIte]
      have hlen : as.length + 1 = (a :: as).length := rfl
      rw [hlen]
      have hsum : ((Parser.advanceSlices ((a :: as) :: rest) (a :: as).length).map List.length).sum < fuel := by
        rw [sum_advance_full]
        simp only [List.map_cons, List.sum_cons, List.length_cons] at h
        omega
      rw [writeVectoredAllLoop_eq W cb fuel _ p1 hsum, filter_advance_full]

/-- one `process` call per non-empty slice, in order -/
theorem writeVectoredAll_eq (W : Nat → Option Nat) (cb : CbPolicy) (slices : List (List Nat)) (p : Parser) :
    p.writeVectoredAll W cb slices = (slices.filter (fun s => !s.isEmpty)).foldlM (fun p c => p.process W cb c) p :=
  writeVectoredAllLoop_eq W cb _ slices p (Nat.lt_succ_self _)

/-- hence, when no UTF-8 bytes are pending at the start and no slice boundary is a losing cut (F10), the vectored write
equals one `process` of everything -/
theorem writeVectoredAll_eq_process (W : Nat → Option Nat) (cb : CbPolicy) (slices : List (List Nat)) (p : Parser)
    (hc : p.vte.carry = [])
    (h : ∀ i (hi : i < (slices.filter (fun s => !s.isEmpty)).length),
      C04cut.WindowLoses (C04cut.runVte p.vte ((slices.filter (fun s => !s.isEmpty)).take i)).carry
        (slices.filter (fun s => !s.isEmpty))[i] = false) :
    p.writeVectoredAll W cb slices = p.process W cb (slices.filter (fun s => !s.isEmpty)).flatten := by
  rw [writeVectoredAll_eq]
  exact C04cut.process_chunks_cut W cb _ p hc h

end Vt.C04
