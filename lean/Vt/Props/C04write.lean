/-
  Vt.Props.C04write — C04, the `std::io::Write` clause beyond `write`: the provided methods `write_all` and
  `write_vectored` (the crate overrides neither), as the correspondence check drives them (ops `WA`, `WV`).

  * `writeAll_eq_process`   : `write_all(buf)` is `process(buf)` (no call at all for an empty buffer — which `process`
                              treats as a no-op when no UTF-8 bytes are pending: `C04.process_nil`).
  * `writeVectored_first`   : `write_vectored` hands exactly the first non-empty slice to `process` and reports its length.
  * `writeVectoredAll_eq`   : offering the remaining slices again until all are taken is one `process` call per non-empty
                              slice, in order — so by `C04b.process_chunks` / `C04cut.process_chunks_cut` it equals
                              `process` of the concatenation whenever no cut is a losing one (finding F10).
-/
import Vt.Props.C04cut
namespace Vt.C04
open Vt

theorem writeAll_eq_process (W : Nat → Option Nat) (cb : CbPolicy) (p : Parser) (bytes : List Nat) (hne : bytes ≠ []) :
    p.writeAll W cb bytes = p.process W cb bytes := by
  unfold Parser.writeAll Parser.write
  cases bytes with
  | nil => exact absurd rfl hne
  | cons b bs =>
    simp only [List.isEmpty_cons, Bool.false_eq_true, ↓reduceIte]
    cases h : p.process W cb (b :: bs) <;> simp [h, bind, Except.bind, pure, Except.pure]

theorem writeAll_nil (W : Nat → Option Nat) (cb : CbPolicy) (p : Parser) : p.writeAll W cb [] = .ok p := rfl

theorem writeVectored_first (W : Nat → Option Nat) (cb : CbPolicy) (p : Parser) (s : List Nat) (rest : List (List Nat))
    (hs : s ≠ []) :
    p.writeVectored W cb (s :: rest) = (p.process W cb s >>= fun p' => pure (p', s.length)) := by
  unfold Parser.writeVectored
  have : (s :: rest).find? (fun s => !s.isEmpty) = some s := by
    cases s with
    | nil => exact absurd rfl hs
    | cons a as => simp [List.find?]
  rw [this]
  rfl

/-- one `process` call per non-empty slice, in order -/
theorem writeVectoredAll_eq (W : Nat → Option Nat) (cb : CbPolicy) : ∀ (slices : List (List Nat)) (p : Parser),
    p.writeVectoredAll W cb slices = (slices.filter (fun s => !s.isEmpty)).foldlM (fun p c => p.process W cb c) p
  | [], p => rfl
  | s :: rest, p => by
    unfold Parser.writeVectoredAll
    by_cases hs : s.isEmpty = true
    · simp only [hs, ↓reduceIte, List.filter_cons, Bool.not_true, Bool.false_eq_true]
      exact writeVectoredAll_eq W cb rest p
    · have hne : s ≠ [] := by intro h; subst h; simp at hs
      simp only [hs, Bool.false_eq_true, ↓reduceIte, List.filter_cons, Bool.not_false, List.foldlM_cons]
      rw [writeVectored_first W cb p s rest hne]
      cases h : p.process W cb s with
      | error e => simp [bind, Except.bind]
      | ok p1 =>
        simp only [bind, Except.bind, pure, Except.pure]
        exact writeVectoredAll_eq W cb rest p1

/-- hence, when no slice boundary is a losing cut (F10), the vectored write equals one `process` of everything -/
theorem writeVectoredAll_eq_process (W : Nat → Option Nat) (cb : CbPolicy) (slices : List (List Nat)) (p : Parser)
    (hc : p.vte.carry = [])
    (h : ∀ i (hi : i < (slices.filter (fun s => !s.isEmpty)).length),
      C04cut.WindowLoses (C04cut.runVte p.vte ((slices.filter (fun s => !s.isEmpty)).take i)).carry
        (slices.filter (fun s => !s.isEmpty))[i] = false) :
    p.writeVectoredAll W cb slices = p.process W cb (slices.filter (fun s => !s.isEmpty)).flatten := by
  rw [writeVectoredAll_eq]
  exact C04cut.process_chunks_cut W cb _ p hc h

end Vt.C04
