/-
  Vt.Props.InvX2 — `cx` of every cell, and byte-sized colours of the pen and the saved pen, are an invariant
  of the whole screen: kept by every action `perform` handles, by `set_size`, `set_scrollback`, hence true
  of every reachable screen (`reachable_x`).
-/
import Vt.Props.InvX
namespace Vt.InvX
open Vt Vt.C13
set_option linter.unusedSimpArgs false
set_option linter.unusedVariables false

variable {W : Nat → Option Nat}

structure ScreenX (s : Screen) : Prop where
  pen : attrsOk s.attrs = true
  saved : attrsOk s.savedAttrs = true
  grid : GridX s.grid
  alt : GridX s.altGrid

theorem ScreenX.cur {s : Screen} (h : ScreenX s) : GridX s.cur := by
  unfold Screen.cur; split
  · exact h.alt
  · exact h.grid

theorem screenX_setCur {s : Screen} (h : ScreenX s) {g : Grid} (hg : GridX g) : ScreenX (s.setCur g) := by
  unfold Screen.setCur
  split
  · exact ⟨h.pen, h.saved, h.grid, hg⟩
  · exact ⟨h.pen, h.saved, hg, h.alt⟩

/-- a grid operation through `modifyGrid` -/
theorem screenX_modifyGrid {s s' : Screen} (h : ScreenX s) {k : Grid → M Grid}
    (hk : ∀ g', k s.cur = .ok g' → GridX g') (e : s.modifyGrid k = .ok s') : ScreenX s' := by
  obtain ⟨g', hg, rfl⟩ := modifyGrid_eq_ok_iff.mp e
  exact screenX_setCur h (hk g' hg)

/-- operations that leave the lines alone -/
theorem same_of_total {g g' : Grid} (h : GridX g) (hr : g'.rows = g.rows) (hs : g'.scrollback = g.scrollback) : GridX g' :=
  gridP_same h hr hs

theorem gridX_rowDecScroll {g g' : Grid} (h : GridX g) (n : Nat) (e : g.rowDecScroll n = .ok g') : GridX g' := by
  unfold Grid.rowDecScroll at e
  simp only at e
  have h1 := rowClampTop_rows ({ g with pos := { g.pos with row := g.pos.row - n } }) g.inScrollRegion
  exact gridP_scrollDown rx_pred (gridP_same (g := g) h h1.1 h1.2.1) _ e

theorem gridX_rowIncClamp {g g' : Grid} (h : GridX g) (n : Nat) (e : g.rowIncClamp n = .ok g') : GridX g' := by
  unfold Grid.rowIncClamp at e
  obtain ⟨q, hq, e⟩ := bind_eq_ok.mp e
  have := rowClampBottom_rows hq
  obtain ⟨q1, q2⟩ := q
  simp only [pure_eq_ok, Except.ok.injEq] at e
  rw [← e]
  exact gridP_same (g := g) h this.1 this.2.1

theorem gridX_colClampOf {g g0 g' : Grid} (h : GridX g) (h0 : g0.rows = g.rows ∧ g0.scrollback = g.scrollback)
    (e : g0.colClamp = .ok g') : GridX g' := by
  have := colClamp_rows e
  exact gridP_same h (by rw [this.1, h0.1]) (by rw [this.2, h0.2])

theorem gridX_setScrollRegion {g g' : Grid} (h : GridX g) (t b : Nat) (e : g.setScrollRegion t b = .ok g') : GridX g' := by
  unfold Grid.setScrollRegion at e
  obtain ⟨b1, _, e⟩ := bind_eq_ok.mp e
  simp only [pure_eq_ok, Except.ok.injEq] at e
  rw [← e]
  split <;> exact gridP_same h rfl rfl

theorem gridX_setOriginMode {g g' : Grid} (h : GridX g) (v : Bool) (e : g.setOriginMode v = .ok g') : GridX g' := by
  unfold Grid.setOriginMode at e
  have := setPos_rows e
  exact gridP_same h this.1 this.2

/-! ### `set_size`, clearing, allocation -/

/-- the record `set_size` builds before re-clamping the cursor -/
def resized (g : Grid) (sz : Size) (rows2 : List Row) (sb2 : Nat) : Grid :=
  { g with
    size := sz
    rows := rows2
    scrollBottom := sb2
    scrollTop := if sb2 < g.scrollTop then 0 else g.scrollTop }

theorem gridX_setSize {g g' : Grid} (h : GridX g) (sz : Size) (e : g.setSize sz = .ok g') : GridX g' := by
  have hr2 : ∀ r ∈ resizeList (List.map (fun (r : Row) => r.resize sz.cols Cell.new)
      (if (sz.cols != g.size.cols) = true then List.map (fun r => r.wrap false) g.rows else g.rows)) sz.rows (Row.new sz.cols), RX r := by
    intro r hr
    unfold resizeList at hr
    rcases List.mem_append.mp hr with hr | hr
    · have hr := List.mem_of_mem_take hr
      simp only [List.mem_map] at hr
      obtain ⟨r0, hr0, rfl⟩ := hr
      refine allX_resize ?_ _
      split at hr0
      · simp only [List.mem_map] at hr0
        obtain ⟨r1, hr1, rfl⟩ := hr0
        exact h.1 r1 hr1
      · exact h.1 r0 hr0
    · rw [(List.mem_replicate.mp hr).2]; exact allX_new _
  generalize hrows : resizeList (List.map (fun (r : Row) => r.resize sz.cols Cell.new)
      (if (sz.cols != g.size.cols) = true then List.map (fun r => r.wrap false) g.rows else g.rows)) sz.rows (Row.new sz.cols) = rows2 at hr2
  have tail : ∀ (sb2 : Nat), (do
      let (g2, _) ← ((resized g sz rows2 sb2).rowClampTop false).1.rowClampBottom false
      let g3 ← g2.colClamp
      let r1 ← subM 4091 sz.rows 1
      let c1 ← subM 4092 sz.cols 1
      pure { g3 with savedPos := ⟨min g3.savedPos.row r1, min g3.savedPos.col c1⟩ } : M Grid) = .ok g' → GridX g' := by
    intro sb2 e
    have hx1 : GridX (resized g sz rows2 sb2) := ⟨hr2, h.2⟩
    have h2 := rowClampTop_rows (resized g sz rows2 sb2) false
    obtain ⟨q, hq, e⟩ := bind_eq_ok.mp e
    have h3 := rowClampBottom_rows hq
    obtain ⟨q1, q2⟩ := q
    simp only at e h3
    obtain ⟨g4, h4, e⟩ := bind_eq_ok.mp e
    have h5 := colClamp_rows h4
    obtain ⟨r1, _, e⟩ := bind_eq_ok.mp e
    obtain ⟨c1, _, e⟩ := bind_eq_ok.mp e
    simp only [pure_eq_ok, Except.ok.injEq] at e
    rw [← e]
    exact gridP_same hx1 (by simp only; rw [h5.1, h3.1, h2.1]) (by simp only; rw [h5.2, h3.2.1, h2.2.1])
  unfold Grid.setSize at e
  simp only at e
  rw [hrows] at e
  obtain ⟨oldB, _, e⟩ := bind_eq_ok.mp e
  split at e
  · obtain ⟨sb1, _, e⟩ := bind_eq_ok.mp e
    split at e
    · obtain ⟨sb2, _, e⟩ := bind_eq_ok.mp e
      exact tail sb2 e
    · exact tail sb1 e
  · simp only [pure_bind'] at e
    split at e
    · obtain ⟨sb2, _, e⟩ := bind_eq_ok.mp e
      exact tail sb2 e
    · exact tail _ e

theorem gridX_clear {g g' : Grid} (h : GridX g) (e : g.clear = .ok g') : GridX g' := by
  unfold Grid.clear at e
  obtain ⟨b, _, e⟩ := bind_eq_ok.mp e
  simp only [pure_eq_ok, Except.ok.injEq] at e
  rw [← e]
  refine ⟨?_, h.2⟩
  intro r hr
  simp only [List.mem_map] at hr
  obtain ⟨r0, _, rfl⟩ := hr
  exact allX_clear attrsOk_default

theorem gridX_allocateRows {g : Grid} (h : GridX g) : GridX g.allocateRows := by
  unfold Grid.allocateRows
  split
  · refine ⟨?_, h.2⟩
    intro r hr
    rw [(List.mem_replicate.mp hr).2]; exact allX_new _
  · exact h

theorem gridX_new {sz : Size} {n : Nat} {g : Grid} (e : Grid.new sz n = .ok g) : GridX g := by
  unfold Grid.new at e
  obtain ⟨b, _, e⟩ := bind_eq_ok.mp e
  simp only [pure_eq_ok, Except.ok.injEq] at e
  rw [← e]
  exact ⟨fun r hr => by simp at hr, fun r hr => by simp at hr⟩

theorem screenX_new {sz : Size} {n : Nat} {s : Screen} (e : Screen.new sz n = .ok s) : ScreenX s := by
  unfold Screen.new at e
  obtain ⟨g, hg, e⟩ := bind_eq_ok.mp e
  obtain ⟨ag, hag, e⟩ := bind_eq_ok.mp e
  simp only [pure_eq_ok, Except.ok.injEq] at e
  rw [← e]
  exact ⟨attrsOk_default, attrsOk_default, gridX_allocateRows (gridX_new hg), gridX_new hag⟩

theorem screenX_setSize {s s' : Screen} (h : ScreenX s) (r c : Nat) (e : s.setSize r c = .ok s') : ScreenX s' := by
  unfold Screen.setSize at e
  obtain ⟨g, hg, e⟩ := bind_eq_ok.mp e
  obtain ⟨ag, hag, e⟩ := bind_eq_ok.mp e
  simp only [pure_eq_ok, Except.ok.injEq] at e
  rw [← e]
  exact ⟨h.pen, h.saved, gridX_setSize h.grid _ hg, gridX_setSize h.alt _ hag⟩

/-! ### screen-level operations -/

theorem screenX_congr {s s' : Screen} (h : ScreenX s) (h1 : s'.attrs = s.attrs) (h2 : s'.savedAttrs = s.savedAttrs)
    (h3 : s'.grid = s.grid) (h4 : s'.altGrid = s.altGrid) : ScreenX s' :=
  ⟨by rw [h1]; exact h.pen, by rw [h2]; exact h.saved, by rw [h3]; exact h.grid, by rw [h4]; exact h.alt⟩

theorem setCur_attrs' (s : Screen) (g : Grid) : (s.setCur g).attrs = s.attrs ∧ (s.setCur g).savedAttrs = s.savedAttrs := by
  unfold Screen.setCur; split <;> exact ⟨rfl, rfl⟩

theorem screenX_saveCursor {s s' : Screen} (h : ScreenX s) (e : s.saveCursor = .ok s') : ScreenX s' := by
  unfold Screen.saveCursor at e
  obtain ⟨s1, h1, e⟩ := bind_eq_ok.mp e
  simp only [pure_eq_ok, Except.ok.injEq] at e
  have hx1 : ScreenX s1 := screenX_modifyGrid h (fun g' hg => by
    simp only [pure_eq_ok, Except.ok.injEq] at hg
    rw [← hg]; exact gridP_same h.cur rfl rfl) h1
  rw [← e]
  exact ⟨hx1.pen, hx1.pen, hx1.grid, hx1.alt⟩

theorem screenX_restoreCursor {s s' : Screen} (h : ScreenX s) (e : s.restoreCursor = .ok s') : ScreenX s' := by
  unfold Screen.restoreCursor at e
  obtain ⟨s1, h1, e⟩ := bind_eq_ok.mp e
  simp only [pure_eq_ok, Except.ok.injEq] at e
  have hx1 : ScreenX s1 := screenX_modifyGrid h (fun g' hg => by
    simp only [pure_eq_ok, Except.ok.injEq] at hg
    rw [← hg]; exact gridP_same h.cur rfl rfl) h1
  rw [← e]
  exact ⟨hx1.saved, hx1.saved, hx1.grid, hx1.alt⟩

theorem screenX_enterAlt {s s' : Screen} (h : ScreenX s) (e : s.enterAlternateGrid = .ok s') : ScreenX s' := by
  unfold Screen.enterAlternateGrid at e
  obtain ⟨s1, h1, e⟩ := bind_eq_ok.mp e
  simp only [pure_eq_ok, Except.ok.injEq] at e
  have hx1 : ScreenX s1 := screenX_modifyGrid h (fun g' hg => by
    simp only [pure_eq_ok, Except.ok.injEq] at hg
    rw [← hg]; exact gridP_same h.cur rfl rfl) h1
  rw [← e]
  exact ⟨hx1.pen, hx1.saved, hx1.grid, gridX_allocateRows hx1.alt⟩

theorem screenX_decsetOne {s : Screen} (h : ScreenX s) (p : List Nat) {r : Option Screen}
    (e : s.decsetOne p = .ok r) : ∀ s', r = some s' → ScreenX s' := by
  intro s' hr
  subst hr
  unfold Screen.decsetOne at e
  split at e
  all_goals first
    | (simp only [pure_eq_ok, Except.ok.injEq, Option.some.injEq] at e; rw [← e]; exact screenX_congr h rfl rfl rfl rfl)
    | (simp at e; done)
    | skip
  · -- origin mode
    obtain ⟨s1, h1, e⟩ := bind_eq_ok.mp e
    simp only [pure_eq_ok, Except.ok.injEq, Option.some.injEq] at e
    rw [← e]
    exact screenX_modifyGrid h (fun g' hg => gridX_setOriginMode h.cur true hg) h1
  · -- 47
    obtain ⟨s1, h1, e⟩ := bind_eq_ok.mp e
    simp only [pure_eq_ok, Except.ok.injEq, Option.some.injEq] at e
    rw [← e]
    exact screenX_enterAlt h h1
  · -- 1049
    obtain ⟨s1, h1, e⟩ := bind_eq_ok.mp e
    obtain ⟨ag, h2, e⟩ := bind_eq_ok.mp e
    obtain ⟨s3, h3, e⟩ := bind_eq_ok.mp e
    simp only [pure_eq_ok, Except.ok.injEq, Option.some.injEq] at e
    rw [← e]
    have hx1 := screenX_saveCursor h h1
    exact screenX_enterAlt (s := { s1 with altGrid := ag }) ⟨hx1.pen, hx1.saved, hx1.grid, gridX_clear hx1.alt h2⟩ h3

theorem screenX_clearMouse {s : Screen} (h : ScreenX s) (m : MouseMode) : ScreenX (s.clearMouseMode m) := by
  unfold Screen.clearMouseMode; split
  · exact screenX_congr h rfl rfl rfl rfl
  · exact h

theorem screenX_clearEnc {s : Screen} (h : ScreenX s) (m : MouseEnc) : ScreenX (s.clearMouseEnc m) := by
  unfold Screen.clearMouseEnc; split
  · exact screenX_congr h rfl rfl rfl rfl
  · exact h

theorem screenX_decrstOne {s : Screen} (h : ScreenX s) (p : List Nat) {r : Option Screen}
    (e : s.decrstOne p = .ok r) : ∀ s', r = some s' → ScreenX s' := by
  intro s' hr
  subst hr
  unfold Screen.decrstOne at e
  split at e
  all_goals first
    | (simp only [pure_eq_ok, Except.ok.injEq, Option.some.injEq] at e; rw [← e]; exact screenX_congr h rfl rfl rfl rfl)
    | (simp only [pure_eq_ok, Except.ok.injEq, Option.some.injEq] at e; rw [← e]; exact screenX_clearMouse h _)
    | (simp only [pure_eq_ok, Except.ok.injEq, Option.some.injEq] at e; rw [← e]; exact screenX_clearEnc h _)
    | (simp at e; done)
    | skip
  · obtain ⟨s1, h1, e⟩ := bind_eq_ok.mp e
    simp only [pure_eq_ok, Except.ok.injEq, Option.some.injEq] at e
    rw [← e]
    exact screenX_modifyGrid h (fun g' hg => gridX_setOriginMode h.cur false hg) h1
  · obtain ⟨s1, h1, e⟩ := bind_eq_ok.mp e
    simp only [pure_eq_ok, Except.ok.injEq, Option.some.injEq] at e
    rw [← e]
    exact screenX_restoreCursor (s := s.exitAlternateGrid) (screenX_congr h rfl rfl rfl rfl) h1

theorem screenX_edMode {s : Screen} (h : ScreenX s) (m : Nat) {r : Option Screen}
    (e : s.edMode m = .ok r) : ∀ s', r = some s' → ScreenX s' := by
  intro s' hr
  subst hr
  unfold Screen.edMode at e
  split at e
  · obtain ⟨s1, h1, e⟩ := bind_eq_ok.mp e
    simp only [pure_eq_ok, Except.ok.injEq, Option.some.injEq] at e
    rw [← e]
    exact screenX_modifyGrid h (fun g' hg => gridX_eraseAllForward h.cur h.pen hg) h1
  · obtain ⟨s1, h1, e⟩ := bind_eq_ok.mp e
    simp only [pure_eq_ok, Except.ok.injEq, Option.some.injEq] at e
    rw [← e]
    exact screenX_modifyGrid h (fun g' hg => gridX_eraseAllBackward h.cur h.pen hg) h1
  · obtain ⟨s1, h1, e⟩ := bind_eq_ok.mp e
    simp only [pure_eq_ok, Except.ok.injEq, Option.some.injEq] at e
    rw [← e]
    exact screenX_modifyGrid h (fun g' hg => by
      simp only [pure_eq_ok, Except.ok.injEq] at hg
      rw [← hg]; exact gridX_eraseAll h.cur h.pen) h1
  · simp only [pure_eq_ok, Except.ok.injEq] at e; exact absurd e (by simp)

theorem screenX_elMode {s : Screen} (h : ScreenX s) (m : Nat) {r : Option Screen}
    (e : s.elMode m = .ok r) : ∀ s', r = some s' → ScreenX s' := by
  intro s' hr
  subst hr
  unfold Screen.elMode at e
  split at e
  · obtain ⟨s1, h1, e⟩ := bind_eq_ok.mp e
    simp only [pure_eq_ok, Except.ok.injEq, Option.some.injEq] at e
    rw [← e]
    exact screenX_modifyGrid h (fun g' hg => gridX_eraseRowForward h.cur h.pen hg) h1
  · obtain ⟨s1, h1, e⟩ := bind_eq_ok.mp e
    simp only [pure_eq_ok, Except.ok.injEq, Option.some.injEq] at e
    rw [← e]
    exact screenX_modifyGrid h (fun g' hg => gridX_eraseRowBackward h.cur h.pen hg) h1
  · obtain ⟨s1, h1, e⟩ := bind_eq_ok.mp e
    simp only [pure_eq_ok, Except.ok.injEq, Option.some.injEq] at e
    rw [← e]
    exact screenX_modifyGrid h (fun g' hg => gridX_eraseRow h.cur h.pen hg) h1
  · simp only [pure_eq_ok, Except.ok.injEq] at e; exact absurd e (by simp)

end Vt.InvX
