/-
  C01 — a full redraw reproduces the screen: the assembled theorem.

  `contents_formatted_reproduces` / `state_formatted_reproduces`: for every source screen `S` that
  satisfies `Inv`, `Inv⁺` and `emitInv` (every reachable screen; evaluated on every visited state by the
  checks), that is not scrolled back, and whose cursor is not at the pending-wrap position over an empty
  last cell (see `props.json` for the remaining cursor fix-up branches), and for every receiving parser that
  is ready, satisfies `Inv`, has the same size, the full screen as scroll region, origin mode off and is
  not scrolled back — a new parser, or one that has been fed other full redraws — processing the BYTES of
  `S.contents_formatted()` (resp. `S.state_formatted()`) through the vte and perform models leaves the
  receiver with the observable state of `S`: same cells, wrap flags, cursor, cursor visibility, pen
  (and input modes).
-/
import Vt.Props.GridDraw
import Vt.Props.C10b
import Vt.Props.C13
import Vt.Props.C02
namespace Vt.C01
open Vt Vt.Recv Vt.C19 Vt.C09 Vt.RowDraw Vt.GridDraw Vt.Tok Vt.C03
set_option linter.unusedSimpArgs false

variable {W : Nat → Option Nat} {cb : CbPolicy}

/-- `ESC [ m` -/
theorem step_clearAttrs : Step W cb Term.clearAttrs (fun r => pure { r with pen := Attrs.default }) := by
  intro p hr r' hf
  simp only [pure_eq_ok, Except.ok.injEq] at hf
  subst hf
  obtain ⟨p', e, w, r⟩ := process_clearAttrs W cb p hr
  refine ⟨p', e, ?_, r⟩
  rw [w]
  simp only [WS.modAttrs, withRS, rsOf, setCur_self]

/-- the grid after `ESC [ H ESC [ J` with the default pen: every line blank, cursor home -/
def clearedAll (g : Grid) : Grid :=
  { g with rows := g.rows.map (fun r => r.clear Attrs.default), pos := ⟨0, 0⟩ }

theorem view_rangeCell_in (lo hi : Nat) (a : Attrs) (j : Nat) (c : Cell) (h : lo ≤ j ∧ j < hi) :
    C07.rangeCell lo hi a j c = c.clear a := by
  simp [C07.rangeCell, h]

theorem set0_take1 {α} (l : List α) (h : 0 < l.length) (f : α → α) (X : α) :
    (l.take 1 ++ (l.drop 1).map f).set 0 X = X :: (l.drop 1).map f := by
  cases l with
  | nil => simp at h
  | cons x xs => simp

/-- ED 0 from home blanks everything: in terms of views and wrap flags the result is `clearedAll` -/
theorem clear_from_home {g : Grid} (hc : Canvas g) (hinv : ∀ r ∈ g.rows, rowOk W r = true) :
    ∃ g', (g.setPos ⟨0, 0⟩ >>= fun g1 => g1.eraseAllForward Attrs.default) = .ok g' ∧
      g'.size = g.size ∧ g'.pos = ⟨0, 0⟩ ∧ g'.scrollTop = g.scrollTop ∧ g'.scrollBottom = g.scrollBottom ∧
      g'.originMode = g.originMode ∧ g'.rows.length = g.rows.length ∧
      (∀ r ∈ g'.rows, BlankRow g.size.cols r) ∧ g'.scrollback = g.scrollback ∧
      g'.scrollbackOffset = g.scrollbackOffset := by
  rw [setPos_eq hc ⟨0, 0⟩ hc.rows_pos hc.cols_pos]
  simp only [ok_bind]
  have hlen : 0 < g.rows.length := by rw [hc.alloc]; exact hc.rows_pos
  have hr0 : (withPos g ⟨0, 0⟩).rows[(withPos g ⟨0, 0⟩).pos.row]? = some g.rows[0] := by
    simp [withPos, List.getElem?_eq_getElem hlen]
  have hok0 := hinv _ (List.getElem_mem hlen)
  have hcl : C07.CurLine W (withPos g ⟨0, 0⟩) g.rows[0] :=
    ⟨hr0, ((rowOk_iff W _).mp hok0).2, hc.width _ (List.getElem_mem hlen), Nat.zero_le _, hc.cols_pos, hc.cols_u16⟩
  rw [C07.ed0_eq hcl Attrs.default]
  have hrows : (C07.erasedGrid (C07.belowCleared (withPos g ⟨0, 0⟩) Attrs.default) g.rows[0]
        (withPos g ⟨0, 0⟩).pos.col (withPos g ⟨0, 0⟩).size.cols Attrs.default).rows =
      C07.erasedRow g.rows[0].cells g.rows[0].wrapped 0 g.size.cols Attrs.default ::
        (g.rows.drop 1).map (fun r => r.clear Attrs.default) := by
    simp only [C07.erasedGrid, C07.belowCleared, withPos, Nat.zero_add]
    exact set0_take1 g.rows hlen _ _
  refine ⟨_, rfl, rfl, rfl, rfl, rfl, rfl, ?_, ?_, rfl, rfl⟩
  · rw [hrows]; simp; omega
  · intro r hr
    rw [hrows] at hr
    rcases List.mem_cons.mp hr with rfl | hr
    · -- line 0: every cell in the erased range [0, cols)
      have hw0 := hc.width _ (List.getElem_mem hlen)
      refine ⟨?_, ?_, ?_⟩
      · simp only [C07.erasedRow, C07.flagCleared, hw0, beq_self_eq_true, Bool.true_or, Bool.and_true,
          decide_eq_true_eq]
        have := hc.cols_pos
        simp [this]
        intro h; omega
      · simp only [C07.erasedRow, C07.eraseRange]
        rw [← hw0]
        apply List.ext_getElem?
        intro k
        simp only [List.getElem?_map, List.getElem?_mapIdx, List.getElem?_replicate]
        by_cases hk : k < g.rows[0].cells.length
        · simp only [List.getElem?_eq_getElem hk, Option.map_some, hk, ↓reduceIte, Option.some.injEq]
          rw [view_rangeCell_in 0 _ _ k _ ⟨Nat.zero_le _, hk⟩, view_clear]; rfl
        · simp [List.getElem?_eq_none (Nat.le_of_not_lt hk), hk]
      · intro c hc'
        simp only [C07.erasedRow, C07.eraseRange, List.mem_mapIdx] at hc'
        obtain ⟨k, hk, rfl⟩ := hc'
        have h22 := (cellOk_fields W (((rowOk_iff W _).mp hok0).2.cells_ok _ (List.getElem_mem hk))).1
        unfold C07.rangeCell
        split
        · exact h22
        · split
          · exact h22
          · split
            · exact h22
            · exact h22
    · obtain ⟨r0, hr0', rfl⟩ := List.mem_map.mp hr
      have hr0m : r0 ∈ g.rows := List.mem_of_mem_drop hr0'
      refine ⟨rfl, ?_, ?_⟩
      · simp only [Row.clear, List.map_map]
        rw [← hc.width r0 hr0m]
        apply List.ext_getElem?
        intro k
        simp only [List.getElem?_map, List.getElem?_replicate]
        by_cases hk : k < r0.cells.length
        · simp [List.getElem?_eq_getElem hk, hk, view_clear, blankV]
        · simp [List.getElem?_eq_none (Nat.le_of_not_lt hk), hk]
      · intro c hc'
        simp only [Row.clear, List.mem_map] at hc'
        obtain ⟨c0, hc0, rfl⟩ := hc'
        have := ((rowOk_iff W r0).mp (hinv r0 hr0m)).2.cells_ok c0 hc0
        exact (cellOk_fields W this).1

/-- what is assumed of the receiving parser: ready for a new sequence, its active grid a canvas of
well-formed rows (a new parser; or any parser that has only been fed full redraws) -/
structure RecvOk (W : Nat → Option Nat) (q : Parser) : Prop where
  ready : Ready q
  canvas : Canvas (rsOf q.ws).g
  rows_ok : ∀ r ∈ (rsOf q.ws).g.rows, rowOk W r = true

/-- `ESC [ m  ESC [ H  ESC [ J`: pen reset, every line blank, cursor home — the state the loop starts from -/
theorem prefix_drawn {q : Parser} (hq : RecvOk W q) (srows : List Row) (hn : srows.length = (rsOf q.ws).g.size.rows) :
    ∃ R1, Emitted W cb q (Term.clearAttrs ++ Term.clearScreen) R1 ∧ R1.pen = Attrs.default ∧
      RowsInv srows (rsOf q.ws).g.size.cols 0 false ⟨0, 0⟩ R1 ∧ R1.g.scrollbackOffset = (rsOf q.ws).g.scrollbackOffset ∧
      R1.g.scrollback = (rsOf q.ws).g.scrollback := by
  obtain ⟨g', e, hsz, hpos, htop, hbot, horg, hlen, hblank, hsb, hoff⟩ := clear_from_home hq.canvas hq.rows_ok
  have h0 := emitted_nil W cb q hq.ready
  have h1 := emitted_step W cb hq.ready h0 (step_clearAttrs (W := W) (cb := cb))
    (r' := { rsOf q.ws with pen := Attrs.default }) rfl
  have h2 := emitted_step W cb hq.ready h1 (step_clearScreen W cb)
    (r' := { g := g', pen := Attrs.default, saved := (rsOf q.ws).saved }) (by
      simp only [e, ok_bind]; rfl)
  have hc := hq.canvas
  refine ⟨_, by simpa using h2, rfl, ⟨?_, by rw [hsz], by rw [hsz]; exact hn.symm, hpos, ?_, fun h => by simp at h⟩, hoff, hsb⟩
  · refine ⟨by rw [hsz]; exact hc.rows_pos, by rw [hsz]; exact hc.cols_pos, by rw [hsz]; exact hc.rows_u16,
      by rw [hsz]; exact hc.cols_u16, by rw [htop]; exact hc.top, by rw [hbot, hsz]; exact hc.bottom,
      by rw [horg]; exact hc.origin, by rw [hlen, hsz]; exact hc.alloc, ?_⟩
    intro r hr
    have := (hblank r hr).2.1
    have hl := congrArg List.length this
    simp only [List.length_map, List.length_replicate] at hl
    rw [hl, hsz]
  · intro k hk
    have hkl : k < g'.rows.length := by rw [hlen, hc.alloc, ← hn]; exact hk
    exact ⟨g'.rows[k], List.getElem?_eq_getElem hkl, fun h => by omega, fun _ => hblank _ (List.getElem_mem hkl)⟩

theorem rowsInv_withPos {srows : List Row} {cols i : Nat} {pp : Pos} {R : RS}
    (h : RowsInv srows cols i false pp R) (to : Pos) :
    RowsInv srows cols i false to { R with g := withPos R.g to } :=
  ⟨canvas_withPos h.canvas to, h.hcols, h.nrows, rfl, h.row, fun hh => by simp at hh⟩

/-- line `k` replaced, cursor moved -/
def replaced (R : RS) (k : Nat) (Rk' : Row) (to : Pos) : RS :=
  { R with g := { R.g with rows := R.g.rows.set k Rk', pos := to } }

/-- replacing a drawn line by one that looks the same, and moving the cursor -/
theorem rowsInv_replace {srows : List Row} {cols : Nat} {pp : Pos} {R : RS}
    (h : RowsInv srows cols srows.length false pp R) (k : Nat) (Rk Rk' : Row) (hk : R.g.rows[k]? = some Rk)
    (hv : Rk'.cells.map view = Rk.cells.map view) (hw : Rk'.wrapped = Rk.wrapped)
    (h22 : ∀ c ∈ Rk'.cells, c.contents.length = 22) (to : Pos) :
    RowsInv srows cols srows.length false to (replaced R k Rk' to) := by
  unfold replaced
  have hkl := getElem?_lt hk
  have hc := h.canvas
  refine ⟨⟨hc.rows_pos, hc.cols_pos, hc.rows_u16, hc.cols_u16, hc.top, hc.bottom, hc.origin,
    by simp [hc.alloc], ?_⟩, h.hcols, h.nrows, rfl, ?_, fun hh => by simp at hh⟩
  · intro r hr
    simp only at hr ⊢
    rcases List.mem_or_eq_of_mem_set hr with hr | rfl
    · exact hc.width r hr
    · have := congrArg List.length hv
      simp only [List.length_map] at this
      rw [this]; exact hc.width Rk (List.mem_of_getElem? hk)
  · intro j hj
    simp only [List.getElem?_set]
    by_cases hjk : k = j
    · subst hjk
      obtain ⟨Rj, hRj, hd, hb⟩ := h.row k hj
      rw [hk] at hRj
      have : Rk = Rj := Option.some.inj hRj
      subst this
      simp only [hkl, ↓reduceIte]
      refine ⟨Rk', rfl, fun hlt => ?_, fun hge => by omega⟩
      obtain ⟨d1, _, d3⟩ := hd hlt
      exact ⟨hv.trans d1, h22, hw.trans d3⟩
    · rw [if_neg hjk]
      exact h.row j hj

/-- the receiver's cell looks like the source's: it is plain / wide exactly as the source cell is -/
theorem flags_of_view {a b : Cell} (h : view a = view b) : a.wide = b.wide ∧ a.cont = b.cont := by
  simp only [view, View.mk.injEq] at h
  exact ⟨h.2.1, h.2.2.1⟩

theorem views_get {l1 l2 : List Cell} (h : l1.map view = l2.map view) (k : Nat) (hk : k < l2.length) :
    ∃ hk1 : k < l1.length, view l1[k] = view l2[k] := by
  have hl : l1.length = l2.length := by simpa using congrArg List.length h
  refine ⟨by omega, ?_⟩
  have := congrArg (fun l => l[k]?) h
  simp only [List.getElem?_map, List.getElem?_eq_getElem hk, List.getElem?_eq_getElem (show k < l1.length by omega),
    Option.map_some, Option.some.injEq] at this
  exact this

/-- **the grid part of a full redraw** when the source cursor is not at the pending-wrap position -/
theorem grid_formatted_reproduces (hW : WOk W) {q : Parser} (hq : RecvOk W q) (Sg : Grid)
    (hoff : Sg.scrollbackOffset = 0) (hsz : Sg.size = (rsOf q.ws).g.size)
    (hS : SrcRows W Sg.size.cols Sg.rows) (hn : Sg.rows.length = Sg.size.rows)
    (hrow : Sg.pos.row < Sg.size.rows) (hcol : Sg.pos.col < Sg.size.cols) :
    ∃ bytes pa, Sg.writeContentsFormatted = .ok (bytes, pa) ∧
      ∃ Rf, Emitted W cb q bytes Rf ∧ Rf.pen = pa ∧
        RowsInv Sg.rows Sg.size.cols Sg.rows.length false Sg.pos Rf ∧
        Rf.g.scrollbackOffset = (rsOf q.ws).g.scrollbackOffset := by
  obtain ⟨R1, hem1, hpen1, hinv1, hoff1, _⟩ := prefix_drawn (cb := cb) hq Sg.rows (by rw [hn, hsz])
  rw [← hsz] at hinv1
  obtain ⟨out', pp', pa', R', eloop, hem', hpen', hinv', hoff', hwf'⟩ := rows_loop hW q hq.ready hS Sg.rows 0 false ⟨0, 0⟩
    (Term.clearAttrs ++ Term.clearScreen) R1 rfl (Nat.zero_le _) (fun h => absurd h (Nat.lt_irrefl 0)) (fun _ => rfl)
    hinv1 hem1
  rw [hpen1] at eloop
  -- the cursor
  have hcond : (some pp' != some Sg.pos && decide (Sg.pos.col ≥ Sg.size.cols)) = false := by
    have : ¬ Sg.pos.col ≥ Sg.size.cols := by omega
    simp [this]
  have hcur : Sg.writeCursorPositionFormatted (some pp') (some pa') = .ok (Term.moveFromTo pp' Sg.pos) := by
    simp only [Grid.writeCursorPositionFormatted, hcond, Bool.false_eq_true, ↓reduceIte, Grid.moveOpt, pure_eq_ok]
  have hu := hinv'.canvas.cols_u16
  have hru := hinv'.canvas.rows_u16
  have hgo := goto_eq hinv'.canvas pp' Sg.pos hinv'.pos (by rw [hinv'.nrows, hn]; exact hrow)
    (by rw [hinv'.hcols]; exact hcol)
  have hem2 := emitted_step W cb hq.ready hem' (step_moveFromTo W cb pp' Sg.pos
    (by rw [hinv'.nrows, hn] at hru; omega) (by rw [hinv'.hcols] at hu; omega)) hgo
  refine ⟨out' ++ Term.moveFromTo pp' Sg.pos, pa', ?_, { R' with g := withPos R'.g Sg.pos }, hem2, hpen',
    rowsInv_withPos hinv' Sg.pos, hoff'.trans hoff1⟩
  simp only [Grid.writeContentsFormatted, C19.visibleRows_offset0 Sg hoff, ok_bind, eloop, hcur, pure_eq_ok]

theorem map_view_set_same {l : List Cell} {k : Nat} (hk : k < l.length) {c' : Cell} (h : view c' = view l[k]) :
    (l.set k c').map view = l.map view := by
  rw [List.map_set]
  apply List.ext_getElem?
  intro j
  by_cases hj : k = j
  · subst hj; simp [hk, h]
  · simp [hj]

/-- **the grid part of a full redraw** when the source cursor is at the pending-wrap position of a line whose
last column is occupied: the last character of the line is typed again to get the receiver's cursor there -/
theorem grid_formatted_reproduces_pw (hW : WOk W) {q : Parser} (hq : RecvOk W q) (Sg : Grid)
    (hoff : Sg.scrollbackOffset = 0) (hsz : Sg.size = (rsOf q.ws).g.size)
    (hS : SrcRows W Sg.size.cols Sg.rows) (hn : Sg.rows.length = Sg.size.rows)
    (hrow : Sg.pos.row < Sg.size.rows) (hcol : Sg.pos.col = Sg.size.cols)
    (hocc : lastOcc (Sg.rows[Sg.pos.row]'(by omega)).cells) :
    ∃ bytes pa, Sg.writeContentsFormatted = .ok (bytes, pa) ∧
      ∃ Rf, Emitted W cb q bytes Rf ∧ Rf.pen = pa ∧
        RowsInv Sg.rows Sg.size.cols Sg.rows.length false Sg.pos Rf ∧
        Rf.g.scrollbackOffset = (rsOf q.ws).g.scrollbackOffset := by
  obtain ⟨R1, hem1, hpen1, hinv1, hoff1, _⟩ := prefix_drawn (cb := cb) hq Sg.rows (by rw [hn, hsz])
  rw [← hsz] at hinv1
  obtain ⟨out', pp', pa', R', eloop, hem', hpen', hinv', hoff', hwf'⟩ := rows_loop hW q hq.ready hS Sg.rows 0 false ⟨0, 0⟩
    (Term.clearAttrs ++ Term.clearScreen) R1 rfl (Nat.zero_le _) (fun h => absurd h (Nat.lt_irrefl 0)) (fun _ => rfl)
    hinv1 hem1
  rw [hpen1] at eloop
  have hpawf : Attrs.wf pa' := hwf' (by rw [hpen1]; exact wf_default)
  have hvis := C19.visibleRows_offset0 Sg hoff
  by_cases hpp : pp' = Sg.pos
  · -- the loop already left the cursor there
    have hcur : Sg.writeCursorPositionFormatted (some pp') (some pa') = .ok [] := by
      simp [Grid.writeCursorPositionFormatted, hpp, Grid.moveOpt, C19.moveFromTo_self]
    refine ⟨out' ++ [], pa', ?_, R', by simpa using hem', hpen', ?_, hoff'.trans hoff1⟩
    · simp only [Grid.writeContentsFormatted, hvis, ok_bind, eloop, hcur, pure_eq_ok]
    · rw [← hpp]; exact hinv'
  · -- re-type the last character of the cursor line
    have hcv := hinv'.canvas
    have hcols1 := hcv.cols_pos
    have hu := hcv.cols_u16
    have hru := hcv.rows_u16
    have hsc1 : 1 ≤ Sg.size.cols := by rw [← hinv'.hcols]; exact hcols1
    have hrl : Sg.pos.row < Sg.rows.length := by omega
    have hsok := hS.ok _ (List.getElem_mem hrl)
    have hswd := hS.width _ (List.getElem_mem hrl)
    obtain ⟨hlen1, hoc⟩ := hocc
    obtain ⟨Rk, hRk, hdone, _⟩ := hinv'.row Sg.pos.row hrl
    obtain ⟨hvk, h22k, hwk⟩ := hdone hrl
    have hRkl : Rk.cells.length = Sg.size.cols := by
      have := congrArg List.length hvk; simp only [List.length_map] at this; rw [this, hswd]
    have hc1 : Sg.size.cols - 1 < Sg.rows[Sg.pos.row].cells.length := by rw [hswd]; omega
    have hlastidx : Sg.rows[Sg.pos.row].cells.length - 1 = Sg.size.cols - 1 := by rw [hswd]
    simp only [hlastidx] at hoc
    have hcond : (some pp' != some Sg.pos && decide (Sg.pos.col ≥ Sg.size.cols)) = true := by
      have : ¬ pp' = Sg.pos := hpp
      simp [this, hcol]
    have hdraw : ∀ site k (hk : k < Sg.rows[Sg.pos.row].cells.length),
        Sg.drawingCellM site ⟨Sg.pos.row, k⟩ = .ok Sg.rows[Sg.pos.row].cells[k] := by
      intro site k hk
      simp [Grid.drawingCellM, Grid.drawingCell, Grid.drawingRow, Row.get, List.getElem?_eq_getElem hrl,
        List.getElem?_eq_getElem hk]
    have hrr : Sg.pos.row < R'.g.size.rows := by rw [hinv'.nrows]; exact hrl
    by_cases hlc : Sg.rows[Sg.pos.row].cells[Sg.size.cols - 1].cont = true
    · -- a wide character in the last two columns
      obtain ⟨j0, pv, hj0, hpv, hpvw⟩ := paired_cont_prev (List.getElem?_eq_getElem hc1) hsok.paired hlc
      have hc2 : Sg.size.cols - 2 < Sg.rows[Sg.pos.row].cells.length := by omega
      have hcols2 : 2 ≤ Sg.size.cols := by omega
      have hj0' : j0 = Sg.size.cols - 2 := by omega
      subst hj0'
      have hpv' : Sg.rows[Sg.pos.row].cells[Sg.size.cols - 2] = pv := by
        rw [List.getElem?_eq_getElem hc2] at hpv; exact Option.some.inj hpv
      have hwide : Sg.rows[Sg.pos.row].cells[Sg.size.cols - 2].wide = true := by rw [hpv']; exact hpvw
      have hh : Sg.rows[Sg.pos.row].cells[Sg.size.cols - 2].hasContents = true :=
        wide_has_contents (hsok.cells_ok _ (List.getElem_mem hc2)) hwide
      have hncont : Sg.rows[Sg.pos.row].cells[Sg.size.cols - 2].cont = false :=
        wide_not_cont (hsok.cells_ok _ (List.getElem_mem hc2)) hwide
      obtain ⟨f, zs, ht⟩ := textCell_of hW (hsok.cells_ok _ (List.getElem_mem hc2)) (hsok.emit_ok _ hc2) hh
      have hfine : CellFine Sg.rows[Sg.pos.row].cells[Sg.size.cols - 2] := cellFine_of_ok (hsok.cells_ok _ (List.getElem_mem hc2))
      have hw2 : 2 ≤ (W f).getD 1 := by
        have := ht.wide; rw [hwide] at this
        have h' : 1 < (W f).getD 1 := by simpa using this.symm
        omega
      have hcur : Sg.writeCursorPositionFormatted (some pp') (some pa') =
          .ok (Term.moveFromTo pp' ⟨Sg.pos.row, Sg.size.cols - 2⟩ ++
            Sg.rows[Sg.pos.row].cells[Sg.size.cols - 2].attrs.writeEscapeCodeDiff pa' ++
            Sg.rows[Sg.pos.row].cells[Sg.size.cols - 2].contents.take Sg.rows[Sg.pos.row].cells[Sg.size.cols - 2].len ++
            pa'.writeEscapeCodeDiff Sg.rows[Sg.pos.row].cells[Sg.size.cols - 2].attrs) := by
        simp only [Grid.writeCursorPositionFormatted, hcond, ↓reduceIte, Option.getD_some, Grid.endOfRowPos,
          subM_ok hsc1, ok_bind, hdraw 412 _ hc1, Cell.isWideContinuation, hlc, subM_ok hcols2, pure_bind',
          hdraw 415 _ hc2, hh, contentsBytes_ok hfine, Grid.moveOpt, pure_eq_ok]
      obtain ⟨hk2, hvc2⟩ := views_get hvk (Sg.size.cols - 2) hc2
      obtain ⟨hk1, hvc1⟩ := views_get hvk (Sg.size.cols - 1) hc1
      obtain ⟨hfw, hfc⟩ := flags_of_view hvc2
      have hgo := goto_eq hcv pp' ⟨Sg.pos.row, Sg.size.cols - 2⟩ hinv'.pos hrr (by simp only; rw [hinv'.hcols]; omega)
      have hemA := emitted_step W cb hq.ready hem' (step_moveFromTo W cb pp' ⟨Sg.pos.row, Sg.size.cols - 2⟩
        (by simp only; rw [hinv'.nrows] at hru; omega) (by simp only; rw [hinv'.hcols] at hu; omega)) hgo
      have hemB := emitted_step W cb hq.ready hemA
        (step_pen W cb Sg.rows[Sg.pos.row].cells[Sg.size.cols - 2].attrs pa' (hsok.wf _ hc2))
        (r' := { R' with g := withPos R'.g ⟨Sg.pos.row, Sg.size.cols - 2⟩,
                         pen := Sg.rows[Sg.pos.row].cells[Sg.size.cols - 2].attrs }) (by simp [hpen'])
      have hstep := step_text W cb _ ht.valid (by rw [ht.chars]; exact ht.plain) ht.noesc
      rw [ht.chars] at hstep
      have hidx : Sg.size.cols - 2 + 1 = Sg.size.cols - 1 := by omega
      obtain ⟨cellF, cc, etype, vF, kF, vcc, kcc⟩ := type_cell_wide_over W (g := withPos R'.g ⟨Sg.pos.row, Sg.size.cols - 2⟩)
        (by simp only [withPos]; exact hu) Sg.rows[Sg.pos.row].cells[Sg.size.cols - 2].attrs f _ zs Rk
        Rk.cells[Sg.size.cols - 2] Rk.cells[Sg.size.cols - 1] rfl hw2 ht.first ht.zero
        (by simp only [withPos]; rw [hinv'.hcols]; have := ht.fits; rw [hswd] at this; exact this)
        (by simpa [withPos] using hRk) (by simp [withPos, List.getElem?_eq_getElem hk2]) (by rw [hfw, hwide])
        (by rw [hfc, hncont]) (h22k _ (List.getElem_mem hk2))
        (by simp only [withPos, hidx]; exact List.getElem?_eq_getElem hk1) (h22k _ (List.getElem_mem hk1)) hW.space ht.pre
      simp only [withPos, hidx] at etype
      have hemC := emitted_step W cb hq.ready hemB hstep
        (r' := { R' with g := typed (withPos R'.g ⟨Sg.pos.row, Sg.size.cols - 2⟩) Rk
                              ((Rk.cells.set (Sg.size.cols - 2) cellF).set (Sg.size.cols - 1) cc) (Sg.size.cols - 2 + 2),
                         pen := Sg.rows[Sg.pos.row].cells[Sg.size.cols - 2].attrs }) (by
          simp only [withPos, etype, ok_bind, pure_eq_ok])
      have hemD := emitted_step W cb hq.ready hemC
        (step_pen W cb pa' Sg.rows[Sg.pos.row].cells[Sg.size.cols - 2].attrs hpawf)
        (r' := { R' with g := typed (withPos R'.g ⟨Sg.pos.row, Sg.size.cols - 2⟩) Rk
                              ((Rk.cells.set (Sg.size.cols - 2) cellF).set (Sg.size.cols - 1) cc) (Sg.size.cols - 2 + 2),
                         pen := pa' }) (by simp)
      have hposeq : (⟨Sg.pos.row, Sg.size.cols - 2 + 2⟩ : Pos) = Sg.pos := by
        rw [show Sg.size.cols - 2 + 2 = Sg.size.cols by omega, ← hcol]
      have hv1 : ((Rk.cells.set (Sg.size.cols - 2) cellF).set (Sg.size.cols - 1) cc).map view = Rk.cells.map view := by
        have h1 := map_view_set_same hk2 (c' := cellF) (by rw [vF, ← ht.view, hvc2])
        have hk1' : Sg.size.cols - 1 < (Rk.cells.set (Sg.size.cols - 2) cellF).length := by simpa using hk1
        have h2 := map_view_set_same hk1' (c' := cc) (by
          rw [vcc, List.getElem_set_ne (by omega), hvc1, hsok.cont_view _ hc1 hlc]; rfl)
        rw [h2, h1]
      have hrepl := rowsInv_replace hinv' Sg.pos.row Rk
        { Rk with cells := (Rk.cells.set (Sg.size.cols - 2) cellF).set (Sg.size.cols - 1) cc } hRk hv1 rfl (by
          intro c hc
          rcases List.mem_or_eq_of_mem_set hc with hc | rfl
          · rcases List.mem_or_eq_of_mem_set hc with hc | rfl
            · exact h22k c hc
            · exact kF
          · exact kcc) Sg.pos
      refine ⟨out' ++ (Term.moveFromTo pp' ⟨Sg.pos.row, Sg.size.cols - 2⟩ ++
            Sg.rows[Sg.pos.row].cells[Sg.size.cols - 2].attrs.writeEscapeCodeDiff pa' ++
            Sg.rows[Sg.pos.row].cells[Sg.size.cols - 2].contents.take Sg.rows[Sg.pos.row].cells[Sg.size.cols - 2].len ++
            pa'.writeEscapeCodeDiff Sg.rows[Sg.pos.row].cells[Sg.size.cols - 2].attrs), pa', ?_, _, ?_, ?_, hrepl, hoff'.trans hoff1⟩
      · simp only [Grid.writeContentsFormatted, hvis, ok_bind, eloop, hcur, pure_eq_ok]
      · have : replaced R' Sg.pos.row { Rk with cells := (Rk.cells.set (Sg.size.cols - 2) cellF).set (Sg.size.cols - 1) cc } Sg.pos =
            { R' with g := typed (withPos R'.g ⟨Sg.pos.row, Sg.size.cols - 2⟩) Rk
                              ((Rk.cells.set (Sg.size.cols - 2) cellF).set (Sg.size.cols - 1) cc) (Sg.size.cols - 2 + 2), pen := pa' } := by
          simp only [replaced, typed, withPos, hposeq, hpen']
        rw [this]
        simpa [List.append_assoc] using hemD
      · exact hpen'
    · -- a narrow character in the last column
      have hlc' : Sg.rows[Sg.pos.row].cells[Sg.size.cols - 1].cont = false := by simpa using hlc
      have hh : Sg.rows[Sg.pos.row].cells[Sg.size.cols - 1].hasContents = true := by
        rcases hoc with h | h
        · exact h
        · rw [hlc'] at h; simp at h
      obtain ⟨f, zs, ht⟩ := textCell_of hW (hsok.cells_ok _ (List.getElem_mem hc1)) (hsok.emit_ok _ hc1) hh
      have hfine : CellFine Sg.rows[Sg.pos.row].cells[Sg.size.cols - 1] := cellFine_of_ok (hsok.cells_ok _ (List.getElem_mem hc1))
      -- the last column cannot hold a wide character
      have hnw : Sg.rows[Sg.pos.row].cells[Sg.size.cols - 1].wide = false := by
        by_cases hw : Sg.rows[Sg.pos.row].cells[Sg.size.cols - 1].wide = true
        · obtain ⟨hj', _⟩ := hsok.wide_next _ hc1 hw
          rw [hswd] at hj'; omega
        · simpa using hw
      have hw1 : (W f).getD 1 = 1 := by
        have := ht.wide; rw [hnw] at this
        have h' : ¬ 1 < (W f).getD 1 := by simpa using this.symm
        have := ht.width; omega
      -- the emitter's output
      have hcur : Sg.writeCursorPositionFormatted (some pp') (some pa') =
          .ok (Term.moveFromTo pp' ⟨Sg.pos.row, Sg.size.cols - 1⟩ ++
            Sg.rows[Sg.pos.row].cells[Sg.size.cols - 1].attrs.writeEscapeCodeDiff pa' ++
            Sg.rows[Sg.pos.row].cells[Sg.size.cols - 1].contents.take Sg.rows[Sg.pos.row].cells[Sg.size.cols - 1].len ++
            pa'.writeEscapeCodeDiff Sg.rows[Sg.pos.row].cells[Sg.size.cols - 1].attrs) := by
        simp only [Grid.writeCursorPositionFormatted, hcond, ↓reduceIte, Option.getD_some, Grid.endOfRowPos,
          subM_ok hsc1, ok_bind, hdraw 412 _ hc1, Cell.isWideContinuation, hlc', Bool.false_eq_true, pure_bind',
          hdraw 415 _ hc1, hh, contentsBytes_ok hfine, Grid.moveOpt, pure_eq_ok]
      -- the receiver
      obtain ⟨hk1, hvc⟩ := views_get hvk (Sg.size.cols - 1) hc1
      obtain ⟨hfw, hfc⟩ := flags_of_view hvc
      have hgo := goto_eq hcv pp' ⟨Sg.pos.row, Sg.size.cols - 1⟩ hinv'.pos hrr (by simp only; rw [hinv'.hcols]; omega)
      have hemA := emitted_step W cb hq.ready hem' (step_moveFromTo W cb pp' ⟨Sg.pos.row, Sg.size.cols - 1⟩
        (by simp only; rw [hinv'.nrows] at hru; omega) (by simp only; rw [hinv'.hcols] at hu; omega)) hgo
      have hemB := emitted_step W cb hq.ready hemA
        (step_pen W cb Sg.rows[Sg.pos.row].cells[Sg.size.cols - 1].attrs pa' (hsok.wf _ hc1))
        (r' := { R' with g := withPos R'.g ⟨Sg.pos.row, Sg.size.cols - 1⟩,
                         pen := Sg.rows[Sg.pos.row].cells[Sg.size.cols - 1].attrs }) (by simp [hpen'])
      have hstep := step_text W cb _ ht.valid (by rw [ht.chars]; exact ht.plain) ht.noesc
      rw [ht.chars] at hstep
      obtain ⟨cellF, etype, vF, kF⟩ := type_cell_narrow W (g := withPos R'.g ⟨Sg.pos.row, Sg.size.cols - 1⟩)
        (by simp only [withPos]; exact hu) Sg.rows[Sg.pos.row].cells[Sg.size.cols - 1].attrs f zs Rk Rk.cells[Sg.size.cols - 1]
        hw1 ht.first ht.zero (by simp only [withPos]; rw [hinv'.hcols]; omega) (by simpa [withPos] using hRk)
        (by simp [withPos, List.getElem?_eq_getElem hk1]) (by rw [hfw, hnw]) (by rw [hfc, hlc'])
        (h22k _ (List.getElem_mem hk1)) ht.pre
      have hemC := emitted_step W cb hq.ready hemB hstep
        (r' := { R' with g := typed (withPos R'.g ⟨Sg.pos.row, Sg.size.cols - 1⟩) Rk
                              (Rk.cells.set (Sg.size.cols - 1) cellF) (Sg.size.cols - 1 + 1),
                         pen := Sg.rows[Sg.pos.row].cells[Sg.size.cols - 1].attrs }) (by
          simp only [etype, ok_bind, pure_eq_ok]
          rfl)
      have hemD := emitted_step W cb hq.ready hemC
        (step_pen W cb pa' Sg.rows[Sg.pos.row].cells[Sg.size.cols - 1].attrs hpawf)
        (r' := { R' with g := typed (withPos R'.g ⟨Sg.pos.row, Sg.size.cols - 1⟩) Rk
                              (Rk.cells.set (Sg.size.cols - 1) cellF) (Sg.size.cols - 1 + 1),
                         pen := pa' }) (by simp)
      have hposeq : (⟨Sg.pos.row, Sg.size.cols - 1 + 1⟩ : Pos) = Sg.pos := by
        rw [show Sg.size.cols - 1 + 1 = Sg.size.cols by omega, ← hcol]
      have hrepl := rowsInv_replace hinv' Sg.pos.row Rk { Rk with cells := Rk.cells.set (Sg.size.cols - 1) cellF } hRk
        (map_view_set_same hk1 (by rw [vF, ← ht.view, hvc])) rfl (by
          intro c hc
          rcases List.mem_or_eq_of_mem_set hc with hc | rfl
          · exact h22k c hc
          · exact kF) Sg.pos
      refine ⟨out' ++ (Term.moveFromTo pp' ⟨Sg.pos.row, Sg.size.cols - 1⟩ ++
            Sg.rows[Sg.pos.row].cells[Sg.size.cols - 1].attrs.writeEscapeCodeDiff pa' ++
            Sg.rows[Sg.pos.row].cells[Sg.size.cols - 1].contents.take Sg.rows[Sg.pos.row].cells[Sg.size.cols - 1].len ++
            pa'.writeEscapeCodeDiff Sg.rows[Sg.pos.row].cells[Sg.size.cols - 1].attrs), pa', ?_, _, ?_, ?_, hrepl, hoff'.trans hoff1⟩
      · simp only [Grid.writeContentsFormatted, hvis, ok_bind, eloop, hcur, pure_eq_ok]
      · have : replaced R' Sg.pos.row { Rk with cells := Rk.cells.set (Sg.size.cols - 1) cellF } Sg.pos =
            { R' with g := typed (withPos R'.g ⟨Sg.pos.row, Sg.size.cols - 1⟩) Rk
                              (Rk.cells.set (Sg.size.cols - 1) cellF) (Sg.size.cols - 1 + 1), pen := pa' } := by
          simp only [replaced, typed, withPos, hposeq, hpen']
        rw [this]
        simpa [List.append_assoc] using hemD
      · exact hpen'

/-- the receiver shows the source: what `obs` compares, component by component (input modes apart) -/
structure Shows (q : Screen) (S : Screen) : Prop where
  size : q.cur.size = S.cur.size
  cells : q.cur.rows.map (fun r => r.cells.map cellObs) = S.cur.rows.map (fun r => r.cells.map cellObs)
  views : q.cur.rows.map (fun r => r.cells.map view) = S.cur.rows.map (fun r => r.cells.map view)
  wrapped : q.cur.rows.map (fun r => r.wrapped) = S.cur.rows.map (fun r => r.wrapped)
  cursor : q.cur.pos = S.cur.pos
  hide : q.hideCursor = S.hideCursor
  pen : q.attrs = S.attrs
  off : q.cur.scrollbackOffset = 0

theorem cellObs_of_view {a b : Cell} (h : view a = view b) : cellObs a = cellObs b := by
  simp only [view, View.mk.injEq] at h
  simp only [cellObs, CellObs.mk.injEq]
  exact ⟨h.2.2.2.2, h.2.1, h.2.2.1, h.2.2.2.1⟩

theorem cells_of_views {l1 l2 : List Cell} (h : l1.map view = l2.map view) : l1.map cellObs = l2.map cellObs := by
  apply List.ext_getElem?
  intro k
  have := congrArg (fun l => l[k]?) h
  simp only [List.getElem?_map] at this ⊢
  cases h1 : l1[k]? with
  | none =>
    rw [h1] at this
    cases h2 : l2[k]? with
    | none => rfl
    | some b => rw [h2] at this; simp at this
  | some a =>
    rw [h1] at this
    cases h2 : l2[k]? with
    | none => rw [h2] at this; simp at this
    | some b =>
      rw [h2] at this
      simp only [Option.map_some, Option.some.injEq] at this ⊢
      exact cellObs_of_view this

/-- from the loop invariant at the end to the list equalities `obs` compares -/
theorem rows_shown {srows : List Row} {cols : Nat} {pp : Pos} {R : RS}
    (h : RowsInv srows cols srows.length false pp R) :
    R.g.rows.map (fun r => r.cells.map cellObs) = srows.map (fun r => r.cells.map cellObs) ∧
    R.g.rows.map (fun r => r.wrapped) = srows.map (fun r => r.wrapped) ∧
    R.g.rows.map (fun r => r.cells.map view) = srows.map (fun r => r.cells.map view) := by
  have hl : R.g.rows.length = srows.length := by rw [h.canvas.alloc, h.nrows]
  refine ⟨?_, ?_, ?_⟩
  rotate_left 2
  · apply List.ext_getElem?
    intro k
    simp only [List.getElem?_map]
    by_cases hk : k < srows.length
    · obtain ⟨Rk, hRk, hd, _⟩ := h.row k hk
      obtain ⟨hv, _, _⟩ := hd hk
      rw [hRk, List.getElem?_eq_getElem hk]
      simp only [Option.map_some, Option.some.injEq]
      exact hv
    · rw [List.getElem?_eq_none (by omega), List.getElem?_eq_none (by omega)]
  · apply List.ext_getElem?
    intro k
    simp only [List.getElem?_map]
    by_cases hk : k < srows.length
    · obtain ⟨Rk, hRk, hd, _⟩ := h.row k hk
      obtain ⟨hv, _, _⟩ := hd hk
      rw [hRk, List.getElem?_eq_getElem hk]
      simp only [Option.map_some, Option.some.injEq]
      exact cells_of_views hv
    · rw [List.getElem?_eq_none (by omega), List.getElem?_eq_none (by omega)]
  · apply List.ext_getElem?
    intro k
    simp only [List.getElem?_map]
    by_cases hk : k < srows.length
    · obtain ⟨Rk, hRk, hd, _⟩ := h.row k hk
      obtain ⟨_, _, hw⟩ := hd hk
      rw [hRk, List.getElem?_eq_getElem hk]
      simp only [Option.map_some, Option.some.injEq]
      rw [hw]; simp
    · rw [List.getElem?_eq_none (by omega), List.getElem?_eq_none (by omega)]

/-- what is assumed of the source screen (all of it follows from `Inv`, `Inv⁺`, `emitInv`, scrollback offset 0;
`cursor_inside` excludes the pending-wrap cursor position) -/
structure SrcScreen (W : Nat → Option Nat) (S : Screen) : Prop where
  off : S.cur.scrollbackOffset = 0
  rows : SrcRows W S.cur.size.cols S.cur.rows
  alloc : S.cur.rows.length = S.cur.size.rows
  cur_row : S.cur.pos.row < S.cur.size.rows
  cursor_ok : S.cur.pos.col < S.cur.size.cols ∨
    (S.cur.pos.col = S.cur.size.cols ∧ lastOcc (S.cur.rows[S.cur.pos.row]'(by rw [alloc]; exact cur_row)).cells)
  pen_wf : Attrs.wf S.attrs

theorem rsOf_hide (ws : WS) (b : Bool) :
    rsOf ({ ws with screen := { ws.screen with hideCursor := b } } : WS) = rsOf ws := by
  simp only [rsOf, Screen.cur]

/-- **C01, `contents_formatted`**: processing the bytes of `S.contents_formatted()` on any receiver that is
ready, whose active grid is a canvas of the same size and is not scrolled back, leaves the receiver
showing `S` — cells, wrap flags, cursor, cursor visibility, pen — whatever it showed before -/
theorem contents_formatted_reproduces (hW : WOk W) {q : Parser} (hq : RecvOk W q)
    (hqoff : (rsOf q.ws).g.scrollbackOffset = 0) (S : Screen) (hS : SrcScreen W S)
    (hsz : S.cur.size = (rsOf q.ws).g.size) :
    ∃ bytes q', S.contentsFormatted = .ok bytes ∧ q.process W cb bytes = .ok q' ∧ Ready q' ∧
      Shows q'.screen S ∧ q'.ws.events = q.ws.events ∧
      C10.inputModes q'.screen = C10.inputModes q.screen := by
  -- cursor visibility
  obtain ⟨q1, e1, w1, r1⟩ := C10.process_hideCursor W cb q S.hideCursor hq.ready
  have hrs1 : rsOf q1.ws = rsOf q.ws := by rw [w1]; exact rsOf_hide _ _
  have hq1 : RecvOk W q1 := ⟨r1, by rw [hrs1]; exact hq.canvas, by rw [hrs1]; exact hq.rows_ok⟩
  -- the grid
  obtain ⟨gb, pa, eg, Rf, hemf, hpenf, hinvf, hofff⟩ : ∃ bytes pa, S.cur.writeContentsFormatted = .ok (bytes, pa) ∧
      ∃ Rf, Emitted W cb q1 bytes Rf ∧ Rf.pen = pa ∧
        RowsInv S.cur.rows S.cur.size.cols S.cur.rows.length false S.cur.pos Rf ∧
        Rf.g.scrollbackOffset = (rsOf q1.ws).g.scrollbackOffset := by
    rcases hS.cursor_ok with hin | ⟨hpw, hocc⟩
    · exact grid_formatted_reproduces (cb := cb) hW hq1 S.cur hS.off (by rw [hrs1]; exact hsz) hS.rows hS.alloc
        hS.cur_row hin
    · exact grid_formatted_reproduces_pw (cb := cb) hW hq1 S.cur hS.off (by rw [hrs1]; exact hsz) hS.rows hS.alloc
        hS.cur_row hpw hocc
  -- the pen
  have hem2 := emitted_step W cb r1 hemf (step_pen W cb S.attrs pa hS.pen_wf)
    (r' := { Rf with pen := S.attrs }) (by simp [hpenf])
  obtain ⟨q2, e2, w2, r2⟩ := hem2
  have hcar : (q.vte.advance (Term.hideCursor S.hideCursor)).1.carry = [] := by
    rw [← process_vte W cb e1]; exact r1.2
  refine ⟨Term.hideCursor S.hideCursor ++ gb ++ S.attrs.writeEscapeCodeDiff pa, q2, ?_, ?_, r2, ?_, ?_, ?_⟩
  · simp only [Screen.contentsFormatted, Screen.writeContentsFormatted, eg, ok_bind, pure_eq_ok]
  · rw [List.append_assoc, C04.process_append W cb q _ _ hq.ready.2 hcar, e1]
    exact e2
  · have hcur : q2.screen.cur = Rf.g := by
      show q2.ws.screen.cur = Rf.g
      rw [w2]
      have := rsOf_withRS q1.ws { Rf with pen := S.attrs }
      simp only [rsOf, RS.mk.injEq] at this
      exact this.1
    obtain ⟨hc, hwr, hvw⟩ := rows_shown hinvf
    refine ⟨?_, ?_, by rw [hcur]; exact hvw, ?_, ?_, ?_, ?_, ?_⟩
    · rw [hcur]
      have h1 := hinvf.hcols
      have h2 := hinvf.nrows
      rw [hS.alloc] at h2
      cases hsg : Rf.g.size; cases hss : S.cur.size
      simp only [hsg, hss] at h1 h2 ⊢
      rw [h1, h2]
    · rw [hcur]; exact hc
    · rw [hcur]; exact hwr
    · rw [hcur]; exact hinvf.pos
    · show q2.ws.screen.hideCursor = S.hideCursor
      rw [w2, w1]
      simp only [withRS, Screen.setCur]
      split <;> rfl
    · show q2.ws.screen.attrs = S.attrs
      rw [w2]; rfl
    · rw [hcur, hofff, hrs1]; exact hqoff
  · show q2.ws.events = q.ws.events
    rw [w2, w1]; rfl
  · show C10.inputModes q2.ws.screen = C10.inputModes q.ws.screen
    rw [w2, w1]
    simp only [C10.inputModes, withRS, Screen.setCur]
    split <;> rfl

/-- **C01, `state_formatted`**: the same, plus the five input modes, on a receiver whose mouse mode and
encoding are at their defaults (a new parser) -/
theorem state_formatted_reproduces (hW : WOk W) {q : Parser} (hq : RecvOk W q)
    (hqoff : (rsOf q.ws).g.scrollbackOffset = 0) (hm : q.screen.mouseMode = .none) (he : q.screen.mouseEnc = .default)
    (S : Screen) (hS : SrcScreen W S) (hsz : S.cur.size = (rsOf q.ws).g.size) :
    ∃ bytes q', S.stateFormatted = .ok bytes ∧ q.process W cb bytes = .ok q' ∧ Ready q' ∧
      Shows q'.screen S ∧ C10.inputModes q'.screen = C10.inputModes S ∧ q'.ws.events = q.ws.events := by
  obtain ⟨cbytes, q1, ec, e1, r1, hsh, hev, hmodes⟩ := contents_formatted_reproduces (cb := cb) hW hq hqoff S hS hsz
  have hm1 : q1.ws.screen.mouseMode = .none := by
    have := congrArg C10.InputModes.mouseMode hmodes; exact this.trans hm
  have he1 : q1.ws.screen.mouseEnc = .default := by
    have := congrArg C10.InputModes.mouseEnc hmodes; exact this.trans he
  obtain ⟨q2, e2, w2, r2⟩ := C10.process_input_mode_formatted W cb q1 S r1 hm1 he1
  have hcar : (q.vte.advance cbytes).1.carry = [] := by rw [← process_vte W cb e1]; exact r1.2
  have ec' : S.writeContentsFormatted = .ok cbytes := ec
  refine ⟨cbytes ++ S.inputModeFormatted, q2, ?_, ?_, r2, ?_, ?_, ?_⟩
  · simp only [Screen.stateFormatted, ec', ok_bind, pure_eq_ok, Screen.inputModeFormatted]
  · rw [C04.process_append W cb q _ _ hq.ready.2 hcar, e1]; exact e2
  · have hs : q2.screen = C10.setInputModes q1.screen (C10.inputModes S) := by
      show q2.ws.screen = _; rw [w2]; rfl
    have hcur : q2.screen.cur = q1.screen.cur := by rw [hs]; rfl
    exact ⟨by rw [hcur]; exact hsh.size, by rw [hcur]; exact hsh.cells, by rw [hcur]; exact hsh.views,
      by rw [hcur]; exact hsh.wrapped,
      by rw [hcur]; exact hsh.cursor, by rw [hs]; exact hsh.hide, by rw [hs]; exact hsh.pen,
      by rw [hcur]; exact hsh.off⟩
  · show C10.inputModes q2.ws.screen = _
    rw [w2]; rfl
  · show q2.ws.events = _
    rw [w2]; exact hev

/-- what `obs` computes when the view is not scrolled back -/
theorem obs_offset0 (s : Screen) (h : s.cur.scrollbackOffset = 0) :
    obs s = .ok { size := s.cur.size, cells := s.cur.rows.map (fun r => r.cells.map cellObs),
                  wrapped := s.cur.rows.map (fun r => r.wrapped), cursor := s.cur.pos, hide := s.hideCursor,
                  pen := s.attrs,
                  modes := (s.appKeypad, s.appCursor, s.bracketedPaste, s.mouseMode, s.mouseEnc) } := by
  simp [obs, C19.visibleRows_offset0 _ h]

/-- **C01 in terms of `obs`**: after `state_formatted` the receiver's observable state IS the source's -/
theorem shows_obs {q S : Screen} (h : Shows q S) (hm : C10.inputModes q = C10.inputModes S)
    (hoff : S.cur.scrollbackOffset = 0) : obs q = obs S := by
  rw [obs_offset0 q h.off, obs_offset0 S hoff]
  simp only [C10.inputModes, C10.InputModes.mk.injEq] at hm
  obtain ⟨m1, m2, m3, m4, m5⟩ := hm
  rw [h.size, h.cells, h.wrapped, h.cursor, h.hide, h.pen, m1, m2, m3, m4, m5]

/-- a new parser is a valid receiver -/
theorem new_recvOk (W : Nat → Option Nat) (rows cols sb : Nat) (hr : 1 ≤ rows) (hc : 1 ≤ cols) (hr' : rows ≤ 65535)
    (hc' : cols ≤ 65535) :
    ∃ q, Parser.new rows cols sb = .ok q ∧ RecvOk W q ∧ (rsOf q.ws).g.scrollbackOffset = 0 ∧
      (rsOf q.ws).g.size = ⟨rows, cols⟩ ∧ q.screen.mouseMode = .none ∧ q.screen.mouseEnc = .default := by
  obtain ⟨hnew, hinv⟩ := C13.inv_new W rows cols sb hr hc hr' hc'
  refine ⟨{ vte := Vte.new, ws := { screen := C13.newScreen rows cols sb, events := [] } }, by simp [Parser.new, hnew],
    ⟨⟨rfl, rfl⟩, ?_, ?_⟩, rfl, rfl, rfl, rfl⟩
  · refine ⟨hr, hc, hr', hc', rfl, rfl, rfl, by simp [rsOf, Screen.cur, C13.newScreen, C13.newGrid], ?_⟩
    intro r hr0
    simp only [rsOf, Screen.cur, C13.newScreen, C13.newGrid, Bool.false_eq_true, ↓reduceIte, List.mem_replicate] at hr0
    rw [hr0.2]; simp [Row.new, rsOf, Screen.cur, C13.newScreen, C13.newGrid]
  · intro r hr0
    have hg := ((inv_iff W _).mp hinv).grid
    exact (hg.row_ok r hr0).2

/-! ### the hypotheses follow from the Boolean invariants the checks evaluate on every visited state -/

theorem srcOk_of {cols : Nat} {r : Row} (hok : rowOk W r = true) (hlen : r.cells.length = cols)
    (hem : rowEmitOk W cols r = true) (hpl : rowPlusOk r = true) : SrcOk W r.cells := by
  obtain ⟨_, hci⟩ := (rowOk_iff W r).mp hok
  refine ⟨hci.cells_ok, hci.paired, ?_, ?_⟩
  · intro j hj
    simp only [rowEmitOk, List.all_eq_true] at hem
    have := hem (r.cells[j], j) (by
      rw [List.mem_zipIdx_iff_getElem?]; simp [List.getElem?_eq_getElem hj])
    rw [hlen]; exact this
  · intro c hc hcont
    simp only [rowPlusOk, Bool.and_eq_true, List.all_eq_true, Bool.or_eq_true, Bool.not_eq_true', beq_iff_eq] at hpl
    rcases hpl.2 c hc with h | h
    · rw [hcont] at h; simp at h
    · exact h

theorem lastOcc_of {r : Row} (hpl : rowPlusOk r = true) (hw : r.wrapped = true) : lastOcc r.cells := by
  simp only [rowPlusOk, Bool.and_eq_true, Bool.or_eq_true, Bool.not_eq_true'] at hpl
  rcases hpl.1 with h | h
  · rw [hw] at h; simp at h
  · simp only [lastColOccupied] at h
    cases hl : r.cells.getLast? with
    | none => rw [hl] at h; simp at h
    | some c =>
      rw [hl] at h
      have hne : r.cells ≠ [] := by intro hn; simp [hn] at hl
      have hpos : 0 < r.cells.length := List.length_pos_iff.mpr hne
      refine ⟨hpos, ?_⟩
      have : r.cells[r.cells.length - 1] = c := by
        rw [List.getLast?_eq_getElem?, List.getElem?_eq_getElem (by omega)] at hl
        exact Option.some.inj hl
      rw [this]
      simpa using h

theorem srcRows_of {g : Grid} {un : Bool} (hg : GridInv W g un) (hpl : gridPlusOk g = true)
    (hem : gridEmitOk W g = true) : SrcRows W g.size.cols g.rows := by
  simp only [gridPlusOk, Bool.and_eq_true, List.all_eq_true] at hpl
  simp only [gridEmitOk, List.all_eq_true] at hem
  refine ⟨fun r hr => (hg.row_ok r hr).1, fun r hr => srcOk_of (hg.row_ok r hr).2 (hg.row_ok r hr).1 (hem r hr) (hpl.1.1 r hr),
    fun r hr hw => lastOcc_of (hpl.1.1 r hr) hw, ?_⟩
  intro r hr
  have := hpl.2
  rw [hr] at this
  simpa using this

/-- **every screen that satisfies the Boolean invariants, is not scrolled back and whose cursor is inside
its line is a valid source** -/
theorem srcScreen_of_inv {S : Screen} (hinv : emitInvB W S = true) (hoff : S.cur.scrollbackOffset = 0)
    (hcur : S.cur.pos.col < S.cur.size.cols ∨
      (S.cur.pos.col = S.cur.size.cols ∧ ∀ h : S.cur.pos.row < S.cur.rows.length, lastOcc (S.cur.rows[S.cur.pos.row]).cells)) :
    SrcScreen W S := by
  simp only [emitInvB, invPlusB, Bool.and_eq_true] at hinv
  obtain ⟨⟨⟨⟨⟨hI, hp1⟩, hp2⟩, he1⟩, he2⟩, ha⟩ := hinv
  have hsi := (inv_iff W S).mp hI
  obtain ⟨hcg, hal⟩ := hsi.cur
  have hrows : SrcRows W S.cur.size.cols S.cur.rows := by
    unfold Screen.cur
    cases hs : S.altScreen
    · simpa using srcRows_of hsi.grid hp1 he1
    · simpa using srcRows_of hsi.alt hp2 he2
  refine ⟨hoff, hrows, hal, hcg.pos_row, ?_, attrs_wf_of_ok ha⟩
  rcases hcur with h | ⟨h1, h2⟩
  · exact Or.inl h
  · exact Or.inr ⟨h1, h2 (by rw [hal]; exact hcg.pos_row)⟩

/-- **C01** (cursor inside its line, or pending wrap after a line whose last column is occupied): for every screen `S` satisfying `Inv`, `Inv⁺`, `emitInv`, not scrolled back,
feeding the bytes of `S.state_formatted()` to a NEW parser of the same size (any scrollback capacity) yields a
screen whose observable state equals `S`'s — cells, wide/continuation flags, colours and attributes, wrap
flags, cursor, cursor visibility, pen, input modes — and reports no event -/
theorem full_redraw_fresh (hW : WOk W) (S : Screen) (hinv : emitInvB W S = true) (hoff : S.cur.scrollbackOffset = 0)
    (hcur : S.cur.pos.col < S.cur.size.cols ∨
      (S.cur.pos.col = S.cur.size.cols ∧ ∀ h : S.cur.pos.row < S.cur.rows.length, lastOcc (S.cur.rows[S.cur.pos.row]).cells))
    (sb : Nat) :
    ∃ q bytes q', Parser.new S.cur.size.rows S.cur.size.cols sb = .ok q ∧ S.stateFormatted = .ok bytes ∧
      q.process W cb bytes = .ok q' ∧ obs q'.screen = obs S ∧ q'.ws.events = [] := by
  have hS := srcScreen_of_inv hinv hoff hcur
  have hI : Inv W S := by
    simp only [emitInvB, invPlusB, Bool.and_eq_true] at hinv
    exact hinv.1.1.1.1.1
  obtain ⟨hcg, _⟩ := ((inv_iff W S).mp hI).cur
  obtain ⟨q, enew, hq, hqoff, hqsz, hm, he⟩ := new_recvOk W S.cur.size.rows S.cur.size.cols sb hcg.rows_pos hcg.cols_pos
    hcg.rows_u16 hcg.cols_u16
  obtain ⟨bytes, q', eb, ep, _, hsh, hmodes, hev⟩ := state_formatted_reproduces (cb := cb) hW hq hqoff hm he S hS
    (by rw [hqsz])
  refine ⟨q, bytes, q', enew, eb, ep, shows_obs hsh hmodes hoff, ?_⟩
  rw [hev]
  simp only [Parser.new, C13.new_eq _ _ _ hcg.rows_pos, ok_bind, pure_eq_ok, Except.ok.injEq] at enew
  rw [← enew]

/-- the kernel-evaluation width function satisfies the assumptions -/
theorem wOk_W0 : WOk W0 := by
  refine ⟨by decide, ?_, ?_, by decide⟩
  · intro c hc
    simp only [W0]
    rw [if_pos (by simp; omega)]
  · intro c h1 h2
    simp only [W0]
    rw [if_pos (by simp; omega)]

/-- the hypotheses of `full_redraw_fresh` are satisfiable by a non-trivial screen: wide and combining
characters, colours, a wrapped line, an erase run with a background colour (kernel-evaluated; a test) -/
theorem full_redraw_fresh_nonvacuous :
    isOkTrue (do
      let p ← C02.run 3 4 0 [[0x1b, 0x5b, 0x33, 0x31, 0x3b, 0x34, 0x6d, 97, 0xCC, 0x81, 0xE4, 0xB8, 0x80, 98, 99, 100,
                              0x1b, 0x5b, 0x34, 0x32, 0x6d, 0x1b, 0x5b, 0x4b, 13]]
      let s := p.screen
      pure (emitInvB W0 s && s.cur.scrollbackOffset == 0 && decide (s.cur.pos.col < s.cur.size.cols) &&
            (s.cur.rows.any (·.wrapped)))) = true := by
  decide +kernel

/-- a receiver that shows `S` looks the same to every emitter (C19) -/
theorem screenSame_of_shows {q S : Screen} (h : Shows q S) (hm : C10.inputModes q = C10.inputModes S)
    (hoff : S.cur.scrollbackOffset = 0) : ScreenSame q S := by
  have hrows : ListRel RowSame q.cur.rows S.cur.rows := by
    have hl : q.cur.rows.length = S.cur.rows.length := by simpa using congrArg List.length h.views
    have key : ∀ (l1 l2 : List Row), l1.map (fun r => r.cells.map view) = l2.map (fun r => r.cells.map view) →
        l1.map (fun r => r.wrapped) = l2.map (fun r => r.wrapped) → ListRel RowSame l1 l2 := by
      intro l1
      induction l1 with
      | nil => intro l2 h1 _; cases l2 with | nil => trivial | cons _ _ => simp at h1
      | cons a l1 ih =>
        intro l2 h1 h2
        cases l2 with
        | nil => simp at h1
        | cons b l2 =>
          simp only [List.map_cons, List.cons.injEq] at h1 h2
          exact ⟨⟨h2.1, listRel_of_map_eq view h1.1⟩, ih l2 h1.2 h2.2⟩
    exact key _ _ h.views h.wrapped
  have hg : GridSame q.cur S.cur := ⟨h.size, h.cursor, hrows⟩
  simp only [C10.inputModes, C10.InputModes.mk.injEq] at hm
  exact ⟨hg, visSame_of_offset0 hg h.off hoff, h.hide, h.pen, hm⟩

/-- **C01, re-emission**: emitting from the reproduced screen gives byte-identical output -/
theorem reemit_identical {q S : Screen} (h : Shows q S) (hm : C10.inputModes q = C10.inputModes S)
    (hoff : S.cur.scrollbackOffset = 0) :
    q.contentsFormatted = S.contentsFormatted ∧ q.stateFormatted = S.stateFormatted :=
  ⟨contents_formatted_same (screenSame_of_shows h hm hoff), state_formatted_same (screenSame_of_shows h hm hoff)⟩

/-- **C01, complete statement on a new parser**: `obs` equality, no events, and byte-identical re-emission -/
theorem full_redraw_fresh_reemit (hW : WOk W) (S : Screen) (hinv : emitInvB W S = true) (hoff : S.cur.scrollbackOffset = 0)
    (hcur : S.cur.pos.col < S.cur.size.cols ∨
      (S.cur.pos.col = S.cur.size.cols ∧ ∀ h : S.cur.pos.row < S.cur.rows.length, lastOcc (S.cur.rows[S.cur.pos.row]).cells))
    (sb : Nat) :
    ∃ q bytes q', Parser.new S.cur.size.rows S.cur.size.cols sb = .ok q ∧ S.stateFormatted = .ok bytes ∧
      q.process W cb bytes = .ok q' ∧ obs q'.screen = obs S ∧ q'.ws.events = [] ∧
      q'.screen.stateFormatted = .ok bytes ∧ q'.screen.contentsFormatted = S.contentsFormatted := by
  have hS := srcScreen_of_inv hinv hoff hcur
  have hI : Inv W S := by
    simp only [emitInvB, invPlusB, Bool.and_eq_true] at hinv
    exact hinv.1.1.1.1.1
  obtain ⟨hcg, _⟩ := ((inv_iff W S).mp hI).cur
  obtain ⟨q, enew, hq, hqoff, hqsz, hm, he⟩ := new_recvOk W S.cur.size.rows S.cur.size.cols sb hcg.rows_pos hcg.cols_pos
    hcg.rows_u16 hcg.cols_u16
  obtain ⟨bytes, q', eb, ep, _, hsh, hmodes, hev⟩ := state_formatted_reproduces (cb := cb) hW hq hqoff hm he S hS
    (by rw [hqsz])
  obtain ⟨r1, r2⟩ := reemit_identical hsh hmodes hoff
  refine ⟨q, bytes, q', enew, eb, ep, shows_obs hsh hmodes hoff, ?_, by rw [r2]; exact eb, r1⟩
  rw [hev]
  simp only [Parser.new, C13.new_eq _ _ _ hcg.rows_pos, ok_bind, pure_eq_ok, Except.ok.injEq] at enew
  rw [← enew]

end Vt.C01
