/-
  C01 — a full redraw reproduces the screen: the assembled theorem.

  `contents_formatted_reproduces` / `state_formatted_reproduces`: for every source screen `S` that
  satisfies `Inv`, `Inv⁺` and `emitInv` (every reachable screen; evaluated on every visited state by the
  checks) and is not scrolled back — wherever its cursor is, all four branches of
  `write_cursor_position_formatted` included — and for every receiving parser that
  is ready, satisfies `Inv`, has the same size, the full screen as scroll region, origin mode off and is
  not scrolled back — a new parser, or one that has been fed other full redraws — processing the BYTES of
  `S.contents_formatted()` (resp. `S.state_formatted()`) through the vte and perform models leaves the
  receiver with the observable state of `S`: same cells, wrap flags, cursor, cursor visibility, pen
  (and input modes).
-/
import Vt.Props.C01cursor
namespace Vt.C01
open Vt Vt.Recv Vt.C19 Vt.C09 Vt.RowDraw Vt.GridDraw Vt.Tok Vt.C03
set_option linter.unusedSimpArgs false

variable {W : Nat → Option Nat} {cb : CbPolicy}

/-- the receiver shows the source: what `obs` compares, component by component (input modes apart) -/
structure Shows (q : Screen) (S : Screen) : Prop where
  size : q.cur.size = S.cur.size
  cells : q.cur.rows.map (fun r => r.cells.map cellObs) = S.cur.rows.map (fun r => r.cells.map cellObs)
  views : q.cur.rows.map (fun r => r.cells.map view) = S.cur.rows.map (fun r => r.cells.map view)
  wrapped : q.cur.rows.map (fun r => r.wrapped) = S.cur.rows.map (fun r => r.wrapped)
  cursor : q.cur.pos = S.cur.pos
  hide : q.hideCursor = S.hideCursor
  pen : q.attrs = S.attrs
  off : q.cur.scrollbackOffset = 0

theorem cellObs_of_view {a b : Cell} (h : view a = view b) : cellObs a = cellObs b := by
  simp only [view, View.mk.injEq] at h
  simp only [cellObs, CellObs.mk.injEq]
  exact ⟨h.2.2.2.2, h.2.1, h.2.2.1, h.2.2.2.1⟩

theorem cells_of_views {l1 l2 : List Cell} (h : l1.map view = l2.map view) : l1.map cellObs = l2.map cellObs := by
  apply List.ext_getElem?
  intro k
  have := congrArg (fun l => l[k]?) h
  simp only [List.getElem?_map] at this ⊢
  cases h1 : l1[k]? with
  | none =>
    rw [h1] at this
    cases h2 : l2[k]? with
    | none => rfl
    | some b => rw [h2] at this; simp at this
  | some a =>
    rw [h1] at this
    cases h2 : l2[k]? with
    | none => rw [h2] at this; simp at this
    | some b =>
      rw [h2] at this
      simp only [Option.map_some, Option.some.injEq] at this ⊢
      exact cellObs_of_view this

/-- from the loop invariant at the end to the list equalities `obs` compares -/
theorem rows_shown {srows : List Row} {cols : Nat} {pp : Pos} {R : RS}
    (h : RowsInv srows cols srows.length false pp R) :
    R.g.rows.map (fun r => r.cells.map cellObs) = srows.map (fun r => r.cells.map cellObs) ∧
    R.g.rows.map (fun r => r.wrapped) = srows.map (fun r => r.wrapped) ∧
    R.g.rows.map (fun r => r.cells.map view) = srows.map (fun r => r.cells.map view) := by
  have hl : R.g.rows.length = srows.length := by rw [h.canvas.alloc, h.nrows]
  refine ⟨?_, ?_, ?_⟩
  rotate_left 2
  · apply List.ext_getElem?
    intro k
    simp only [List.getElem?_map]
    by_cases hk : k < srows.length
    · obtain ⟨Rk, hRk, hd, _⟩ := h.row k hk
      obtain ⟨hv, _, _⟩ := hd hk
      rw [hRk, List.getElem?_eq_getElem hk]
      simp only [Option.map_some, Option.some.injEq]
      exact hv
    · rw [List.getElem?_eq_none (by omega), List.getElem?_eq_none (by omega)]
  · apply List.ext_getElem?
    intro k
    simp only [List.getElem?_map]
    by_cases hk : k < srows.length
    · obtain ⟨Rk, hRk, hd, _⟩ := h.row k hk
      obtain ⟨hv, _, _⟩ := hd hk
      rw [hRk, List.getElem?_eq_getElem hk]
      simp only [Option.map_some, Option.some.injEq]
      exact cells_of_views hv
    · rw [List.getElem?_eq_none (by omega), List.getElem?_eq_none (by omega)]
  · apply List.ext_getElem?
    intro k
    simp only [List.getElem?_map]
    by_cases hk : k < srows.length
    · obtain ⟨Rk, hRk, hd, _⟩ := h.row k hk
      obtain ⟨_, _, hw⟩ := hd hk
      rw [hRk, List.getElem?_eq_getElem hk]
      simp only [Option.map_some, Option.some.injEq]
      rw [hw]; simp
    · rw [List.getElem?_eq_none (by omega), List.getElem?_eq_none (by omega)]

/-- what is assumed of the source screen (all of it follows from `Inv`, `Inv⁺`, `emitInv`, scrollback offset 0;
`cursor_inside` excludes the pending-wrap cursor position) -/
structure SrcScreen (W : Nat → Option Nat) (S : Screen) : Prop where
  off : S.cur.scrollbackOffset = 0
  rows : SrcRows W S.cur.size.cols S.cur.rows
  alloc : S.cur.rows.length = S.cur.size.rows
  cur_row : S.cur.pos.row < S.cur.size.rows
  cur_col : S.cur.pos.col ≤ S.cur.size.cols
  pen_wf : Attrs.wf S.attrs

theorem rsOf_hide (ws : WS) (b : Bool) :
    rsOf ({ ws with screen := { ws.screen with hideCursor := b } } : WS) = rsOf ws := by
  simp only [rsOf, Screen.cur]

/-- the receiver's active grid is a canvas on which exactly the lines of `S` are drawn, cursor included: the
invariant a diff against `S` can start from (C02) -/
def DrawnAs (q : Parser) (S : Screen) : Prop :=
  RowsInv S.cur.rows S.cur.size.cols S.cur.rows.length false S.cur.pos (rsOf q.ws)

/-- **C01, `contents_formatted`**: processing the bytes of `S.contents_formatted()` on any receiver that is
ready, whose active grid is a canvas of the same size and is not scrolled back, leaves the receiver
showing `S` — cells, wrap flags, cursor, cursor visibility, pen — whatever it showed before -/
theorem contents_formatted_reproduces (hW : WOk W) {q : Parser} (hq : RecvOk W q)
    (hqoff : (rsOf q.ws).g.scrollbackOffset = 0) (S : Screen) (hS : SrcScreen W S)
    (hsz : S.cur.size = (rsOf q.ws).g.size) :
    ∃ bytes q', S.contentsFormatted = .ok bytes ∧ q.process W cb bytes = .ok q' ∧ Ready q' ∧
      Shows q'.screen S ∧ q'.ws.events = q.ws.events ∧
      C10.inputModes q'.screen = C10.inputModes q.screen ∧ DrawnAs q' S := by
  -- cursor visibility
  obtain ⟨q1, e1, w1, r1⟩ := C10.process_hideCursor W cb q S.hideCursor hq.ready
  have hrs1 : rsOf q1.ws = rsOf q.ws := by rw [w1]; exact rsOf_hide _ _
  have hq1 : RecvOk W q1 := ⟨r1, by rw [hrs1]; exact hq.canvas, by rw [hrs1]; exact hq.rows_ok⟩
  -- the grid
  obtain ⟨gb, pa, eg, Rf, hemf, hpenf, hinvf, hofff⟩ : ∃ bytes pa, S.cur.writeContentsFormatted = .ok (bytes, pa) ∧
      ∃ Rf, Emitted W cb q1 bytes Rf ∧ Rf.pen = pa ∧
        RowsInv S.cur.rows S.cur.size.cols S.cur.rows.length false S.cur.pos Rf ∧
        Rf.g.scrollbackOffset = (rsOf q1.ws).g.scrollbackOffset := by
    exact grid_formatted_reproduces_any (cb := cb) hW hq1 S.cur hS.off (by rw [hrs1]; exact hsz) hS.rows hS.alloc
      hS.cur_row hS.cur_col
  -- the pen
  have hem2 := emitted_step W cb r1 hemf (step_pen W cb S.attrs pa hS.pen_wf)
    (r' := { Rf with pen := S.attrs }) (by simp [hpenf])
  obtain ⟨q2, e2, w2, r2⟩ := hem2
  have hcar : (q.vte.advance (Term.hideCursor S.hideCursor)).1.carry = [] := by
    rw [← process_vte W cb e1]; exact r1.2
  refine ⟨Term.hideCursor S.hideCursor ++ gb ++ S.attrs.writeEscapeCodeDiff pa, q2, ?_, ?_, r2, ?_, ?_, ?_, ?_⟩
  rotate_right
  · -- the drawn canvas
    show RowsInv _ _ _ false _ (rsOf q2.ws)
    rw [w2, rsOf_withRS]
    have := rowsInv_frame hinvf { Rf with pen := S.attrs } rfl rfl rfl rfl rfl
    rw [show ({ Rf with pen := S.attrs } : RS).g.pos = S.cur.pos from hinvf.pos] at this
    exact this
  · simp only [Screen.contentsFormatted, Screen.writeContentsFormatted, eg, ok_bind, pure_eq_ok]
  · rw [List.append_assoc, C04.process_append W cb q _ _ hq.ready.2 hcar, e1]
    exact e2
  · have hcur : q2.screen.cur = Rf.g := by
      show q2.ws.screen.cur = Rf.g
      rw [w2]
      have := rsOf_withRS q1.ws { Rf with pen := S.attrs }
      simp only [rsOf, RS.mk.injEq] at this
      exact this.1
    obtain ⟨hc, hwr, hvw⟩ := rows_shown hinvf
    refine ⟨?_, ?_, by rw [hcur]; exact hvw, ?_, ?_, ?_, ?_, ?_⟩
    · rw [hcur]
      have h1 := hinvf.hcols
      have h2 := hinvf.nrows
      rw [hS.alloc] at h2
      cases hsg : Rf.g.size; cases hss : S.cur.size
      simp only [hsg, hss] at h1 h2 ⊢
      rw [h1, h2]
    · rw [hcur]; exact hc
    · rw [hcur]; exact hwr
    · rw [hcur]; exact hinvf.pos
    · show q2.ws.screen.hideCursor = S.hideCursor
      rw [w2, w1]
      simp only [withRS, Screen.setCur]
      split <;> rfl
    · show q2.ws.screen.attrs = S.attrs
      rw [w2]; rfl
    · rw [hcur, hofff, hrs1]; exact hqoff
  · show q2.ws.events = q.ws.events
    rw [w2, w1]; rfl
  · show C10.inputModes q2.ws.screen = C10.inputModes q.ws.screen
    rw [w2, w1]
    simp only [C10.inputModes, withRS, Screen.setCur]
    split <;> rfl

/-- **C01, `state_formatted`**: the same, plus the five input modes, on a receiver whose mouse mode and
encoding are at their defaults (a new parser) -/
theorem state_formatted_reproduces (hW : WOk W) {q : Parser} (hq : RecvOk W q)
    (hqoff : (rsOf q.ws).g.scrollbackOffset = 0) (hm : q.screen.mouseMode = .none) (he : q.screen.mouseEnc = .default)
    (S : Screen) (hS : SrcScreen W S) (hsz : S.cur.size = (rsOf q.ws).g.size) :
    ∃ bytes q', S.stateFormatted = .ok bytes ∧ q.process W cb bytes = .ok q' ∧ Ready q' ∧
      Shows q'.screen S ∧ C10.inputModes q'.screen = C10.inputModes S ∧ q'.ws.events = q.ws.events ∧
      DrawnAs q' S := by
  obtain ⟨cbytes, q1, ec, e1, r1, hsh, hev, hmodes, hdr⟩ := contents_formatted_reproduces (cb := cb) hW hq hqoff S hS hsz
  have hm1 : q1.ws.screen.mouseMode = .none := by
    have := congrArg C10.InputModes.mouseMode hmodes; exact this.trans hm
  have he1 : q1.ws.screen.mouseEnc = .default := by
    have := congrArg C10.InputModes.mouseEnc hmodes; exact this.trans he
  obtain ⟨q2, e2, w2, r2⟩ := C10.process_input_mode_formatted W cb q1 S r1 hm1 he1
  have hcar : (q.vte.advance cbytes).1.carry = [] := by rw [← process_vte W cb e1]; exact r1.2
  have ec' : S.writeContentsFormatted = .ok cbytes := ec
  refine ⟨cbytes ++ S.inputModeFormatted, q2, ?_, ?_, r2, ?_, ?_, ?_, ?_⟩
  rotate_right
  · show RowsInv _ _ _ false _ (rsOf q2.ws)
    have : rsOf q2.ws = rsOf q1.ws := by rw [w2]; rfl
    rw [this]; exact hdr
  · simp only [Screen.stateFormatted, ec', ok_bind, pure_eq_ok, Screen.inputModeFormatted]
  · rw [C04.process_append W cb q _ _ hq.ready.2 hcar, e1]; exact e2
  · have hs : q2.screen = C10.setInputModes q1.screen (C10.inputModes S) := by
      show q2.ws.screen = _; rw [w2]; rfl
    have hcur : q2.screen.cur = q1.screen.cur := by rw [hs]; rfl
    exact ⟨by rw [hcur]; exact hsh.size, by rw [hcur]; exact hsh.cells, by rw [hcur]; exact hsh.views,
      by rw [hcur]; exact hsh.wrapped,
      by rw [hcur]; exact hsh.cursor, by rw [hs]; exact hsh.hide, by rw [hs]; exact hsh.pen,
      by rw [hcur]; exact hsh.off⟩
  · show C10.inputModes q2.ws.screen = _
    rw [w2]; rfl
  · show q2.ws.events = _
    rw [w2]; exact hev

/-- what `obs` computes when the view is not scrolled back -/
theorem obs_offset0 (s : Screen) (h : s.cur.scrollbackOffset = 0) :
    obs s = .ok { size := s.cur.size, cells := s.cur.rows.map (fun r => r.cells.map cellObs),
                  wrapped := s.cur.rows.map (fun r => r.wrapped), cursor := s.cur.pos, hide := s.hideCursor,
                  pen := s.attrs,
                  modes := (s.appKeypad, s.appCursor, s.bracketedPaste, s.mouseMode, s.mouseEnc) } := by
  simp [obs, C19.visibleRows_offset0 _ h]

/-- **C01 in terms of `obs`**: after `state_formatted` the receiver's observable state IS the source's -/
theorem shows_obs {q S : Screen} (h : Shows q S) (hm : C10.inputModes q = C10.inputModes S)
    (hoff : S.cur.scrollbackOffset = 0) : obs q = obs S := by
  rw [obs_offset0 q h.off, obs_offset0 S hoff]
  simp only [C10.inputModes, C10.InputModes.mk.injEq] at hm
  obtain ⟨m1, m2, m3, m4, m5⟩ := hm
  rw [h.size, h.cells, h.wrapped, h.cursor, h.hide, h.pen, m1, m2, m3, m4, m5]

/-- a new parser is a valid receiver -/
theorem new_recvOk (W : Nat → Option Nat) (rows cols sb : Nat) (hr : 1 ≤ rows) (hc : 1 ≤ cols) (hr' : rows ≤ 65535)
    (hc' : cols ≤ 65535) :
    ∃ q, Parser.new rows cols sb = .ok q ∧ RecvOk W q ∧ (rsOf q.ws).g.scrollbackOffset = 0 ∧
      (rsOf q.ws).g.size = ⟨rows, cols⟩ ∧ q.screen.mouseMode = .none ∧ q.screen.mouseEnc = .default := by
  obtain ⟨hnew, hinv⟩ := C13.inv_new W rows cols sb hr hc hr' hc'
  refine ⟨{ vte := Vte.new, ws := { screen := C13.newScreen rows cols sb, events := [] } }, by simp [Parser.new, hnew],
    ⟨⟨rfl, rfl⟩, ?_, ?_⟩, rfl, rfl, rfl, rfl⟩
  · refine ⟨hr, hc, hr', hc', rfl, rfl, rfl, by simp [rsOf, Screen.cur, C13.newScreen, C13.newGrid], ?_⟩
    intro r hr0
    simp only [rsOf, Screen.cur, C13.newScreen, C13.newGrid, Bool.false_eq_true, ↓reduceIte, List.mem_replicate] at hr0
    rw [hr0.2]; simp [Row.new, rsOf, Screen.cur, C13.newScreen, C13.newGrid]
  · intro r hr0
    have hg := ((inv_iff W _).mp hinv).grid
    exact (hg.row_ok r hr0).2

/-! ### the hypotheses follow from the Boolean invariants the checks evaluate on every visited state -/

theorem srcOk_of {cols : Nat} {r : Row} (hok : rowOk W r = true) (hlen : r.cells.length = cols)
    (hem : rowEmitOk W cols r = true) (hpl : rowPlusOk r = true) : SrcOk W r.cells := by
  obtain ⟨_, hci⟩ := (rowOk_iff W r).mp hok
  refine ⟨hci.cells_ok, hci.paired, ?_, ?_⟩
  · intro j hj
    simp only [rowEmitOk, List.all_eq_true] at hem
    have := hem (r.cells[j], j) (by
      rw [List.mem_zipIdx_iff_getElem?]; simp [List.getElem?_eq_getElem hj])
    rw [hlen]; exact this
  · intro c hc hcont
    simp only [rowPlusOk, Bool.and_eq_true, List.all_eq_true, Bool.or_eq_true, Bool.not_eq_true', beq_iff_eq] at hpl
    rcases hpl.2 c hc with h | h
    · rw [hcont] at h; simp at h
    · exact h

theorem lastOcc_of {r : Row} (hpl : rowPlusOk r = true) (hw : r.wrapped = true) : lastOcc r.cells := by
  simp only [rowPlusOk, Bool.and_eq_true, Bool.or_eq_true, Bool.not_eq_true'] at hpl
  rcases hpl.1 with h | h
  · rw [hw] at h; simp at h
  · simp only [lastColOccupied] at h
    cases hl : r.cells.getLast? with
    | none => rw [hl] at h; simp at h
    | some c =>
      rw [hl] at h
      have hne : r.cells ≠ [] := by intro hn; simp [hn] at hl
      have hpos : 0 < r.cells.length := List.length_pos_iff.mpr hne
      refine ⟨hpos, ?_⟩
      have : r.cells[r.cells.length - 1] = c := by
        rw [List.getLast?_eq_getElem?, List.getElem?_eq_getElem (by omega)] at hl
        exact Option.some.inj hl
      rw [this]
      simpa using h

theorem srcRows_of {g : Grid} {un : Bool} (hg : GridInv W g un) (hpl : gridPlusOk g = true)
    (hem : gridEmitOk W g = true) : SrcRows W g.size.cols g.rows := by
  simp only [gridPlusOk, Bool.and_eq_true, List.all_eq_true] at hpl
  simp only [gridEmitOk, List.all_eq_true] at hem
  refine ⟨fun r hr => (hg.row_ok r hr).1, fun r hr => srcOk_of (hg.row_ok r hr).2 (hg.row_ok r hr).1 (hem r hr) (hpl.1.1 r hr),
    fun r hr hw => lastOcc_of (hpl.1.1 r hr) hw, ?_⟩
  intro r hr
  have := hpl.2
  rw [hr] at this
  simpa using this

/-- **every screen that satisfies the Boolean invariants and is not scrolled back is a valid source** -/
theorem srcScreen_of_inv {S : Screen} (hinv : emitInvB W S = true) (hoff : S.cur.scrollbackOffset = 0) :
    SrcScreen W S := by
  simp only [emitInvB, invPlusB, Bool.and_eq_true] at hinv
  obtain ⟨⟨⟨⟨⟨hI, hp1⟩, hp2⟩, he1⟩, he2⟩, ha⟩ := hinv
  have hsi := (inv_iff W S).mp hI
  obtain ⟨hcg, hal⟩ := hsi.cur
  have hrows : SrcRows W S.cur.size.cols S.cur.rows := by
    unfold Screen.cur
    cases hs : S.altScreen
    · simpa using srcRows_of hsi.grid hp1 he1
    · simpa using srcRows_of hsi.alt hp2 he2
  exact ⟨hoff, hrows, hal, hcg.pos_row, hcg.pos_col, attrs_wf_of_ok ha⟩

/-- **C01**: for every screen `S` satisfying `Inv`, `Inv⁺`, `emitInv`, not scrolled back,
feeding the bytes of `S.state_formatted()` to a NEW parser of the same size (any scrollback capacity) yields a
screen whose observable state equals `S`'s — cells, wide/continuation flags, colours and attributes, wrap
flags, cursor, cursor visibility, pen, input modes — and reports no event -/
theorem full_redraw_fresh (hW : WOk W) (S : Screen) (hinv : emitInvB W S = true) (hoff : S.cur.scrollbackOffset = 0)
    (sb : Nat) :
    ∃ q bytes q', Parser.new S.cur.size.rows S.cur.size.cols sb = .ok q ∧ S.stateFormatted = .ok bytes ∧
      q.process W cb bytes = .ok q' ∧ obs q'.screen = obs S ∧ q'.ws.events = [] := by
  have hS := srcScreen_of_inv hinv hoff
  have hI : Inv W S := by
    simp only [emitInvB, invPlusB, Bool.and_eq_true] at hinv
    exact hinv.1.1.1.1.1
  obtain ⟨hcg, _⟩ := ((inv_iff W S).mp hI).cur
  obtain ⟨q, enew, hq, hqoff, hqsz, hm, he⟩ := new_recvOk W S.cur.size.rows S.cur.size.cols sb hcg.rows_pos hcg.cols_pos
    hcg.rows_u16 hcg.cols_u16
  obtain ⟨bytes, q', eb, ep, _, hsh, hmodes, hev, _⟩ := state_formatted_reproduces (cb := cb) hW hq hqoff hm he S hS
    (by rw [hqsz])
  refine ⟨q, bytes, q', enew, eb, ep, shows_obs hsh hmodes hoff, ?_⟩
  rw [hev]
  simp only [Parser.new, C13.new_eq _ _ _ hcg.rows_pos, ok_bind, pure_eq_ok, Except.ok.injEq] at enew
  rw [← enew]

/-- the kernel-evaluation width function satisfies the assumptions -/
theorem wOk_W0 : WOk W0 := by
  refine ⟨by decide, ?_, ?_, by decide⟩
  · intro c hc
    simp only [W0]
    rw [if_pos (by simp; omega)]
  · intro c h1 h2
    simp only [W0]
    rw [if_pos (by simp; omega)]

/-- the hypotheses of `full_redraw_fresh` are satisfiable by a non-trivial screen: wide and combining
characters, colours, a wrapped line, an erase run with a background colour (kernel-evaluated; a test) -/
theorem full_redraw_fresh_nonvacuous :
    isOkTrue (do
      let p ← C02.run 3 4 0 [[0x1b, 0x5b, 0x33, 0x31, 0x3b, 0x34, 0x6d, 97, 0xCC, 0x81, 0xE4, 0xB8, 0x80, 98, 99, 100,
                              0x1b, 0x5b, 0x34, 0x32, 0x6d, 0x1b, 0x5b, 0x4b, 13]]
      let s := p.screen
      pure (emitInvB W0 s && s.cur.scrollbackOffset == 0 && decide (s.cur.pos.col < s.cur.size.cols) &&
            (s.cur.rows.any (·.wrapped)))) = true := by
  decide +kernel

/-- ... and by screens whose cursor is in the pending-wrap column of a line whose last column is empty:
"abc" `ESC[1K` on the first line (branch (c): nothing above), and "abc" CR LF "def" `ESC[1K` (branch (b): the
line above ends occupied).  Kernel-evaluated; tests -/
theorem full_redraw_fresh_nonvacuous_pw :
    isOkTrue (do
      let p ← C02.run 2 3 0 [[97, 98, 99, 0x1b, 0x5b, 0x31, 0x4b]]
      let p' ← C02.run 2 3 0 [[97, 98, 99, 13, 10, 100, 101, 102, 0x1b, 0x5b, 0x31, 0x4b]]
      let s := p.screen
      let s' := p'.screen
      pure (emitInvB W0 s && s.cur.scrollbackOffset == 0 && s.cur.pos == ⟨0, 3⟩ &&
            !(s.cur.rows.any (fun r => r.cells.any (·.hasContents))) &&
            emitInvB W0 s' && s'.cur.scrollbackOffset == 0 && s'.cur.pos == ⟨1, 3⟩)) = true := by
  decide +kernel

/-- a receiver that shows `S` looks the same to every emitter (C19) -/
theorem screenSame_of_shows {q S : Screen} (h : Shows q S) (hm : C10.inputModes q = C10.inputModes S)
    (hoff : S.cur.scrollbackOffset = 0) : ScreenSame q S := by
  have hrows : ListRel RowSame q.cur.rows S.cur.rows := by
    have hl : q.cur.rows.length = S.cur.rows.length := by simpa using congrArg List.length h.views
    have key : ∀ (l1 l2 : List Row), l1.map (fun r => r.cells.map view) = l2.map (fun r => r.cells.map view) →
        l1.map (fun r => r.wrapped) = l2.map (fun r => r.wrapped) → ListRel RowSame l1 l2 := by
      intro l1
      induction l1 with
      | nil => intro l2 h1 _; cases l2 with | nil => trivial | cons _ _ => simp at h1
      | cons a l1 ih =>
        intro l2 h1 h2
        cases l2 with
        | nil => simp at h1
        | cons b l2 =>
          simp only [List.map_cons, List.cons.injEq] at h1 h2
          exact ⟨⟨h2.1, listRel_of_map_eq view h1.1⟩, ih l2 h1.2 h2.2⟩
    exact key _ _ h.views h.wrapped
  have hg : GridSame q.cur S.cur := ⟨h.size, h.cursor, hrows⟩
  simp only [C10.inputModes, C10.InputModes.mk.injEq] at hm
  exact ⟨hg, visSame_of_offset0 hg h.off hoff, h.hide, h.pen, hm⟩

/-- **C01, re-emission**: emitting from the reproduced screen gives byte-identical output -/
theorem reemit_identical {q S : Screen} (h : Shows q S) (hm : C10.inputModes q = C10.inputModes S)
    (hoff : S.cur.scrollbackOffset = 0) :
    q.contentsFormatted = S.contentsFormatted ∧ q.stateFormatted = S.stateFormatted :=
  ⟨contents_formatted_same (screenSame_of_shows h hm hoff), state_formatted_same (screenSame_of_shows h hm hoff)⟩

/-- **C01, complete statement on a new parser**: `obs` equality, no events, and byte-identical re-emission -/
theorem full_redraw_fresh_reemit (hW : WOk W) (S : Screen) (hinv : emitInvB W S = true) (hoff : S.cur.scrollbackOffset = 0)
    (sb : Nat) :
    ∃ q bytes q', Parser.new S.cur.size.rows S.cur.size.cols sb = .ok q ∧ S.stateFormatted = .ok bytes ∧
      q.process W cb bytes = .ok q' ∧ obs q'.screen = obs S ∧ q'.ws.events = [] ∧
      q'.screen.stateFormatted = .ok bytes ∧ q'.screen.contentsFormatted = S.contentsFormatted := by
  have hS := srcScreen_of_inv hinv hoff
  have hI : Inv W S := by
    simp only [emitInvB, invPlusB, Bool.and_eq_true] at hinv
    exact hinv.1.1.1.1.1
  obtain ⟨hcg, _⟩ := ((inv_iff W S).mp hI).cur
  obtain ⟨q, enew, hq, hqoff, hqsz, hm, he⟩ := new_recvOk W S.cur.size.rows S.cur.size.cols sb hcg.rows_pos hcg.cols_pos
    hcg.rows_u16 hcg.cols_u16
  obtain ⟨bytes, q', eb, ep, _, hsh, hmodes, hev, _⟩ := state_formatted_reproduces (cb := cb) hW hq hqoff hm he S hS
    (by rw [hqsz])
  obtain ⟨r1, r2⟩ := reemit_identical hsh hmodes hoff
  refine ⟨q, bytes, q', enew, eb, ep, shows_obs hsh hmodes hoff, ?_, by rw [r2]; exact eb, r1⟩
  rw [hev]
  simp only [Parser.new, C13.new_eq _ _ _ hcg.rows_pos, ok_bind, pure_eq_ok, Except.ok.injEq] at enew
  rw [← enew]

end Vt.C01
