/-
  C04 (continued) — chunk independence of `vte::Parser::advance` for every split that leaves no
  partial UTF-8 sequence pending.

  `advance_append` : if the carry buffer is empty before `a` and after `a` (i.e. the cut does not fall
  inside a multi-byte character at the end of a run of text), then feeding `a ++ b` in one call gives
  exactly the state and the action list of feeding `a`, then `b` — for every automaton state, every
  byte string (valid, invalid or truncated UTF-8 elsewhere, escape sequences cut anywhere, OSC / DCS
  strings cut anywhere).
  The excluded case — a cut inside a multi-byte character in Ground — is where vte 0.14.1's
  `advance_partial_utf8` loses characters (known finding F10, `F10_witness`).
-/
import Vt.Props.C04
import Vt.Lemmas.Utf8
namespace Vt.C04
open Vt
set_option linter.unusedSimpArgs false
set_option maxRecDepth 4096

/-! ### facts about `from_utf8` errors -/

open Utf8 in
/-- an invalid sequence is reported with a length of 1..3 that lies inside the input -/
theorem err_len_bounds (a : List Nat) (len : Nat) (h : (fromUtf8 a).err = some (some len)) :
    1 ≤ len ∧ (fromUtf8 a).validUpTo + len ≤ a.length := by
  fun_induction fromUtf8 a
  all_goals first
    | (simp [Res.stop] at h; done)
    | (simp only [Res.stop, Option.some.injEq] at h; subst h; simp [Res.stop]; done)
    | skip
  all_goals
    rename_i ih
    have := ih (by simpa [Res.cons] using h)
    simp only [Res.cons, List.length_cons]
    omega

open Utf8 in
/-- an unexpected end of input leaves at least one byte unconsumed -/
theorem err_incomplete_lt (a : List Nat) (h : (fromUtf8 a).err = some none) :
    (fromUtf8 a).validUpTo < a.length := by
  fun_induction fromUtf8 a
  all_goals first
    | (simp [Res.stop] at h; done)
    | (simp [Res.stop]; done)
    | skip
  all_goals
    rename_i ih
    have := ih (by simpa [Res.cons] using h)
    simp only [Res.cons, List.length_cons]
    omega

open Utf8 in
/-- an invalid sequence is invalid whatever follows: the result does not change when bytes are appended -/
theorem err_stable (a b : List Nat) (len : Nat) (h : (fromUtf8 a).err = some (some len)) :
    fromUtf8 (a ++ b) = fromUtf8 a := by
  fun_induction fromUtf8 a
  all_goals first
    | (simp [Res.stop] at h; done)
    | skip
  all_goals first
    | (rename_i ih
       have h' := ih (by simpa [Res.cons] using h)
       simp only [List.cons_append]
       conv => lhs; rw [fromUtf8.eq_def]
       simp [*]
       done)
    | (simp only [List.cons_append]
       conv => lhs; rw [fromUtf8.eq_def]
       simp [*]
       done)

/-! ### the carry buffer is only touched by the Ground text path -/

@[simp] theorem carry_resetParams (v : Vte) : v.resetParams.carry = v.carry := rfl
@[simp] theorem carry_collect (v : Vte) (b : Nat) : (v.actionCollect b).carry = v.carry := by
  unfold Vte.actionCollect; split <;> rfl
@[simp] theorem carry_subparam (v : Vte) : v.actionSubparam.carry = v.carry := by
  unfold Vte.actionSubparam; split <;> rfl
@[simp] theorem carry_param (v : Vte) : v.actionParam.carry = v.carry := by
  unfold Vte.actionParam; split <;> rfl
@[simp] theorem carry_paramnext (v : Vte) (b : Nat) : (v.actionParamnext b).carry = v.carry := by
  unfold Vte.actionParamnext; split <;> rfl
@[simp] theorem carry_finish (v : Vte) : v.finishParams.carry = v.carry := by
  unfold Vte.finishParams; split <;> rfl
@[simp] theorem carry_csiDispatch (v : Vte) (b : Nat) : (v.actionCsiDispatch b).1.carry = v.carry := by
  simp [Vte.actionCsiDispatch]
@[simp] theorem carry_hook (v : Vte) (b : Nat) : (v.actionHook b).1.carry = v.carry := by
  simp [Vte.actionHook]
@[simp] theorem carry_escDispatch (v : Vte) (b : Nat) : (v.escDispatch b).1.carry = v.carry := rfl
@[simp] theorem carry_oscPutParam (v : Vte) : v.actionOscPutParam.carry = v.carry := by
  unfold Vte.actionOscPutParam; split
  · rfl
  · split <;> rfl
@[simp] theorem carry_oscPut (v : Vte) (b : Nat) : (v.actionOscPut b).carry = v.carry := by
  unfold Vte.actionOscPut; split <;> rfl
@[simp] theorem carry_oscEnd (v : Vte) (b : Nat) : (v.oscEnd b).1.carry = v.carry := by
  simp [Vte.oscEnd]
@[simp] theorem carry_anywhere (v : Vte) (b : Nat) : (v.anywhere b).1.carry = v.carry := by
  unfold Vte.anywhere; split
  · rfl
  · split <;> rfl

theorem ite_carry {c : Prop} [Decidable c] {x y : Vte × List Action} {k : List Nat}
    (hx : x.1.carry = k) (hy : y.1.carry = k) : (if c then x else y).1.carry = k := by
  split <;> assumption

theorem carry_oscString (v : Vte) (b : Nat) : (v.advanceOscString b).1.carry = v.carry := by
  unfold Vte.advanceOscString
  repeat' apply ite_carry
  all_goals first | rfl | simp

/-- outside Ground a byte never touches the carry buffer -/
theorem changeState_carry (v : Vte) (b : Nat) : (v.changeState b).1.carry = v.carry := by
  unfold Vte.changeState
  split
  all_goals first
    | rfl
    | exact carry_anywhere v b
    | exact carry_oscString v b
    | (simp only [Vte.advanceCsiEntry, Vte.advanceCsiIgnore, Vte.advanceCsiIntermediate, Vte.advanceCsiParam,
        Vte.advanceDcsEntry, Vte.advanceDcsIntermediate, Vte.advanceDcsParam, Vte.advanceDcsPassthrough,
        Vte.advanceEsc, Vte.advanceEscIntermediate]
       repeat' apply ite_carry
       all_goals first | rfl | simp)

/-! ### the loop -/

/-- one iteration in `Ground` -/
theorem advanceLoop_ground_cons (fuel : Nat) (v : Vte) (b : Nat) (rest : List Nat) (h : v.state = .ground) :
    Vte.advanceLoop (fuel + 1) v (b :: rest) =
      ((Vte.advanceLoop fuel (v.advanceGround (b :: rest)).1 ((b :: rest).drop (v.advanceGround (b :: rest)).2.2)).1,
       (v.advanceGround (b :: rest)).2.1 ++
         (Vte.advanceLoop fuel (v.advanceGround (b :: rest)).1 ((b :: rest).drop (v.advanceGround (b :: rest)).2.2)).2) := by
  simp only [Vte.advanceLoop, h]

theorem findIdx_pos_of_ne {l : List Nat} (h : (l.findIdx (· == 0x1B) == 0) = false) : 1 ≤ l.findIdx (· == 0x1B) := by
  have : l.findIdx (· == 0x1B) ≠ 0 := by simpa using h
  omega

/-- every Ground iteration consumes at least one byte -/
theorem ground_n_pos (v : Vte) (bytes : List Nat) (hne : bytes ≠ []) : 1 ≤ (v.advanceGround bytes).2.2 := by
  unfold Vte.advanceGround
  simp only
  by_cases h0 : (bytes.findIdx (· == 0x1B) == 0) = true
  · simp [h0]
  · have h0' : (bytes.findIdx (· == 0x1B) == 0) = false := by simpa using h0
    have hp := findIdx_pos_of_ne h0'
    simp only [h0', Bool.false_eq_true, ↓reduceIte]
    cases he : (Utf8.fromUtf8 (bytes.take (bytes.findIdx (· == 0x1B)))).err with
    | none => simp only; split <;> simp <;> omega
    | some e =>
      cases e with
      | some len =>
        have := (err_len_bounds _ len he).1
        simp only; omega
      | none =>
        simp only; split
        · simp
        · simp only
          cases bytes with
          | nil => exact absurd rfl hne
          | cons x xs => simp

/-- the fuel does not matter once it exceeds the number of bytes -/
theorem advanceLoop_fuel : ∀ (fuel fuel' : Nat) (v : Vte) (bytes : List Nat),
    bytes.length < fuel → bytes.length < fuel' →
    Vte.advanceLoop fuel v bytes = Vte.advanceLoop fuel' v bytes
  | 0, _, _, _, h, _ => absurd h (Nat.not_lt_zero _)
  | _ + 1, 0, _, _, _, h => absurd h (Nat.not_lt_zero _)
  | fuel + 1, fuel' + 1, v, [], _, _ => by simp [Vte.advanceLoop]
  | fuel + 1, fuel' + 1, v, b :: rest, h, h' => by
    by_cases hg : v.state = .ground
    · rw [advanceLoop_ground_cons fuel v b rest hg, advanceLoop_ground_cons fuel' v b rest hg]
      have hn := ground_n_pos v (b :: rest) (by simp)
      have hl : ((b :: rest).drop (v.advanceGround (b :: rest)).2.2).length < fuel := by
        simp only [List.length_drop, List.length_cons] at h ⊢; omega
      have hl' : ((b :: rest).drop (v.advanceGround (b :: rest)).2.2).length < fuel' := by
        simp only [List.length_drop, List.length_cons] at h' ⊢; omega
      rw [advanceLoop_fuel fuel fuel' _ _ hl hl']
    · rw [advanceLoop_nonground_cons fuel v b rest hg, advanceLoop_nonground_cons fuel' v b rest hg]
      have hl : rest.length < fuel := by simp only [List.length_cons] at h; omega
      have hl' : rest.length < fuel' := by simp only [List.length_cons] at h'; omega
      rw [advanceLoop_fuel fuel fuel' _ _ hl hl']

/-! ### one Ground iteration on `a ++ b` -/


theorem getD_append_left (a b : List Nat) (i : Nat) (h : i < a.length) : (a ++ b).getD i 0 = a.getD i 0 := by
  simp [List.getD, List.getElem?_append_left h]

/-- (A) the text run ends at an ESC inside `a`: what follows `a` is not looked at -/
theorem ground_esc_in_a (v : Vte) (a b : List Nat) (hP : a.findIdx (· == 0x1B) < a.length) :
    v.advanceGround (a ++ b) = v.advanceGround a := by
  have hfi : (a ++ b).findIdx (· == 0x1B) = a.findIdx (· == 0x1B) := by
    rw [List.findIdx_append]; simp [hP]
  have htake : (a ++ b).take (a.findIdx (· == 0x1B)) = a.take (a.findIdx (· == 0x1B)) :=
    List.take_append_of_le_length (Nat.le_of_lt hP)
  unfold Vte.advanceGround
  simp only [hfi, htake, List.length_append]
  by_cases h0 : (a.findIdx (· == 0x1B) == 0) = true
  · simp only [h0, ↓reduceIte]
  · simp only [h0, Bool.false_eq_true, ↓reduceIte]
    cases he : (Utf8.fromUtf8 (a.take (a.findIdx (· == 0x1B)))).err with
    | none =>
      simp only [hP, show a.findIdx (· == 0x1B) < a.length + b.length by omega, ↓reduceIte]
    | some e =>
      cases e with
      | some len =>
        have hb := (err_len_bounds _ len he).2
        have hlen := (err_len_bounds _ len he).1
        simp only [List.length_take] at hb
        simp only
        rw [getD_append_left a b _ (by omega)]
      | none =>
        simp only [hP, show a.findIdx (· == 0x1B) < a.length + b.length by omega, ↓reduceIte]

/-- (B1) no ESC in `a`, and `a` contains a definitely invalid sequence: the iteration stops there -/
theorem ground_invalid_in_a (v : Vte) (a b : List Nat) (hne : a ≠ []) (hP : a.findIdx (· == 0x1B) = a.length) (len : Nat)
    (he : (Utf8.fromUtf8 a).err = some (some len)) :
    v.advanceGround (a ++ b) = v.advanceGround a := by
  have hb := (err_len_bounds a len he).2
  have hlen := (err_len_bounds a len he).1
  have hl : 1 ≤ a.length := by cases a with | nil => exact absurd rfl hne | cons _ _ => simp
  have hfi : (a ++ b).findIdx (· == 0x1B) = a.length + b.findIdx (· == 0x1B) := by
    rw [List.findIdx_append]; simp [hP, Nat.add_comm]
  have htake : (a ++ b).take (a.length + b.findIdx (· == 0x1B)) = a ++ b.take (b.findIdx (· == 0x1B)) := by
    rw [List.take_append, List.take_of_length_le (by omega)]; simp
  unfold Vte.advanceGround
  simp only [hfi, htake, hP, List.take_length, err_stable a _ len he, he]
  have h0 : (a.length + b.findIdx (· == 0x1B) == 0) = false := by rw [beq_eq_false_iff_ne]; omega
  have h0' : (a.length == 0) = false := by rw [beq_eq_false_iff_ne]; omega
  simp only [h0, h0', Bool.false_eq_true, ↓reduceIte]
  rw [getD_append_left a b _ (by omega)]

/-- (B3) no ESC in `a` and `a` is complete valid UTF-8: the iteration on `a ++ b` is the iteration on `b`
with `a`'s characters dispatched first -/
theorem ground_valid_a (v : Vte) (a b : List Nat) (hne : a ≠ []) (hbne : b ≠ []) (hP : a.findIdx (· == 0x1B) = a.length)
    (he : (Utf8.fromUtf8 a).err = none) :
    v.advanceGround (a ++ b) =
      ((v.advanceGround b).1, Vte.groundDispatch (Utf8.fromUtf8 a).chars ++ (v.advanceGround b).2.1,
        a.length + (v.advanceGround b).2.2) := by
  have hl : 1 ≤ a.length := by cases a with | nil => exact absurd rfl hne | cons _ _ => simp
  have hfi : (a ++ b).findIdx (· == 0x1B) = a.length + b.findIdx (· == 0x1B) := by
    rw [List.findIdx_append]; simp [hP, Nat.add_comm]
  have htake : (a ++ b).take (a.length + b.findIdx (· == 0x1B)) = a ++ b.take (b.findIdx (· == 0x1B)) := by
    rw [List.take_append, List.take_of_length_le (by omega)]; simp
  have hv := Utf8.fromUtf8_validUpTo_ok a he
  unfold Vte.advanceGround
  simp only [hfi, htake, Utf8.fromUtf8_append_ok a _ he, Utf8.Res.append, hv, List.length_append]
  have h0 : (a.length + b.findIdx (· == 0x1B) == 0) = false := by rw [beq_eq_false_iff_ne]; omega
  simp only [h0, Bool.false_eq_true, ↓reduceIte]
  by_cases hb0 : (b.findIdx (· == 0x1B) == 0) = true
  · have hb0' : b.findIdx (· == 0x1B) = 0 := by simpa using hb0
    have hbl : 1 ≤ b.length := by cases b with | nil => exact absurd rfl hbne | cons _ _ => simp
    simp [hb0', Utf8.fromUtf8, Vte.groundDispatch, show a.length < a.length + b.length by omega]
  · simp only [hb0, Bool.false_eq_true, ↓reduceIte]
    cases heb : (Utf8.fromUtf8 (b.take (b.findIdx (· == 0x1B)))).err with
    | none =>
      simp only [Vte.groundDispatch, List.map_append]
      by_cases hlt : b.findIdx (· == 0x1B) < b.length
      · simp [hlt, show a.length + b.findIdx (· == 0x1B) < a.length + b.length by omega, Nat.add_assoc]
      · simp [hlt, show ¬ a.length + b.findIdx (· == 0x1B) < a.length + b.length by omega]
    | some e =>
      cases e with
      | some len =>
        simp only [Vte.groundDispatch, List.map_append, List.append_assoc, Nat.add_assoc]
        have : (a ++ b).getD (a.length + (Utf8.fromUtf8 (b.take (b.findIdx (· == 0x1B)))).validUpTo) 0
            = b.getD (Utf8.fromUtf8 (b.take (b.findIdx (· == 0x1B)))).validUpTo 0 := by
          simp [List.getD, List.getElem?_append_right]
        rw [this]
      | none =>
        simp only [Vte.groundDispatch, List.map_append, List.append_assoc]
        by_cases hlt : b.findIdx (· == 0x1B) < b.length
        · simp [hlt, show a.length + b.findIdx (· == 0x1B) < a.length + b.length by omega, Nat.add_assoc]
        · simp [hlt, show ¬ a.length + b.findIdx (· == 0x1B) < a.length + b.length by omega, List.drop_append]

/-- the whole of a valid, ESC-free `a` is one iteration that leaves the automaton alone -/
theorem ground_valid_alone (v : Vte) (a : List Nat) (hne : a ≠ []) (hP : a.findIdx (· == 0x1B) = a.length)
    (he : (Utf8.fromUtf8 a).err = none) :
    v.advanceGround a = (v, Vte.groundDispatch (Utf8.fromUtf8 a).chars, a.length) := by
  have hl : 1 ≤ a.length := by cases a with | nil => exact absurd rfl hne | cons _ _ => simp
  unfold Vte.advanceGround
  have h0 : (a.length == 0) = false := by rw [beq_eq_false_iff_ne]; omega
  simp [hP, h0, he]

theorem advanceLoop_nil (F : Nat) (v : Vte) : Vte.advanceLoop F v [] = (v, []) := by
  cases F <;> simp [Vte.advanceLoop]

theorem findIdx_le (l : List Nat) : l.findIdx (· == 0x1B) ≤ l.length := List.findIdx_le_length

/-- a Ground iteration never consumes more than it was given -/
theorem ground_n_le (v : Vte) (bytes : List Nat) (hne : bytes ≠ []) : (v.advanceGround bytes).2.2 ≤ bytes.length := by
  have hl : 1 ≤ bytes.length := by cases bytes with | nil => exact absurd rfl hne | cons _ _ => simp
  have hf := findIdx_le bytes
  unfold Vte.advanceGround
  simp only
  by_cases h0 : (bytes.findIdx (· == 0x1B) == 0) = true
  · simp [h0]; omega
  · simp only [h0, Bool.false_eq_true, ↓reduceIte]
    cases he : (Utf8.fromUtf8 (bytes.take (bytes.findIdx (· == 0x1B)))).err with
    | none => simp only; split <;> simp <;> omega
    | some e =>
      cases e with
      | some len =>
        have := (err_len_bounds _ len he).2
        simp only [List.length_take] at this
        simp only; omega
      | none => simp only; split <;> simp <;> omega

/-- a Ground iteration that stops at an ESC, or at an invalid sequence, leaves the carry buffer alone -/
theorem ground_carry_esc (v : Vte) (a : List Nat) (hP : a.findIdx (· == 0x1B) < a.length) :
    (v.advanceGround a).1.carry = v.carry := by
  unfold Vte.advanceGround
  simp only
  split
  · rfl
  · cases (Utf8.fromUtf8 (a.take (a.findIdx (· == 0x1B)))).err with
    | none => simp [hP]
    | some e => cases e <;> simp [hP]

theorem ground_carry_invalid (v : Vte) (a : List Nat) (hP : a.findIdx (· == 0x1B) = a.length) (len : Nat)
    (he : (Utf8.fromUtf8 a).err = some (some len)) : (v.advanceGround a).1.carry = v.carry := by
  unfold Vte.advanceGround
  simp only [hP, List.take_length, he]
  split <;> rfl

/-- a truncated sequence at the end of an ESC-free run goes to the carry buffer -/
theorem ground_incomplete (v : Vte) (a : List Nat) (hne : a ≠ []) (hP : a.findIdx (· == 0x1B) = a.length)
    (he : (Utf8.fromUtf8 a).err = some none) :
    (v.advanceGround a).2.2 = a.length ∧ (v.advanceGround a).1.carry ≠ [] := by
  have hl : 1 ≤ a.length := by cases a with | nil => exact absurd rfl hne | cons _ _ => simp
  have h0 : (a.length == 0) = false := by rw [beq_eq_false_iff_ne]; omega
  have hlt := err_incomplete_lt a he
  unfold Vte.advanceGround
  simp only [hP, List.take_length, he, h0, Bool.false_eq_true, ↓reduceIte, Nat.lt_irrefl]
  refine ⟨trivial, ?_⟩
  intro h
  have := congrArg List.length h
  simp only [List.length_append, List.length_drop, List.length_nil] at this
  omega

/-- **chunk independence of the automaton**: a cut that leaves no partial UTF-8 sequence pending does
not change the final state or the action list -/
theorem advanceLoop_append : ∀ (n : Nat) (a : List Nat), a.length ≤ n → ∀ (v : Vte) (b : List Nat) (F : Nat),
    (a ++ b).length < F → v.carry = [] → (Vte.advanceLoop F v a).1.carry = [] →
    Vte.advanceLoop F v (a ++ b) =
      ((Vte.advanceLoop F (Vte.advanceLoop F v a).1 b).1,
       (Vte.advanceLoop F v a).2 ++ (Vte.advanceLoop F (Vte.advanceLoop F v a).1 b).2)
  | _, [], _, v, b, F, _, _, _ => by simp [advanceLoop_nil]
  | 0, _ :: _, h, _, _, _, _, _, _ => by simp at h
  | n + 1, x :: a', hn, v, b, F, hF, hc, hfin => by
    cases hb : b with
    | nil => simp [advanceLoop_nil]
    | cons y b' =>
    rw [← hb]
    have hbne : b ≠ [] := by rw [hb]; simp
    cases F with
    | zero => exact absurd hF (Nat.not_lt_zero _)
    | succ F' =>
    have hla : a'.length ≤ n := by simpa using hn
    by_cases hg : v.state = .ground
    · -- Ground
      have hane : (x :: a') ≠ [] := by simp
      have hk1 := ground_n_pos v (x :: a') hane
      have hk2 := ground_n_le v (x :: a') hane
      have hfl := findIdx_le (x :: a')
      -- the iteration on `a` alone, unfolded in the hypothesis and the goal's right-hand side
      have ea := advanceLoop_ground_cons F' v x a' hg
      by_cases hP : (x :: a').findIdx (· == 0x1B) < (x :: a').length
      · -- (A) ESC inside a
        have ej : v.advanceGround (x :: a' ++ b) = v.advanceGround (x :: a') := ground_esc_in_a v (x :: a') b hP
        have hdrop : (x :: a' ++ b).drop (v.advanceGround (x :: a')).2.2 =
            (x :: a').drop (v.advanceGround (x :: a')).2.2 ++ b := List.drop_append_of_le_length hk2
        have hjoin := advanceLoop_ground_cons F' v x (a' ++ b) hg
        rw [show x :: (a' ++ b) = x :: a' ++ b from rfl, ej, hdrop] at hjoin
        rw [show x :: a' ++ b = x :: (a' ++ b) from rfl] at hjoin ⊢
        rw [hjoin]
        have hrl : ((x :: a').drop (v.advanceGround (x :: a')).2.2).length ≤ n := by
          simp only [List.length_drop, List.length_cons] at hn ⊢; omega
        have hF' : ((x :: a').drop (v.advanceGround (x :: a')).2.2 ++ b).length < F' := by
          simp only [List.length_append, List.length_drop, List.length_cons] at hF ⊢; omega
        have hc' : (v.advanceGround (x :: a')).1.carry = [] := by rw [ground_carry_esc v _ hP]; exact hc
        rw [ea] at hfin
        have ih := advanceLoop_append n _ hrl (v.advanceGround (x :: a')).1 b F' hF' hc' hfin
        rw [ih, ea]
        have hfb : Vte.advanceLoop (F' + 1)
            (Vte.advanceLoop F' (v.advanceGround (x :: a')).1 ((x :: a').drop (v.advanceGround (x :: a')).2.2)).1 b =
            Vte.advanceLoop F' (Vte.advanceLoop F' (v.advanceGround (x :: a')).1 ((x :: a').drop (v.advanceGround (x :: a')).2.2)).1 b :=
          advanceLoop_fuel _ _ _ _ (by simp only [List.length_append, List.length_cons] at hF ⊢; omega)
            (by simp only [List.length_append, List.length_drop, List.length_cons] at hF' ⊢; omega)
        simp only [hfb, List.append_assoc]
      · have hPe : (x :: a').findIdx (· == 0x1B) = (x :: a').length := by omega
        cases he : (Utf8.fromUtf8 (x :: a')).err with
        | some e =>
          cases e with
          | some len =>
            -- (B1) a definitely invalid sequence inside a
            have ej : v.advanceGround (x :: a' ++ b) = v.advanceGround (x :: a') :=
              ground_invalid_in_a v (x :: a') b hane hPe len he
            have hdrop : (x :: a' ++ b).drop (v.advanceGround (x :: a')).2.2 =
                (x :: a').drop (v.advanceGround (x :: a')).2.2 ++ b := List.drop_append_of_le_length hk2
            have hjoin := advanceLoop_ground_cons F' v x (a' ++ b) hg
            rw [show x :: (a' ++ b) = x :: a' ++ b from rfl, ej, hdrop] at hjoin
            rw [show x :: a' ++ b = x :: (a' ++ b) from rfl] at hjoin ⊢
            rw [hjoin]
            have hrl : ((x :: a').drop (v.advanceGround (x :: a')).2.2).length ≤ n := by
              simp only [List.length_drop, List.length_cons] at hn ⊢; omega
            have hF' : ((x :: a').drop (v.advanceGround (x :: a')).2.2 ++ b).length < F' := by
              simp only [List.length_append, List.length_drop, List.length_cons] at hF ⊢; omega
            have hc' : (v.advanceGround (x :: a')).1.carry = [] := by
              rw [ground_carry_invalid v _ hPe len he]; exact hc
            rw [ea] at hfin
            have ih := advanceLoop_append n _ hrl (v.advanceGround (x :: a')).1 b F' hF' hc' hfin
            rw [ih, ea]
            have hfb : Vte.advanceLoop (F' + 1)
                (Vte.advanceLoop F' (v.advanceGround (x :: a')).1 ((x :: a').drop (v.advanceGround (x :: a')).2.2)).1 b =
                Vte.advanceLoop F' (Vte.advanceLoop F' (v.advanceGround (x :: a')).1 ((x :: a').drop (v.advanceGround (x :: a')).2.2)).1 b :=
              advanceLoop_fuel _ _ _ _ (by simp only [List.length_append, List.length_cons] at hF ⊢; omega)
                (by simp only [List.length_append, List.length_drop, List.length_cons] at hF' ⊢; omega)
            simp only [hfb, List.append_assoc]
          | none =>
            -- (B2) a truncated sequence at the end of a: excluded by the hypothesis
            exfalso
            obtain ⟨hk, hcar⟩ := ground_incomplete v (x :: a') hane hPe he
            rw [ea, hk, List.drop_length, advanceLoop_nil] at hfin
            exact hcar hfin
        | none =>
          -- (B3) a is complete valid text: the run continues into b
          have ealone := ground_valid_alone v (x :: a') hane hPe he
          have ejoin := ground_valid_a v (x :: a') b hane hbne hPe he
          have hjoin := advanceLoop_ground_cons F' v x (a' ++ b) hg
          rw [show x :: (a' ++ b) = x :: a' ++ b from rfl, ejoin] at hjoin
          simp only at hjoin
          rw [show (x :: a' ++ b).drop ((x :: a').length + (v.advanceGround b).2.2) = b.drop (v.advanceGround b).2.2 by
            rw [List.drop_append]; simp [List.drop_of_length_le]] at hjoin
          rw [show x :: a' ++ b = x :: (a' ++ b) from rfl] at hjoin ⊢
          rw [hjoin]
          rw [ea, ealone]
          simp only [List.drop_length, advanceLoop_nil, List.append_nil]
          rw [hb] at hjoin ⊢
          rw [advanceLoop_ground_cons F' v y b' hg]
          simp only [List.append_assoc]
    · -- outside Ground: one byte
      have ea := advanceLoop_nonground_cons F' v x a' hg
      have hjoin := advanceLoop_nonground_cons F' v x (a' ++ b) hg
      rw [show x :: a' ++ b = x :: (a' ++ b) from rfl, hjoin]
      have hF' : (a' ++ b).length < F' := by
        simp only [List.length_append, List.length_cons] at hF ⊢; omega
      have hc' : (v.changeState x).1.carry = [] := by rw [changeState_carry]; exact hc
      rw [ea] at hfin
      have ih := advanceLoop_append n a' hla (v.changeState x).1 b F' hF' hc' hfin
      rw [ih, ea]
      have hfb : Vte.advanceLoop (F' + 1) (Vte.advanceLoop F' (v.changeState x).1 a').1 b =
          Vte.advanceLoop F' (Vte.advanceLoop F' (v.changeState x).1 a').1 b :=
        advanceLoop_fuel _ _ _ _ (by simp only [List.length_append, List.length_cons] at hF ⊢; omega)
          (by simp only [List.length_append] at hF' ⊢; omega)
      simp only [hfb, List.append_assoc]

theorem advance_eq_loop (v : Vte) (bytes : List Nat) (F : Nat) (hc : v.carry = []) (hF : bytes.length < F) :
    v.advance bytes = Vte.advanceLoop F v bytes := by
  simp only [Vte.advance, hc, List.isEmpty_nil, ↓reduceIte]
  exact advanceLoop_fuel _ _ _ _ (Nat.lt_succ_self _) hF

/-- **C04** `vte::Parser::advance(a ++ b)` = `advance(a)` then `advance(b)`, whenever no partial UTF-8
sequence is pending before `a` or after `a` -/
theorem advance_append (v : Vte) (a b : List Nat) (hc : v.carry = []) (hfin : (v.advance a).1.carry = []) :
    v.advance (a ++ b) = (((v.advance a).1.advance b).1, (v.advance a).2 ++ ((v.advance a).1.advance b).2) := by
  have hF : (a ++ b).length < (a ++ b).length + 1 := Nat.lt_succ_self _
  have hFa : a.length < (a ++ b).length + 1 := by simp only [List.length_append]; omega
  have hFb : b.length < (a ++ b).length + 1 := by simp only [List.length_append]; omega
  rw [advance_eq_loop v (a ++ b) _ hc hF]
  rw [advance_eq_loop v a _ hc hFa] at hfin ⊢
  rw [advance_eq_loop _ b _ hfin hFb]
  exact advanceLoop_append a.length a (Nat.le_refl _) v b _ hF hc hfin

theorem foldlM_append' {α σ} (f : σ → α → M σ) (l1 l2 : List α) (s : σ) :
    (l1 ++ l2).foldlM f s = (l1.foldlM f s >>= fun s' => l2.foldlM f s') := by
  simp [List.foldlM_append]

/-- **C04** (screen and events): `process(a ++ b)` = `process(a)` then `process(b)` — the same screen, the
same callback events in the same order, the same automaton state, failing identically if anything
fails — for every cut that leaves no partial UTF-8 sequence pending -/
theorem process_append (W : Nat → Option Nat) (cb : CbPolicy) (p : Parser) (a b : List Nat)
    (hc : p.vte.carry = []) (hfin : (p.vte.advance a).1.carry = []) :
    p.process W cb (a ++ b) = (p.process W cb a >>= fun p' => p'.process W cb b) := by
  simp only [Parser.process, advance_append p.vte a b hc hfin, foldlM_append']
  cases (p.vte.advance a).2.foldlM (perform W cb) p.ws with
  | error e => rfl
  | ok ws => rfl

/-- lifted to any number of chunks: feeding the chunks one by one equals feeding their concatenation,
as long as no cut leaves a partial UTF-8 sequence pending -/
theorem process_chunks (W : Nat → Option Nat) (cb : CbPolicy) : ∀ (chunks : List (List Nat)) (p : Parser),
    p.vte.carry = [] →
    (∀ k, k < chunks.length → (p.vte.advance (chunks.take (k + 1)).flatten).1.carry = []) →
    chunks.foldlM (fun p c => p.process W cb c) p = p.process W cb chunks.flatten
  | [], p, hc, _ => by
    simp only [List.foldlM_nil, List.flatten_nil]
    exact (process_nil W cb p hc).symm
  | c :: cs, p, hc, h => by
    have h0 : (p.vte.advance c).1.carry = [] := by simpa using h 0 (by simp)
    simp only [List.foldlM_cons, List.flatten_cons]
    rw [process_append W cb p c cs.flatten hc h0]
    cases hp : p.process W cb c with
    | error e => rfl
    | ok p' =>
      simp only [ok_bind]
      have hv : p'.vte = (p.vte.advance c).1 := by
        simp only [Parser.process] at hp
        cases hh : (p.vte.advance c).2.foldlM (perform W cb) p.ws with
        | error e => rw [hh] at hp; simp at hp
        | ok ws => rw [hh] at hp; simp only [ok_bind, pure_eq_ok, Except.ok.injEq] at hp; rw [← hp]
      apply process_chunks W cb cs p' (by rw [hv]; exact h0)
      intro k hk
      have := h (k + 1) (by simp only [List.length_cons]; omega)
      simp only [List.take_succ_cons, List.flatten_cons] at this
      rw [advance_append p.vte c _ hc h0] at this
      rw [hv]
      exact this

/-! ### a sufficient condition: 7-bit streams never use the carry buffer -/

open Utf8 in
theorem fromUtf8_ascii (a : List Nat) (h : ∀ x ∈ a, x < 0x80) : (fromUtf8 a).err = none := by
  induction a with
  | nil => rfl
  | cons x xs ih =>
    have hx := h x (List.mem_cons_self ..)
    rw [fromUtf8.eq_def]
    simp only [hx, ↓reduceIte, Res.cons]
    exact ih (fun y hy => h y (List.mem_cons_of_mem _ hy))

theorem ground_carry_ascii (v : Vte) (a : List Nat) (h : ∀ x ∈ a, x < 0x80) : (v.advanceGround a).1.carry = v.carry := by
  unfold Vte.advanceGround
  simp only [fromUtf8_ascii _ (fun x hx => h x (List.mem_of_mem_take hx))]
  split
  · rfl
  · split <;> rfl

theorem advanceLoop_carry_ascii : ∀ (F : Nat) (v : Vte) (a : List Nat), (∀ x ∈ a, x < 0x80) →
    (Vte.advanceLoop F v a).1.carry = v.carry
  | 0, v, _, _ => rfl
  | F + 1, v, [], _ => by simp [advanceLoop_nil]
  | F + 1, v, x :: a', h => by
    by_cases hg : v.state = .ground
    · rw [advanceLoop_ground_cons F v x a' hg]
      simp only
      rw [advanceLoop_carry_ascii F _ _ (fun y hy => h y (List.mem_of_mem_drop hy)), ground_carry_ascii v _ h]
    · rw [advanceLoop_nonground_cons F v x a' hg]
      simp only
      rw [advanceLoop_carry_ascii F _ _ (fun y hy => h y (List.mem_cons_of_mem _ hy)), changeState_carry]

/-- **C04** for 7-bit streams (all of ASCII text, C0 controls, ESC / CSI / OSC / DCS sequences): ANY
chunking whatsoever gives the same result as one call -/
theorem process_chunks_ascii (W : Nat → Option Nat) (cb : CbPolicy) (chunks : List (List Nat)) (p : Parser)
    (hc : p.vte.carry = []) (h : ∀ c ∈ chunks, ∀ x ∈ c, x < 0x80) :
    chunks.foldlM (fun p c => p.process W cb c) p = p.process W cb chunks.flatten := by
  apply process_chunks W cb chunks p hc
  intro k _
  have hall : ∀ x ∈ (chunks.take (k + 1)).flatten, x < 0x80 := by
    intro x hx
    obtain ⟨c, hc', hxc⟩ := List.mem_flatten.mp hx
    exact h c (List.mem_of_mem_take hc') x hxc
  rw [advance_eq_loop _ _ _ hc (Nat.lt_succ_self _), advanceLoop_carry_ascii _ _ _ hall]
  exact hc

/-- the hypotheses of `process_append` are met by a cut in the middle of a CSI sequence and after a
complete multi-byte character (kernel-evaluated; a test of the model) -/
theorem process_append_nonvacuous :
    (Vte.new.carry = [] ∧ (Vte.new.advance [0x61, 0xC3, 0xA9, 0x1b, 0x5b, 0x33]).1.carry = []) ∧
    (Vte.new.advance [0x61, 0xC3]).1.carry ≠ [] := by
  decide +kernel

end Vt.C04
