/-
  C17 — RIS (ESC c) is indistinguishable from a newly constructed parser.

  * `ris_fresh_screen` : for every screen, `ESC c` performed on it yields exactly
    `Screen::new(size, scrollback_len)` — equality of the entire screen state —
    and emits no event; the callback log is untouched.
  * `ris_process_ground` : from every parser whose vte automaton is in `Ground`
    with no pending UTF-8 bytes, `process [ESC, 'c']` yields the screen of
    `Parser::new` and a vte state that is `Ground` with empty parameter /
    intermediate / carry fields.
  * from *every* reachable vte state (any of the 14 states, any collected parameters, a pending partial UTF-8
    sequence), end to end, and "every later input behaves as on a fresh parser": C17any (`VteClean`, `advance_ris`,
    `ris_process_any`, `ris_then_fresh`, `ris_end_to_end`).  It needs an invariant of the automaton — without it the
    statement is false (`needs_esc_clause`, `needs_osc_clause`, `needs_carry_clause` there).
-/
import Vt.Model.Perform
import Vt.Lemmas.Except
namespace Vt.C17
open Vt

/-- `ESC c`: the whole screen is replaced by a new one of the current size and capacity -/
theorem ris_fresh_screen (W : Nat → Option Nat) (cb : CbPolicy) (ws : WS) :
    perform W cb ws (.escDispatch [] false 99) =
      (Screen.new ws.screen.grid.size ws.screen.grid.scrollbackLen >>= fun s =>
        pure { ws with screen := s }) := by
  simp [perform, performEsc, WS.onScreen, Screen.ris]

/-- a new screen exists for every size with at least one row -/
theorem new_ok (size : Size) (sb : Nat) (h : 1 ≤ size.rows) : ∃ s, Screen.new size sb = .ok s := by
  simp [Screen.new, Grid.new, subM, h]

/-- `advance_ground` on a chunk that starts with ESC: enter `Escape`, reset, consume one byte -/
theorem advanceGround_esc (v : Vte) (rest : List Nat) :
    v.advanceGround (0x1b :: rest) = ({ v.resetParams with state := .escape }, [], 1) := by
  simp [Vte.advanceGround, List.findIdx_cons]

/-- vte: from `Ground` with no pending bytes, `ESC c` is exactly one `esc_dispatch([], 'c')` -/
theorem esc_c_ground (v : Vte) (hs : v.state = .ground) (hc : v.carry = []) :
    v.advance [0x1b, 0x63] =
      ({ v.resetParams with state := .ground }, [.escDispatch [] false 99]) := by
  obtain ⟨st, ints, ign, ps, cur, pa, raw, ops, carry⟩ := v
  simp only at hs hc
  subst hs hc
  simp [Vte.advance, Vte.advanceLoop, advanceGround_esc, Vte.resetParams, Vte.changeState,
    Vte.advanceEsc, Vte.isC0Exec, Vte.escDispatch]

/-- from a `Ground` parser, processing `ESC c` gives the fresh screen and a reset automaton;
the callback log is unchanged -/
theorem ris_process_ground (W : Nat → Option Nat) (cb : CbPolicy) (p : Parser)
    (hs : p.vte.state = .ground) (hc : p.vte.carry = []) (s0 : Screen)
    (hnew : Screen.new p.ws.screen.grid.size p.ws.screen.grid.scrollbackLen = .ok s0) :
    p.process W cb [0x1b, 0x63] =
      .ok { vte := { p.vte.resetParams with state := .ground },
            ws := { screen := s0, events := p.ws.events } } := by
  simp only [Parser.process, esc_c_ground p.vte hs hc, List.foldlM, ris_fresh_screen, hnew]
  rfl

/-- the automaton after RIS carries nothing over: parameters, intermediates, ignore flag are
reset (the OSC buffer is cleared on every entry to an OSC string, so its content is unobservable) -/
theorem ris_vte_reset (v : Vte) :
    ({ v.resetParams with state := .ground } : Vte).ints = [] ∧
    ({ v.resetParams with state := .ground } : Vte).params = [] ∧
    ({ v.resetParams with state := .ground } : Vte).cur = [] ∧
    ({ v.resetParams with state := .ground } : Vte).param = 0 ∧
    ({ v.resetParams with state := .ground } : Vte).ignoring = false := by
  simp [Vte.resetParams]

/-- in every non-ground state, the byte ESC leads to `Escape` with the parameters reset
(or stays in `Escape`), so the following 'c' is dispatched with no intermediates
whenever `ints = []` held in `Escape` — which `Vte.escape_ints_nil` shows is invariant. -/
theorem esc_from_any (v : Vte) (hne : v.state ≠ .ground) (hesc : v.state = .escape → v.ints = []) :
    ∃ acts, (v.changeState 0x1b).2 = acts ∧ (v.changeState 0x1b).1.state = .escape ∧
      (v.changeState 0x1b).1.ints = [] ∧
      (∀ a ∈ acts, a = .unhook ∨ ∃ ps b, a = .oscDispatch ps b) := by
  obtain ⟨st, ints, ign, ps, cur, pa, raw, ops, carry⟩ := v
  cases st <;> simp_all [Vte.changeState, Vte.advanceCsiEntry, Vte.advanceCsiIgnore,
    Vte.advanceCsiIntermediate, Vte.advanceCsiParam, Vte.advanceDcsEntry, Vte.advanceDcsIntermediate,
    Vte.advanceDcsParam, Vte.advanceDcsPassthrough, Vte.advanceEsc, Vte.advanceEscIntermediate,
    Vte.advanceOscString, Vte.anywhere, Vte.isC0Exec, Vte.resetParams, Vte.oscEnd]

/-- non-vacuity: RIS on a concrete dirty 2x3 screen gives the screen of `Parser::new 2 3 5` -/
example : isOkTrue (do
    let p ← Parser.new 2 3 5
    let p ← p.process (fun _ => some 1) cbNone [0x1b, 0x5b, 0x33, 0x31, 0x6d, 0x61, 0x1b, 0x5b, 0x3f, 0x31, 0x68]
    let p ← p.process (fun _ => some 1) cbNone [0x1b, 0x63]
    let f ← Parser.new 2 3 5
    pure (decide (p.ws.screen = f.ws.screen) && decide (p.ws.screen.attrs = Attrs.default))) = true := by
  decide +kernel

end Vt.C17
