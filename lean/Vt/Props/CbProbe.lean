/-
  Vt.Props.CbProbe — the probing callback policy `cbProbe` (a `Callbacks` that LOOKS at the `&mut Screen` it is
  handed: `resize` calls `set_size(r, c)` as `cbResize` does; every other callback calls
  `set_size(rows, 1 + (cursor_row + cursor_col + cols) % 9)`) satisfies every side condition the theorems about
  histories ask of a callback policy and that `cbResize` satisfies:

  * `cbProbe_inv`    : `C13.CbInv W cbProbe` — total, keeps `Inv`; hence `reachable_inv`, `process_total` apply
  * `cbProbe_x`      : `InvX.CbX W cbProbe` — keeps the per-cell conditions
  * `cbProbe_f`      : `InvF.CbF W cbProbe` — keeps the wrap-flag conditions
  * `cbProbe_all`    : the three together, the hypotheses of `Reach.full_redraw_reachable`,
                       `Reach.rows_protocol_reachable`, `C01.full_redraw_reachable_view`, `reachable_emitInv`
  * `cbProbe_noPend` : `C13pend.CbNoPend cbProbe` — it creates no pending-wrap position
  * `cbProbe_keeps`  : `C12.CbKeeps cbProbe` — it leaves both scrollback histories alone
  * `cbProbe_modes`  : `C10.CbModes cbProbe` — it leaves the six modes alone
  * `cbProbe_resp`   : `C12.CbResp cbProbe` — it cannot see the scrollback offsets (it reads the cursor and the
                       size only)

  NOT satisfied by `cbProbe`, and not claimed: `C17any.CbQuiet` (a policy that acts on `resize` only — `cbProbe` acts
  on every event: `cbProbe_not_quiet`), and the two that `cbResize` fails as well (`C11.CbKeeps`, `C11.CbSaved`:
  `set_size` touches the inactive grid and clamps the saved positions).
-/
import Vt.Props.C15view
import Vt.Props.C13pend
import Vt.Props.C11more_c10
import Vt.Props.C17any
namespace Vt.CbProbe
open Vt Vt.C13 Vt.InvX Vt.InvF Vt.C12 Vt.Recv
set_option linter.unusedSimpArgs false
set_option linter.unusedVariables false

variable {W : Nat → Option Nat}

/-- the width `cbProbe` asks for on every event other than `resize`: computed from the cursor and the width of
the screen it is handed; always in `1..9` -/
def probeCols (s : Screen) : Nat := 1 + (s.cur.pos.row + s.cur.pos.col + s.size.cols) % 9

theorem probeCols_pos (s : Screen) : 1 ≤ probeCols s := by unfold probeCols; omega

theorem probeCols_le (s : Screen) : probeCols s ≤ 9 := by unfold probeCols; omega

/-- what `cbProbe` does, event by event -/
theorem cbProbe_resize (r c : Nat) (s : Screen) :
    cbProbe (.resize r c) s = if r ≥ 1 && c ≥ 1 then s.setSize r c else pure s := rfl

/-- every event other than `resize` is answered by `set_size(rows, probeCols)` -/
theorem cbProbe_other (e : Event) (s : Screen) (h : ∀ r c, e ≠ .resize r c) :
    cbProbe e s = s.setSize s.size.rows (probeCols s) := by
  cases e with
  | resize r c => exact absurd rfl (h r c)
  | _ => rfl

/-- in every case `cbProbe` either returns the screen as it is or is one `set_size` call -/
theorem cbProbe_cases (e : Event) (s : Screen) :
    cbProbe e s = pure s ∨
      (∃ r c, e = .resize r c ∧ 1 ≤ r ∧ 1 ≤ c ∧ cbProbe e s = s.setSize r c) ∨
      ((∀ r c, e ≠ .resize r c) ∧ cbProbe e s = s.setSize s.size.rows (probeCols s)) := by
  by_cases h : ∀ r c, e ≠ .resize r c
  · exact Or.inr (Or.inr ⟨h, cbProbe_other e s h⟩)
  · cases e with
    | resize r c =>
      rw [cbProbe_resize]
      by_cases hc : (decide (r ≥ 1) && decide (c ≥ 1)) = true
      · rw [if_pos hc]
        simp only [Bool.and_eq_true, decide_eq_true_eq] at hc
        exact Or.inr (Or.inl ⟨r, c, rfl, hc.1, hc.2, rfl⟩)
      · rw [if_neg hc]
        exact Or.inl rfl
    | _ => exact absurd (fun r c => by intro hh; cases hh) h

/-- **`cbProbe` is total and keeps `Inv`** -/
theorem cbProbe_inv : CbInv W cbProbe := by
  intro e s hb hs
  rcases cbProbe_cases e s with h | ⟨r, c, rfl, hr, hc, h⟩ | ⟨_, h⟩
  · exact ⟨s, h, hs⟩
  · rw [h]
    simp only [EventOk] at hb
    exact inv_setSize hs r c hr hc hb.1 hb.2
  · rw [h]
    obtain ⟨hcg, _⟩ := hs.cur
    have := probeCols_le s
    exact inv_setSize hs s.size.rows (probeCols s) hcg.rows_pos (probeCols_pos s) hcg.rows_u16 (by omega)

/-- **`cbProbe` keeps the per-cell conditions** -/
theorem cbProbe_x : CbX W cbProbe := by
  intro e s s' _ _ hx h
  rcases cbProbe_cases e s with h' | ⟨r, c, rfl, _, _, h'⟩ | ⟨_, h'⟩
  · rw [h'] at h
    simp only [pure_eq_ok, Except.ok.injEq] at h
    rw [← h]; exact hx
  · rw [h'] at h; exact screenX_setSize hx _ _ h
  · rw [h'] at h; exact screenX_setSize hx _ _ h

/-- **`cbProbe` keeps the wrap-flag conditions** -/
theorem cbProbe_f : CbF W cbProbe := by
  intro e s s' _ _ hx h
  rcases cbProbe_cases e s with h' | ⟨r, c, rfl, _, _, h'⟩ | ⟨_, h'⟩
  · rw [h'] at h
    simp only [pure_eq_ok, Except.ok.injEq] at h
    rw [← h]; exact hx
  · rw [h'] at h; exact screenF_setSize hx _ _ h
  · rw [h'] at h; exact screenF_setSize hx _ _ h

/-- the three hypotheses of the reachability theorems (`reachable_emitInv`, `full_redraw_reachable`,
`rows_protocol_reachable`, `full_redraw_reachable_view`, …) -/
theorem cbProbe_all : CbInv W cbProbe ∧ CbX W cbProbe ∧ CbF W cbProbe := ⟨cbProbe_inv, cbProbe_x, cbProbe_f⟩

/-- **`cbProbe` creates no pending-wrap position**: `set_size` leaves no pending cursor at all -/
theorem cbProbe_noPend : C13pend.CbNoPend cbProbe := by
  intro e s s' hs h
  rcases cbProbe_cases e s with h' | ⟨r, c, rfl, _, _, h'⟩ | ⟨_, h'⟩
  · rw [h'] at h
    simp only [pure_eq_ok, Except.ok.injEq] at h
    subst h
    exact ⟨hs, id⟩
  · rw [h'] at h
    obtain ⟨h1, h2⟩ := C13pend.setSize_colsOk_not_pend h
    exact ⟨h1, fun hp => absurd hp h2⟩
  · rw [h'] at h
    obtain ⟨h1, h2⟩ := C13pend.setSize_colsOk_not_pend h
    exact ⟨h1, fun hp => absurd hp h2⟩

theorem cbProbe_ok (W : Nat → Option Nat) : CbInv W cbProbe ∧ C13pend.CbNoPend cbProbe :=
  ⟨cbProbe_inv, cbProbe_noPend⟩

/-- **`cbProbe` leaves both scrollback histories alone** -/
theorem cbProbe_keeps : C12.CbKeeps cbProbe := by
  intro e s hg ha hs
  rcases cbProbe_cases e s with h' | ⟨r, c, rfl, _, _, h'⟩ | ⟨_, h'⟩
  · rw [h']; exact MPred.pure hs
  · rw [h']; exact C12.sSetSize_keep hs r c
  · rw [h']; exact C12.sSetSize_keep hs _ _

/-- **`cbProbe` leaves the six modes alone** -/
theorem cbProbe_modes : C10.CbModes cbProbe := by
  intro e s m hs
  rcases cbProbe_cases e s with h' | ⟨r, c, rfl, _, _, h'⟩ | ⟨_, h'⟩
  · rw [h']; exact MPred.pure hs
  · rw [h']; exact C10.setSize_sm hs r c
  · rw [h']; exact C10.setSize_sm hs _ _

/-- what `cbProbe` reads of the screen does not depend on the scrollback offsets -/
theorem probe_forgetOff (s : Screen) :
    s.forgetOff.size.rows = s.size.rows ∧ probeCols s.forgetOff = probeCols s := by
  unfold probeCols Screen.size Screen.cur Screen.forgetOff Grid.forgetOff
  cases s.altScreen <;> exact ⟨rfl, rfl⟩

/-- **`cbProbe` cannot see the scrollback offsets**: on two screens equal up to the offsets it computes the same
size and so returns screens equal up to the offsets -/
theorem cbProbe_resp : C12.CbResp cbProbe := by
  intro e s1 s2 h
  by_cases hne : ∀ r c, e ≠ .resize r c
  · rw [cbProbe_other e s1 hne, cbProbe_other e s2 hne]
    have hf : s1.forgetOff = s2.forgetOff := h
    have e1 : s1.size.rows = s2.size.rows := by
      rw [← (probe_forgetOff s1).1, ← (probe_forgetOff s2).1, hf]
    have e2 : probeCols s1 = probeCols s2 := by
      rw [← (probe_forgetOff s1).2, ← (probe_forgetOff s2).2, hf]
    rw [e1, e2]
    exact C12.sSetSize_rel h _ _
  · cases e with
    | resize r c =>
      simp only [cbProbe_resize]
      apply MRel.ite <;> intro _
      · exact C12.sSetSize_rel h r c
      · exact MRel.pure h
    | _ => exact absurd (fun r c => by intro hh; cases hh) hne

/-- `cbProbe` is NOT quiet (it acts on every event, not on `resize` only): a bell on a 2x3 screen leaves it 2x4 -/
theorem cbProbe_not_quiet : ¬ C17any.CbQuiet cbProbe := by
  intro h
  have h1 := h .audibleBell (C13.newScreen 2 3 0) (fun r c => by intro hh; cases hh)
  have h2 : isOkTrue (do
      let s' ← cbProbe .audibleBell (C13.newScreen 2 3 0)
      pure (s'.size.cols == 4)) = true := by decide +kernel
  rw [h1] at h2
  revert h2
  decide +kernel

/-- non-vacuity: the hypotheses of the reachability theorems hold for `cbProbe` with the kernel-evaluation width
function -/
example : (CbInv W0 cbProbe ∧ CbX W0 cbProbe ∧ CbF W0 cbProbe) ∧ C13pend.CbNoPend cbProbe ∧ WOk W0 :=
  ⟨cbProbe_all, cbProbe_noPend, C01.wOk_W0⟩

/-- `reachable_inv` applies to `cbProbe`: every history of `process` / `set_size` / `set_scrollback` calls with the
probing callbacks is total and ends in a parser satisfying the invariant -/
theorem reachable_inv_probe (rows cols sb : Nat) (hr : 1 ≤ rows) (hc : 1 ≤ cols) (hr' : rows ≤ 65535)
    (hc' : cols ≤ 65535) (ops : List Op) (hv : ∀ op ∈ ops, op.Valid) (hW32 : W 32 = some 1) :
    ∃ p, (Parser.new rows cols sb >>= fun p0 => ops.foldlM (applyOp W cbProbe) p0) = .ok p ∧ ParserInv W p :=
  reachable_inv hW32 cbProbe_inv rows cols sb hr hc hr' hc' ops hv

/-- the probing callbacks do change what a history leaves behind: the bell (BEL) on a 2x3 parser makes the screen
`1 + (0 + 0 + 3) % 9 = 4` columns wide; with the cursor moved one to the right first it is 5 wide
(kernel-evaluated; a test) -/
example :
    isOkTrue (do
      let p0 ← Parser.new 2 3 0
      let p1 ← p0.process W0 cbProbe [7]
      let p2 ← p0.process W0 cbProbe [97, 7]
      pure (p1.ws.screen.size == ⟨2, 4⟩ && p2.ws.screen.size == ⟨2, 5⟩ && p1.ws.events == [.audibleBell])) = true := by
  decide +kernel

/-- **C15 for every history run with the probing callbacks** (`Reach.rows_protocol_reachable` at `cbProbe`) -/
theorem rows_protocol_reachable_probe (hW : WOk W) {cbR : CbPolicy}
    (rows cols sb : Nat) (hr : 1 ≤ rows) (hc : 1 ≤ cols) (hr' : rows ≤ 65535) (hc' : cols ≤ 65535)
    (ops : List Op) (hv : ∀ op ∈ ops, op.Valid) (sbR : Nat) :
    ∃ p, (Parser.new rows cols sb >>= fun p0 => ops.foldlM (applyOp W cbProbe) p0) = .ok p ∧
      (p.ws.screen.cur.scrollbackOffset = 0 →
        ∃ q rb cs q', Parser.new p.ws.screen.cur.size.rows p.ws.screen.cur.size.cols sbR = .ok q ∧
          p.ws.screen.rowsFormatted 0 p.ws.screen.cur.size.cols = .ok rb ∧
          p.ws.screen.cursorStateFormatted = .ok cs ∧
          q.process W cbR (C15.protocolStream p.ws.screen rb cs) = .ok q' ∧ C01.Shows q'.screen p.ws.screen) :=
  Reach.rows_protocol_reachable hW cbProbe_inv cbProbe_x cbProbe_f rows cols sb hr hc hr' hc' ops hv sbR

/-- **C01 for every history run with the probing callbacks** (`Reach.full_redraw_reachable` at `cbProbe`) -/
theorem full_redraw_reachable_probe (hW : WOk W) {cbR : CbPolicy}
    (rows cols sb : Nat) (hr : 1 ≤ rows) (hc : 1 ≤ cols) (hr' : rows ≤ 65535) (hc' : cols ≤ 65535)
    (ops : List Op) (hv : ∀ op ∈ ops, op.Valid) (sbR : Nat) :
    ∃ p, (Parser.new rows cols sb >>= fun p0 => ops.foldlM (applyOp W cbProbe) p0) = .ok p ∧
      (p.ws.screen.cur.scrollbackOffset = 0 →
        ∃ q bytes q', Parser.new p.ws.screen.cur.size.rows p.ws.screen.cur.size.cols sbR = .ok q ∧
          p.ws.screen.stateFormatted = .ok bytes ∧ q.process W cbR bytes = .ok q' ∧
          obs q'.screen = obs p.ws.screen ∧ q'.ws.events = [] ∧
          q'.screen.stateFormatted = .ok bytes ∧ q'.screen.contentsFormatted = p.ws.screen.contentsFormatted) :=
  Reach.full_redraw_reachable hW cbProbe_inv cbProbe_x cbProbe_f rows cols sb hr hc hr' hc' ops hv sbR

/-- a history in which the probing callback changes the width (BEL on a 3x3 screen at the origin: 4 columns), then
text that wraps and scrolls, then `set_scrollback(1)`: the view (history line "abcd", wrapped; live lines "e", "f")
meets the hypotheses of `C15.rows_protocol_view` (every visible row 4 wide, cursor inside its line), and the
protocol's bytes on a new 3x4 parser give `obsEq true` (kernel-evaluated; a test) -/
example :
    isOkTrue (do
      let p0 ← Parser.new 3 3 5
      let p1 ← p0.process W0 cbProbe [7, 97, 98, 99, 100, 101, 13, 10, 102, 13, 10, 103]
      let s ← p1.ws.screen.setScrollback 1
      let vis ← s.cur.visibleRows
      let rb ← s.rowsFormatted 0 s.cur.size.cols
      let cs ← s.cursorStateFormatted
      let q ← Parser.new 3 4 0
      let q' ← q.process W0 cbProbe (C15.protocolStreamVis s vis rb cs)
      let o1 ← obs q'.screen
      let o2 ← obs s
      pure (s.cur.size == ⟨3, 4⟩ && decide (s.cur.scrollbackOffset > 0) &&
            vis.all (fun r => r.cells.length == s.cur.size.cols) && decide (s.cur.pos.col < s.cur.size.cols) &&
            (vis.map (·.wrapped) == [true, false, false]) && obsEq true o1 o2)) = true := by
  decide +kernel

end Vt.CbProbe
