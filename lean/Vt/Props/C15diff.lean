/-
  C15, the `rows_diff` clause for full-width windows: for two screens of the same size, not scrolled back, and a line
  `i` that is soft-wrapped in neither, the `i`-th element of `S.rows_diff(P, 0, cols)` processed by a receiver whose
  line `i` shows `P`'s line `i` (cursor at `(i, 0)`, default pen — what the drawing protocol sets up) makes line `i`
  show `S`'s line `i`, cell for cell, and leaves everything else as it was.
-/
import Vt.Props.DiffRow
import Vt.Props.C01full
namespace Vt.C15
open Vt Vt.Recv Vt.C19 Vt.C09 Vt.RowDraw Vt.GridDraw Vt.C03 Vt.C01 Vt.Bytes Vt.DiffRow
set_option linter.unusedSimpArgs false
set_option linter.unusedVariables false

variable {W : Nat → Option Nat} {cb : CbPolicy}

/-- element `k` of the loop's result is the diff of the `k`-th pair of lines -/
theorem rowsDiffLoop_get (start width : Nat) : ∀ (l : List (Row × Row)) (i0 : Nat) (res : List (List Nat)),
    Screen.rowsDiffLoop start width l i0 = .ok res →
    ∀ k (hk : k < l.length), ∃ bs np na,
      (l[k].1).writeContentsDiff l[k].2 start width (i0 + k) false false ⟨i0 + k, start⟩ Attrs.default = .ok (bs, np, na) ∧
      res[k]? = some bs
  | [], _, _, _, k, hk => absurd hk (Nat.not_lt_zero _)
  | (r, pr) :: rest, i0, res, e, k, hk => by
    rw [Screen.rowsDiffLoop] at e
    obtain ⟨⟨bs, np, na⟩, e1, e⟩ := bind_eq_ok.mp e
    obtain ⟨tl, e2, e⟩ := bind_eq_ok.mp e
    simp only [pure_eq_ok, Except.ok.injEq] at e
    subst e
    cases k with
    | zero => exact ⟨bs, np, na, by simpa using e1, rfl⟩
    | succ k =>
      obtain ⟨bs', np', na', e', hr⟩ := rowsDiffLoop_get start width rest (i0 + 1) tl e2 k (by simpa using hk)
      refine ⟨bs', np', na', ?_, by simpa using hr⟩
      have : i0 + (k + 1) = i0 + 1 + k := by omega
      rw [this]
      simpa using e'

/-- **C15, `rows_diff`, one line, full width** -/
theorem rows_diff_line_draws (hW : WOk W) (hcb : C13.CbInv W cb) (S P : Screen) (hS : SrcScreen W S) (hP : SrcScreen W P)
    (hIS : Inv W S) (hIP : Inv W P) (hsz : S.cur.size = P.cur.size) (i : Nat) (hi : i < S.cur.size.rows)
    (hsu : (S.cur.rows[i]'(by rw [hS.alloc]; exact hi)).wrapped = false)
    (hpu : (P.cur.rows[i]'(by rw [hP.alloc, ← hsz]; exact hi)).wrapped = false)
    (p0 : Parser) (hr : Ready p0) (hpi : C13.ParserInv W p0) (hcv : Canvas (rsOf p0.ws).g)
    (hqsz : (rsOf p0.ws).g.size = S.cur.size) (hpos : (rsOf p0.ws).g.pos = ⟨i, 0⟩) (hpen : (rsOf p0.ws).pen = Attrs.default)
    (Ri0 : Row) (hrow : (rsOf p0.ws).g.rows[i]? = some Ri0)
    (hshow : Ri0.cells.map view = (P.cur.rows[i]'(by rw [hP.alloc, ← hsz]; exact hi)).cells.map view) (hRu : Ri0.wrapped = false) :
    ∃ res bs, S.rowsDiff P 0 S.cur.size.cols = .ok res ∧ res[i]? = some bs ∧
      ∃ Ri np na, Emitted W cb p0 bs (shape (rsOf p0.ws) i Ri np na) ∧
        Ri.cells.map view = (S.cur.rows[i]'(by rw [hS.alloc]; exact hi)).cells.map view ∧ Ri.wrapped = false := by
  have hiS : i < S.cur.rows.length := by rw [hS.alloc]; exact hi
  have hiP : i < P.cur.rows.length := by rw [hP.alloc, ← hsz]; exact hi
  obtain ⟨res, eres⟩ := C03.rows_diff_total hIS hIP 0 S.cur.size.cols
  have hvS := C19.visibleRows_offset0 S.cur hS.off
  have hvP := C19.visibleRows_offset0 P.cur hP.off
  have eloop : Screen.rowsDiffLoop 0 S.cur.size.cols (S.cur.rows.zip P.cur.rows) 0 = .ok res := by
    have := eres
    simp only [Screen.rowsDiff, hvS, hvP, ok_bind] at this
    exact this
  have hiz : i < (S.cur.rows.zip P.cur.rows).length := by
    simp only [List.length_zip]; omega
  obtain ⟨bs, np, na, ebs, hget⟩ := rowsDiffLoop_get 0 S.cur.size.cols _ 0 res eloop i hiz
  simp only [List.getElem_zip, Nat.zero_add] at ebs
  have hwS := hS.rows.width _ (List.getElem_mem hiS)
  have hwP := hP.rows.width _ (List.getElem_mem hiP)
  have hrd := row_diff_draws (cb := cb) hW hcb p0 hr hpi hcv i (by rw [hqsz]; exact hi) S.cur.rows[i] P.cur.rows[i]
    (by rw [hqsz]; exact hwS) (by rw [hqsz, hsz]; exact hwP) (hS.rows.ok _ (List.getElem_mem hiS))
    (hP.rows.ok _ (List.getElem_mem hiP)) hsu hpu Ri0 hrow hshow hRu (by rw [hpos]; exact Nat.zero_le _) false
  rw [hpos, hpen, hwS] at hrd
  obtain ⟨out, np', na', e', ⟨Ri, hem, hv, hu⟩, _, _, _⟩ := hrd
  rw [ebs] at e'
  simp only [Except.ok.injEq, Prod.mk.injEq] at e'
  obtain ⟨rfl, rfl, rfl⟩ := e'
  exact ⟨res, bs, eres, hget, Ri, np, na, hem, hv, hu⟩

end Vt.C15
