/-
  C09 (continued) — the pen round trip at the level of BYTES.

  * `sgr_bytes_parse` : from any Ground state, vte turns the bytes of `write_escape_code_diff` into
    exactly one `csi_dispatch … 'm'` whose parameter groups are `diffGroups` (decimal print / parse of
    up to 14 parameters, each ≤ 255), or into nothing when no bytes are written;
  * `process_attrs_diff` : **processing `a.write_escape_code_diff(b)` on a parser whose pen is `b` makes
    the pen `a`** and changes nothing else on the screen, emits no event — for all pens (colours
    within their ranges);
  * `process_attributes_formatted` : processing `attributes_formatted()` sets the pen from any pen.
-/
import Vt.Props.C09
import Vt.Lemmas.Tokens
namespace Vt.C09
open Vt Vt.Tok
set_option linter.unusedSimpArgs false

theorem joinParams_eq : ∀ ps : List Nat, Term.joinParams ps = paramBytes ps
  | [] => rfl
  | [_] => rfl
  | p :: q :: ps => by
    simp only [Term.joinParams, paramBytes, joinParams_eq (q :: ps)]

theorem groups_eq (ps : List Nat) (h : ps ≠ []) : Tok.groups ps = C09.groups ps := by
  simp [Tok.groups, C09.groups, h]

theorem fgParams_le (c : Color) (h : Color.wf c) : ∀ q ∈ Term.fgParams c, q ≤ 65535 := by
  cases c with
  | default => simp [Term.fgParams]
  | idx i =>
    simp only [Color.wf] at h
    simp only [Term.fgParams]
    split
    · simp; omega
    · split
      · simp; omega
      · simp; omega
  | rgb r g b =>
    simp only [Color.wf] at h
    simp [Term.fgParams]; omega

theorem bgParams_le (c : Color) (h : Color.wf c) : ∀ q ∈ Term.bgParams c, q ≤ 65535 := by
  cases c with
  | default => simp [Term.bgParams]
  | idx i =>
    simp only [Color.wf] at h
    simp only [Term.bgParams]
    split
    · simp; omega
    · split
      · simp; omega
      · simp; omega
  | rgb r g b =>
    simp only [Color.wf] at h
    simp [Term.bgParams]; omega

theorem fgParams_len (c : Color) : (Term.fgParams c).length ≤ 5 := by
  cases c <;> simp [Term.fgParams] <;> (repeat' split) <;> simp

theorem bgParams_len (c : Color) : (Term.bgParams c).length ≤ 5 := by
  cases c <;> simp [Term.bgParams] <;> (repeat' split) <;> simp

def fgPart (o : Option Color) : List Nat := match o with | some c => Term.fgParams c | none => []
def bgPart (o : Option Color) : List Nat := match o with | some c => Term.bgParams c | none => []
def intPart (o : Option Intensity) : List Nat :=
  match o with | some .normal => [22] | some .bold => [1] | some .dim => [2] | none => []
def flagPart (on off : Nat) (o : Option Bool) : List Nat :=
  match o with | some true => [on] | some false => [off] | none => []

theorem params_eq (s : Term.SgrAttrs) :
    s.params = fgPart s.fg ++ bgPart s.bg ++ intPart s.intensity ++ flagPart 3 23 s.italic ++
      flagPart 4 24 s.underline ++ flagPart 7 27 s.inverse := by
  obtain ⟨fg, bg, inten, it, ul, inv⟩ := s
  rfl

theorem flagPart_bounds (on off : Nat) (o : Option Bool) (h1 : on ≤ 65535) (h2 : off ≤ 65535) :
    (∀ q ∈ flagPart on off o, q ≤ 65535) ∧ (flagPart on off o).length ≤ 1 := by
  rcases o with _ | b
  · simp [flagPart]
  · cases b <;> simp [flagPart, h1, h2]

theorem intPart_bounds (o : Option Intensity) : (∀ q ∈ intPart o, q ≤ 65535) ∧ (intPart o).length ≤ 1 := by
  rcases o with _ | i
  · simp [intPart]
  · cases i <;> simp [intPart]

theorem params_bounds (s : Term.SgrAttrs) (hs : SgrAttrs.wf s) :
    (∀ q ∈ s.params, q ≤ 65535) ∧ s.params.length ≤ 32 := by
  obtain ⟨hf, hb⟩ := hs
  have f1 : (∀ q ∈ fgPart s.fg, q ≤ 65535) ∧ (fgPart s.fg).length ≤ 5 := by
    cases h : s.fg with
    | none => simp [fgPart]
    | some c => exact ⟨fgParams_le c (hf c h), fgParams_len c⟩
  have f2 : (∀ q ∈ bgPart s.bg, q ≤ 65535) ∧ (bgPart s.bg).length ≤ 5 := by
    cases h : s.bg with
    | none => simp [bgPart]
    | some c => exact ⟨bgParams_le c (hb c h), bgParams_len c⟩
  have f3 := intPart_bounds s.intensity
  have f4 := flagPart_bounds 3 23 s.italic (by omega) (by omega)
  have f5 := flagPart_bounds 4 24 s.underline (by omega) (by omega)
  have f6 := flagPart_bounds 7 27 s.inverse (by omega) (by omega)
  rw [params_eq]
  constructor
  · intro q hq
    simp only [List.mem_append] at hq
    rcases hq with ((((hq | hq) | hq) | hq) | hq) | hq
    · exact f1.1 q hq
    · exact f2.1 q hq
    · exact f3.1 q hq
    · exact f4.1 q hq
    · exact f5.1 q hq
    · exact f6.1 q hq
  · simp only [List.length_append]
    omega

theorem params_ne_nil (s : Term.SgrAttrs) (h : s.isEmpty = false) : s.params ≠ [] := by
  obtain ⟨fg, bg, inten, it, ul, inv⟩ := s
  rw [params_eq]
  simp only [Term.SgrAttrs.isEmpty, Bool.and_eq_false_iff, Option.isNone_eq_false_iff, Option.isSome_iff_exists] at h
  intro hnil
  simp only [List.append_eq_nil_iff] at hnil
  obtain ⟨⟨⟨⟨⟨e1, e2⟩, e3⟩, e4⟩, e5⟩, e6⟩ := hnil
  rcases h with ((((⟨c, rfl⟩ | ⟨c, rfl⟩) | ⟨i, rfl⟩) | ⟨b, rfl⟩) | ⟨b, rfl⟩) | ⟨b, rfl⟩
  · cases c <;> simp [fgPart, Term.fgParams] at e1
    repeat' split at e1
    all_goals simp at e1
  · cases c <;> simp [bgPart, Term.bgParams] at e2
    repeat' split at e2
    all_goals simp at e2
  · cases i <;> simp [intPart] at e3
  · cases b <;> simp [flagPart] at e4
  · cases b <;> simp [flagPart] at e5
  · cases b <;> simp [flagPart] at e6

/-- **bytes ↦ groups**: vte reads the bytes of `write_escape_code_diff` as one `CSI … m` with exactly the
parameter groups `diffGroups`, or as nothing when nothing is written -/
theorem sgr_bytes_parse (a b : Attrs) (hwf : Attrs.wf a) :
    Tok (a.writeEscapeCodeDiff b)
      (match diffGroups a b with | none => [] | some gs => [.csiDispatch gs [] false 109]) := by
  unfold Attrs.writeEscapeCodeDiff diffGroups
  by_cases h : (a != b && a == Attrs.default) = true
  · simp only [h, ↓reduceIte]
    have := tok_csi [] 109 (by simp) (by simp) (by omega)
    simpa [paramBytes, Tok.groups, Term.clearAttrs, Term.ESC] using this
  · simp only [h, Bool.false_eq_true, ↓reduceIte]
    by_cases he : (Attrs.diffBuilder a b).isEmpty = true
    · simp only [Term.SgrAttrs.write, he, ↓reduceIte]
      exact tok_nil
    · have he' : (Attrs.diffBuilder a b).isEmpty = false := by simpa using he
      simp only [Term.SgrAttrs.write, he', Bool.false_eq_true, ↓reduceIte]
      obtain ⟨hq, hl⟩ := params_bounds _ (diffBuilder_wf a b hwf)
      have := tok_csi (Attrs.diffBuilder a b).params 109 hq hl (by omega)
      rw [groups_eq _ (params_ne_nil _ he'), ← joinParams_eq] at this
      simpa [Term.ESC] using this

/-- a parser ready for a new sequence: the automaton in Ground, nothing pending -/
def Ready (p : Parser) : Prop := p.vte.state = .ground ∧ p.vte.carry = []

/-- **C09, bytes**: processing the bytes of `a.write_escape_code_diff(b)` on a parser whose pen is `b`
makes the pen `a`; nothing else of the screen changes, no event is reported, and the parser is ready
for the next sequence -/
theorem process_attrs_diff (W : Nat → Option Nat) (cb : CbPolicy) (p : Parser) (a b : Attrs) (hwf : Attrs.wf a)
    (hr : Ready p) (hb : p.ws.screen.attrs = b) :
    ∃ p', p.process W cb (a.writeEscapeCodeDiff b) = .ok p' ∧ p'.ws = p.ws.modAttrs (fun _ => a) ∧ Ready p' := by
  obtain ⟨e, g, c⟩ := sgr_bytes_parse a b hwf p.vte hr.1 hr.2
  have hrt := attrs_diff_roundtrip_params (emit cb (.unhandledCsi none none
    ((diffGroups a b).getD []) 109)) a b hwf p.ws hb
  simp only [Parser.process, e]
  cases hd : diffGroups a b with
  | none =>
    simp only [hd] at hrt
    refine ⟨_, rfl, ?_, g, c⟩
    subst hrt
    simp [WS.modAttrs, ← hb]
  | some gs =>
    simp only [hd, Option.getD_some] at hrt
    simp only [List.foldlM_cons, List.foldlM_nil, perform, performCsi, List.head?_nil, List.tail_nil]
    rw [hrt]
    exact ⟨_, rfl, rfl, g, c⟩

/-- `ESC [ m` resets the pen, from any pen -/
theorem process_clearAttrs (W : Nat → Option Nat) (cb : CbPolicy) (p : Parser) (hr : Ready p) :
    ∃ p', p.process W cb Term.clearAttrs = .ok p' ∧ p'.ws = p.ws.modAttrs (fun _ => Attrs.default) ∧ Ready p' := by
  have ht := tok_csi [] 109 (by simp) (by simp) (by omega)
  obtain ⟨e, g, c⟩ := ht p.vte hr.1 hr.2
  have e' : (p.vte.advance Term.clearAttrs).2 = [.csiDispatch [[0]] [] false 109] := by
    simpa [paramBytes, Tok.groups, Term.clearAttrs, Term.ESC] using e
  have g' : (p.vte.advance Term.clearAttrs).1.state = .ground := by
    simpa [paramBytes, Term.clearAttrs, Term.ESC] using g
  have c' : (p.vte.advance Term.clearAttrs).1.carry = [] := by
    simpa [paramBytes, Term.clearAttrs, Term.ESC] using c
  simp only [Parser.process, e', List.foldlM_cons, List.foldlM_nil, perform, performCsi, sgr,
    List.isEmpty_cons, Bool.false_eq_true, ↓reduceIte]
  rw [sgrLoop, sgrLoop]
  exact ⟨_, rfl, rfl, g', c'⟩

/-- **C09, bytes**: processing `attributes_formatted()` of a screen with pen `pen` sets the receiver's pen
to `pen`, whatever it was; nothing else changes -/
theorem process_attributes_formatted (W : Nat → Option Nat) (cb : CbPolicy) (p : Parser) (s : Screen)
    (hwf : Attrs.wf s.attrs) (hr : Ready p) :
    ∃ p', p.process W cb s.attributesFormatted = .ok p' ∧ p'.ws = p.ws.modAttrs (fun _ => s.attrs) ∧ Ready p' := by
  obtain ⟨p1, e1, w1, r1⟩ := process_clearAttrs W cb p hr
  obtain ⟨p2, e2, w2, r2⟩ := process_attrs_diff W cb p1 s.attrs Attrs.default hwf r1 (by rw [w1]; rfl)
  have hcar : (p.vte.advance Term.clearAttrs).1.carry = [] := by
    have ht := tok_csi [] 109 (by simp) (by simp) (by omega)
    have := (ht p.vte hr.1 hr.2).2.2
    simpa [paramBytes, Term.clearAttrs, Term.ESC] using this
  refine ⟨p2, ?_, ?_, r2⟩
  · unfold Screen.attributesFormatted
    rw [C04.process_append W cb p _ _ hr.2 hcar, e1]
    exact e2
  · rw [w2, w1]; rfl

end Vt.C09
