/-
  Vt.Props.DiffType — typing a whole cell (a character and its combining characters) at ANY column of ANY
  well-formed line with room for it: the closed form `C05.printedRow` for the first character, then the
  combining characters land in the cell just written.  Used by the row-diff simulation (C02 / C15), where
  the receiving line is not blank.
-/
import Vt.Props.C05b
import Vt.Lemmas.TypeCell
namespace Vt.Recv
open Vt Vt.C19
set_option linter.unusedSimpArgs false

variable {W : Nat → Option Nat}

/-- the line after a whole cell has been typed at column `col`: `printedRow` for its first character, with the
cell at `col` holding the combining characters too -/
def typedRow (W : Nat → Option Nat) (r : Row) (col cols : Nat) (a : Attrs) (f : Nat) (cellF : Cell) : Row :=
  { cells := (C05.printedRow W r col cols a f (decide (C05.effWidth W f > 1))).cells.set col cellF
    wrapped := (C05.printedRow W r col cols a f (decide (C05.effWidth W f > 1))).wrapped }

/-- the grid after a whole cell has been typed at the cursor -/
def typedGrid (W : Nat → Option Nat) (g : Grid) (r : Row) (a : Attrs) (f : Nat) (cellF : Cell) : Grid :=
  { g with
    rows := g.rows.set g.pos.row (typedRow W r g.pos.col g.size.cols a f cellF)
    pos := ⟨g.pos.row, g.pos.col + C05.effWidth W f⟩ }

theorem type_cell_any {g : Grid} (hinv : GridInv W g true) (hl : g.rows.length = g.size.rows) (hW32 : W 32 = some 1)
    (a : Attrs) (f : Nat) (zs : List Nat) (hnc : ¬ (W f = none ∧ f < 256)) (hw1 : 1 ≤ (W f).getD 1)
    (hz : ∀ z ∈ zs, W z = some 0) (hfit : g.pos.col + C05.effWidth W f ≤ g.size.cols)
    (hp : prefixOk (Utf8.encode f).length zs) :
    ∃ r cellF, g.rows[g.pos.row]? = some r ∧ typeChars W a (f :: zs) g = .ok (typedGrid W g r a f cellF) ∧
      view cellF = typedView W a f zs ∧ cellF.contents.length = 22 := by
  have hw1' : 1 ≤ C05.effWidth W f := by unfold C05.effWidth; omega
  have hw2' : C05.effWidth W f ≤ 2 := by unfold C05.effWidth; omega
  obtain ⟨r, hr, e1⟩ := C05.text_fits_spec hinv hl hW32 a f hnc hw1' hfit
  have hrl := getElem?_lt hr
  have hrow := hinv.row_ok r (List.mem_of_getElem? hr)
  have hci := ((rowOk_iff W r).mp hrow.2).2
  have hcol : g.pos.col < r.cells.length := by rw [hrow.1]; omega
  have hc0 := List.getElem?_eq_getElem hcol
  generalize r.cells[g.pos.col] = cell0 at hc0
  have hok0 := hci.cells_ok cell0 (List.mem_of_getElem? hc0)
  have h22 : cell0.contents.length = 22 := by
    simp only [cellOk, Bool.and_eq_true, beq_iff_eq] at hok0; exact hok0.1.1.1.1
  obtain ⟨c1, es, l1, v1, k1, w1, ct1, a1⟩ := set_facts W cell0 f a h22
  have hc1 : c1 = C05.setCell W cell0 f a := by
    have := C05.set_eq W cell0 f a
    rw [es] at this; exact Except.ok.inj this
  have hl' := encode_len f
  -- the line after the first character
  let wide := decide (C05.effWidth W f > 1)
  let r1 := C05.printedRow W r g.pos.col g.size.cols a f wide
  have hr1c : r1.cells[g.pos.col]? = some c1 := by
    show (r.cells.mapIdx _)[g.pos.col]? = _
    rw [List.getElem?_mapIdx, hc0]
    simp only [Option.map_some, C05.printedCell, ↓reduceIte, hc1]
  let g1 : Grid := { g with rows := g.rows.set g.pos.row r1, pos := ⟨g.pos.row, g.pos.col + C05.effWidth W f⟩ }
  have hg1row : g1.rows[g1.pos.row]? = some r1 := by
    show (g.rows.set g.pos.row r1)[g.pos.row]? = some r1
    rw [List.getElem?_set_self hrl]
  have hprev : ∃ prev, r1.cells[g1.pos.col - 1]? = some prev ∧
      ((prev.cont = true ∧ g.pos.col = g1.pos.col - 2 ∧ 2 ≤ g1.pos.col) ∨ (prev.cont = false ∧ g.pos.col = g1.pos.col - 1)) := by
    by_cases hwd : C05.effWidth W f = 1
    · refine ⟨c1, ?_, Or.inr ⟨ct1, ?_⟩⟩
      · show r1.cells[g.pos.col + C05.effWidth W f - 1]? = _
        rw [hwd]; exact hr1c
      · show g.pos.col = g.pos.col + C05.effWidth W f - 1
        rw [hwd]; rfl
    · have hwd2 : C05.effWidth W f = 2 := by omega
      have hcol1 : g.pos.col + 1 < r.cells.length := by rw [hrow.1]; omega
      have hwt : wide = true := by show decide (C05.effWidth W f > 1) = true; rw [hwd2]; rfl
      refine ⟨C05.printedCell W r.cells g.pos.col a f wide (g.pos.col + 1) (r.cells[g.pos.col + 1]'hcol1), ?_, Or.inl ⟨?_, ?_, ?_⟩⟩
      · show r1.cells[g.pos.col + C05.effWidth W f - 1]? = _
        rw [hwd2]
        show (r.cells.mapIdx _)[g.pos.col + 2 - 1]? = _
        rw [List.getElem?_mapIdx, show g.pos.col + 2 - 1 = g.pos.col + 1 by omega, List.getElem?_eq_getElem hcol1]
        simp only [Option.map_some]
      · unfold C05.printedCell
        rw [if_neg (by omega), if_neg (fun h => by omega), if_pos rfl, hwt]
        simp only [↓reduceIte, C05.contOf, Cell.setWideContinuation]
      · show g.pos.col = g.pos.col + C05.effWidth W f - 2
        rw [hwd2]; rfl
      · show 2 ≤ g.pos.col + C05.effWidth W f
        omega
  obtain ⟨tc', e2, e3⟩ := type_zeros W a zs g1 r1 g.pos.col c1 hz (by show 0 < g.pos.col + C05.effWidth W f; omega)
    (by show g.pos.col + C05.effWidth W f ≤ g.size.cols; exact hfit) hg1row hprev hr1c k1 (by omega) (by rw [l1]; exact hp)
  obtain ⟨tF, eF, lF, vF, kF, wF, ctF, aF⟩ := appendAll_facts zs c1 k1 (by omega) (by rw [l1]; exact hp)
  have : tF = tc' := by rw [e2] at eF; exact (Except.ok.inj eF).symm
  subst this
  refine ⟨r, tF, hr, ?_, ?_, kF⟩
  · rw [typeChars_cons, e1]
    simp only [ok_bind]
    have : ({ g with rows := g.rows.set g.pos.row (C05.printedRow W r g.pos.col g.size.cols a f (decide (C05.effWidth W f > 1))),
                     pos := ⟨g.pos.row, g.pos.col + C05.effWidth W f⟩ } : Grid) = g1 := rfl
    rw [this, e3]
    simp only [withCell, typedGrid, typedRow, g1, List.set_set]
    rfl
  · simp only [view, typedView, View.mk.injEq]
    refine ⟨?_, by rw [wF, w1], by rw [ctF, ct1], by rw [aF, a1], ?_⟩
    · rw [lF, l1]; simp
    · have : tF.contents.take tF.len = liveOf tF := rfl
      rw [this, vF, v1]

end Vt.Recv
