import Vt.Props.C10b
import Vt.Props.C12c
/-
  C10 (frame) — the six terminal modes under ARBITRARY input.

  `Modes` = (application keypad, application cursor, hide cursor, bracketed paste, mouse mode,
  mouse encoding), `modesOf s` reads them off a `Screen` (Rust: `Screen::application_keypad()`,
  `application_cursor()`, `hide_cursor()`, `bracketed_paste()`, `mouse_protocol_mode()`,
  `mouse_protocol_encoding()`).

  * `modeEffect a` : the effect of one vte action on the six modes, a pure function `Modes → Modes`
    that does not look at anything else of the screen.  It is the identity unless the action is
    `ESC =`, `ESC >`, `ESC c` (RIS) or `CSI ? … h` / `CSI ? … l` (`touches`, `modeEffect_frame`); for
    DECSET / DECRST it is the left-to-right fold of `setEff` / `rstEff` over the parameters, where
    every parameter other than 1, 9, 25, 1000, 1002, 1003, 1005, 1006, 2004 — unknown numbers,
    multi-value parameters (`1:2`), and also 6, 47, 1049 — is the identity (`setEff_other`,
    `rstEff_other`).
  * `perform_modes` : for every action, every callback policy that leaves the modes alone
    (`CbModes`; `cbNone_modes`, `cbResize_modes`) and every screen, the modes after `perform` are
    `modeEffect a` of the modes before.  `perform_modes_frame` is the frame theorem proper.
  * `actions_modes`, `process_modes` : after any list of actions / any byte chunk, the modes are the
    fold of `modeEffect` over the actions: each component is what the LAST action that assigns it
    made it (`last_wins`, `none_touches`, and the per-component closed forms `setEff_*`, `rstEff_*`).
  * `alt_flag_only` : `?47` / `?1049` do not touch any of the six modes (they flip `altScreen`).
-/
namespace Vt.C10
open Vt Vt.C12
set_option linter.unusedSimpArgs false
set_option linter.unusedVariables false

/-- the six mode components of C10 -/
structure Modes where
  appKeypad : Bool
  appCursor : Bool
  hideCursor : Bool
  bracketedPaste : Bool
  mouseMode : MouseMode
  mouseEnc : MouseEnc
  deriving DecidableEq, Repr

def modesOf (s : Screen) : Modes :=
  ⟨s.appKeypad, s.appCursor, s.hideCursor, s.bracketedPaste, s.mouseMode, s.mouseEnc⟩

/-- the modes of a new `Parser` and after RIS -/
def Modes.initial : Modes := ⟨false, false, false, false, .none, .default⟩

/-- effect of one DECSET parameter (`CSI ? p h`); anything not listed: no effect -/
def setEff (p : List Nat) (m : Modes) : Modes :=
  match p with
  | [1] => { m with appCursor := true }
  | [9] => { m with mouseMode := .press }
  | [25] => { m with hideCursor := false }
  | [1000] => { m with mouseMode := .pressRelease }
  | [1002] => { m with mouseMode := .buttonMotion }
  | [1003] => { m with mouseMode := .anyMotion }
  | [1005] => { m with mouseEnc := .utf8 }
  | [1006] => { m with mouseEnc := .sgr }
  | [2004] => { m with bracketedPaste := true }
  | _ => m

def clrMode (m : Modes) (x : MouseMode) : Modes := if m.mouseMode = x then { m with mouseMode := .none } else m
def clrEnc (m : Modes) (x : MouseEnc) : Modes := if m.mouseEnc = x then { m with mouseEnc := .default } else m

/-- effect of one DECRST parameter (`CSI ? p l`); anything not listed: no effect -/
def rstEff (p : List Nat) (m : Modes) : Modes :=
  match p with
  | [1] => { m with appCursor := false }
  | [9] => clrMode m .press
  | [25] => { m with hideCursor := true }
  | [1000] => clrMode m .pressRelease
  | [1002] => clrMode m .buttonMotion
  | [1003] => clrMode m .anyMotion
  | [1005] => clrEnc m .utf8
  | [1006] => clrEnc m .sgr
  | [2004] => { m with bracketedPaste := false }
  | _ => m

/-- **the mode effect of one action** -/
def modeEffect (a : Action) (m : Modes) : Modes :=
  match a with
  | .escDispatch ints _ b =>
    if ints = [] then
      if b = 61 then { m with appKeypad := true }
      else if b = 62 then { m with appKeypad := false }
      else if b = 99 then Modes.initial
      else m
    else m
  | .csiDispatch params ints _ c =>
    if ints.head? = some 63 then
      if c = 104 then params.foldl (fun m p => setEff p m) m
      else if c = 108 then params.foldl (fun m p => rstEff p m) m
      else m
    else m
  | _ => m

/-- the actions that can change a mode: `ESC =`, `ESC >`, `ESC c`, `CSI ? … h`, `CSI ? … l` -/
def touches : Action → Bool
  | .escDispatch ints _ b => ints == [] && (b == 61 || b == 62 || b == 99)
  | .csiDispatch _ ints _ c => ints.head? == some 63 && (c == 104 || c == 108)
  | _ => false

/-! ### readable forms of `modeEffect` -/

theorem modeEffect_deckpam (ig : Bool) (m : Modes) :
    modeEffect (.escDispatch [] ig 61) m = { m with appKeypad := true } := rfl
theorem modeEffect_deckpnm (ig : Bool) (m : Modes) :
    modeEffect (.escDispatch [] ig 62) m = { m with appKeypad := false } := rfl
theorem modeEffect_ris (ig : Bool) (m : Modes) :
    modeEffect (.escDispatch [] ig 99) m = Modes.initial := rfl
theorem modeEffect_decset (params : List (List Nat)) (rest : List Nat) (ig : Bool) (m : Modes) :
    modeEffect (.csiDispatch params (63 :: rest) ig 104) m = params.foldl (fun m p => setEff p m) m := rfl
theorem modeEffect_decrst (params : List (List Nat)) (rest : List Nat) (ig : Bool) (m : Modes) :
    modeEffect (.csiDispatch params (63 :: rest) ig 108) m = params.foldl (fun m p => rstEff p m) m := rfl

/-- **frame, on the effect function**: an action that is not `ESC =`, `ESC >`, `ESC c`, DECSET or
DECRST has no mode effect -/
theorem modeEffect_frame (a : Action) (h : touches a = false) (m : Modes) : modeEffect a m = m := by
  cases a with
  | escDispatch ints ig b =>
    simp only [touches, Bool.and_eq_false_iff, Bool.or_eq_false_iff, beq_eq_false_iff_ne, ne_eq,
      beq_iff_eq] at h
    simp only [modeEffect]
    by_cases hi : ints = []
    · rcases h with h | ⟨⟨h1, h2⟩, h3⟩
      · exact absurd hi h
      · simp only [hi, ↓reduceIte, h1, h2, h3]
    · simp only [hi, ↓reduceIte]
  | csiDispatch params ints ig c =>
    simp only [touches, Bool.and_eq_false_iff, Bool.or_eq_false_iff, beq_eq_false_iff_ne, ne_eq,
      beq_iff_eq] at h
    simp only [modeEffect]
    by_cases hi : ints.head? = some 63
    · rcases h with h | ⟨h1, h2⟩
      · exact absurd hi h
      · simp only [hi, ↓reduceIte, h1, h2]
    · simp only [hi, ↓reduceIte]
  | _ => rfl

/-- the parameters DECSET / DECRST assign a mode to -/
def modeParam (p : List Nat) : Bool :=
  p == [1] || p == [9] || p == [25] || p == [1000] || p == [1002] || p == [1003] || p == [1005] ||
    p == [1006] || p == [2004]

/-- an unhandled DECSET parameter — and 6 (origin mode), 47, 1049 (alternate screen) — leaves all
six modes unchanged -/
theorem setEff_other (p : List Nat) (h : modeParam p = false) (m : Modes) : setEff p m = m := by
  simp only [modeParam, Bool.or_eq_false_iff, beq_eq_false_iff_ne, ne_eq] at h
  unfold setEff
  split <;> first | rfl | simp_all

theorem rstEff_other (p : List Nat) (h : modeParam p = false) (m : Modes) : rstEff p m = m := by
  simp only [modeParam, Bool.or_eq_false_iff, beq_eq_false_iff_ne, ne_eq] at h
  unfold rstEff
  split <;> first | rfl | simp_all

/-- `?47` and `?1049` (set or reset) touch none of the six modes: they only switch the
alternate-screen flag (and, for 1049, save / restore the cursor: C11) -/
theorem alt_flag_only (m : Modes) :
    setEff [47] m = m ∧ setEff [1049] m = m ∧ rstEff [47] m = m ∧ rstEff [1049] m = m ∧
    setEff [6] m = m ∧ rstEff [6] m = m :=
  ⟨rfl, rfl, rfl, rfl, rfl, rfl⟩

/-! ### per-component closed forms of one DECSET / DECRST parameter -/

theorem setEff_appKeypad (p : List Nat) (m : Modes) : (setEff p m).appKeypad = m.appKeypad := by
  unfold setEff; split <;> rfl
theorem rstEff_appKeypad (p : List Nat) (m : Modes) : (rstEff p m).appKeypad = m.appKeypad := by
  unfold rstEff clrMode clrEnc; split <;> first | rfl | (split <;> rfl)
theorem setEff_appCursor (p : List Nat) (m : Modes) :
    (setEff p m).appCursor = if p = [1] then true else m.appCursor := by
  unfold setEff; split <;> simp_all
theorem rstEff_appCursor (p : List Nat) (m : Modes) :
    (rstEff p m).appCursor = if p = [1] then false else m.appCursor := by
  unfold rstEff clrMode clrEnc; split <;> first | simp_all; done | (split <;> simp_all)
theorem setEff_hideCursor (p : List Nat) (m : Modes) :
    (setEff p m).hideCursor = if p = [25] then false else m.hideCursor := by
  unfold setEff; split <;> simp_all
theorem rstEff_hideCursor (p : List Nat) (m : Modes) :
    (rstEff p m).hideCursor = if p = [25] then true else m.hideCursor := by
  unfold rstEff clrMode clrEnc; split <;> first | simp_all; done | (split <;> simp_all)
theorem setEff_bracketedPaste (p : List Nat) (m : Modes) :
    (setEff p m).bracketedPaste = if p = [2004] then true else m.bracketedPaste := by
  unfold setEff; split <;> simp_all
theorem rstEff_bracketedPaste (p : List Nat) (m : Modes) :
    (rstEff p m).bracketedPaste = if p = [2004] then false else m.bracketedPaste := by
  unfold rstEff clrMode clrEnc; split <;> first | simp_all; done | (split <;> simp_all)

/-- the mouse mode a DECSET / DECRST parameter names -/
def mouseOfParam (p : List Nat) : Option MouseMode :=
  match p with
  | [9] => some .press
  | [1000] => some .pressRelease
  | [1002] => some .buttonMotion
  | [1003] => some .anyMotion
  | _ => none

def encOfParam (p : List Nat) : Option MouseEnc :=
  match p with
  | [1005] => some .utf8
  | [1006] => some .sgr
  | _ => none

/-- DECSET of a mouse mode selects it, whatever was selected before -/
theorem setEff_mouseMode (p : List Nat) (m : Modes) :
    (setEff p m).mouseMode = (mouseOfParam p).getD m.mouseMode := by
  unfold setEff mouseOfParam; split <;> first | rfl | simp_all
/-- DECRST of a mouse mode turns reporting off if that mode is the selected one, else nothing -/
theorem rstEff_mouseMode (p : List Nat) (m : Modes) :
    (rstEff p m).mouseMode =
      if some m.mouseMode = mouseOfParam p then .none else m.mouseMode := by
  unfold rstEff mouseOfParam clrMode clrEnc
  split <;> first
    | (simp only [Option.some.injEq]; split <;> simp_all; done)
    | (split <;> simp_all; done)
    | simp_all
theorem setEff_mouseEnc (p : List Nat) (m : Modes) :
    (setEff p m).mouseEnc = (encOfParam p).getD m.mouseEnc := by
  unfold setEff encOfParam; split <;> first | rfl | simp_all
theorem rstEff_mouseEnc (p : List Nat) (m : Modes) :
    (rstEff p m).mouseEnc =
      if some m.mouseEnc = encOfParam p then .default else m.mouseEnc := by
  unfold rstEff encOfParam clrMode clrEnc
  split <;> first
    | (simp only [Option.some.injEq]; split <;> simp_all; done)
    | (split <;> simp_all; done)
    | simp_all

/-! ### the model agrees with the effect function -/

/-- "the modes are `m`" -/
abbrev SM (m : Modes) (s : Screen) : Prop := modesOf s = m

section sm
variable {m : Modes} {s : Screen}

/-- an operation on the active grid touches no mode — for ANY grid operation -/
theorem modifyGrid_sm {f : Grid → M Grid} (hs : SM m s) : MPred (SM m) (s.modifyGrid f) := by
  simp only [Screen.modifyGrid]
  apply MPred.ite <;> intro _ <;> (apply MPred.bind_any; intro g; exact MPred.pure hs)

theorem setSize_sm (hs : SM m s) (r c : Nat) : MPred (SM m) (s.setSize r c) := by
  simp only [Screen.setSize]
  apply MPred.bind_any; intro g
  apply MPred.bind_any; intro ag
  exact MPred.pure hs

theorem enterAlternateGrid_sm (hs : SM m s) : MPred (SM m) s.enterAlternateGrid := by
  simp only [Screen.enterAlternateGrid]
  refine MPred.bind (modifyGrid_sm hs) ?_
  intro a ha
  exact MPred.pure ha

theorem saveCursor_sm (hs : SM m s) : MPred (SM m) s.saveCursor := by
  simp only [Screen.saveCursor]
  refine MPred.bind (modifyGrid_sm hs) ?_
  intro a ha
  exact MPred.pure ha

theorem restoreCursor_sm (hs : SM m s) : MPred (SM m) s.restoreCursor := by
  simp only [Screen.restoreCursor]
  refine MPred.bind (modifyGrid_sm hs) ?_
  intro a ha
  exact MPred.pure ha

/-- result of one arm: handled ⇒ the modes are `F m`; unhandled ⇒ `F` is the identity at `m` -/
abbrev OSM (F : Modes → Modes) (m : Modes) (o : Option Screen) : Prop :=
  match o with
  | some s' => SM (F m) s'
  | none => F m = m

theorem some_sm {F : Modes → Modes} {mm : M Screen} (h : MPred (SM (F m)) mm) :
    MPred (OSM F m) (do let s ← mm; pure (some s)) :=
  MPred.bind h (fun a h' => MPred.pure h')

theorem decsetOne_sm (hs : SM m s) (p : List Nat) : MPred (OSM (setEff p) m) (s.decsetOne p) := by
  subst hs
  unfold Screen.decsetOne
  split
  all_goals first
    | exact MPred.pure (rfl : modesOf _ = setEff _ (modesOf s))
    | skip
  · exact some_sm (F := setEff [6]) (modifyGrid_sm rfl)
  · exact some_sm (F := setEff [47]) (enterAlternateGrid_sm rfl)
  · refine MPred.bind (saveCursor_sm (m := modesOf s) rfl) ?_
    intro a h1
    apply MPred.bind_any; intro ag
    exact some_sm (F := setEff [1049]) (enterAlternateGrid_sm (s := { a with altGrid := ag }) h1)
  · apply MPred.pure
    show setEff _ (modesOf s) = modesOf s
    unfold setEff
    split <;> first | rfl | simp_all

theorem clearMouseMode_modes (s : Screen) (x : MouseMode) :
    modesOf (s.clearMouseMode x) = clrMode (modesOf s) x := by
  simp only [Screen.clearMouseMode, clrMode, modesOf]
  by_cases h : s.mouseMode = x <;> simp [h]

theorem clearMouseEnc_modes (s : Screen) (x : MouseEnc) :
    modesOf (s.clearMouseEnc x) = clrEnc (modesOf s) x := by
  simp only [Screen.clearMouseEnc, clrEnc, modesOf]
  by_cases h : s.mouseEnc = x <;> simp [h]

theorem decrstOne_sm (hs : SM m s) (p : List Nat) : MPred (OSM (rstEff p) m) (s.decrstOne p) := by
  subst hs
  unfold Screen.decrstOne
  split
  all_goals first
    | exact MPred.pure (rfl : modesOf _ = rstEff _ (modesOf s))
    | exact MPred.pure (clearMouseMode_modes s _)
    | exact MPred.pure (clearMouseEnc_modes s _)
    | skip
  · exact some_sm (F := rstEff [6]) (modifyGrid_sm rfl)
  · apply MPred.pure
    show rstEff _ (modesOf s) = modesOf s
    unfold rstEff
    split <;> first | rfl | simp_all

theorem edMode_sm (hs : SM m s) (n : Nat) : MPred (OSM id m) (s.edMode n) := by
  unfold Screen.edMode
  split
  · exact some_sm (F := id) (modifyGrid_sm hs)
  · exact some_sm (F := id) (modifyGrid_sm hs)
  · exact some_sm (F := id) (modifyGrid_sm hs)
  · exact MPred.pure rfl

theorem elMode_sm (hs : SM m s) (n : Nat) : MPred (OSM id m) (s.elMode n) := by
  unfold Screen.elMode
  split
  · exact some_sm (F := id) (modifyGrid_sm hs)
  · exact some_sm (F := id) (modifyGrid_sm hs)
  · exact some_sm (F := id) (modifyGrid_sm hs)
  · exact MPred.pure rfl

end sm

/-- a callback policy that leaves the six modes alone (the public `Screen` API offers a
`Callbacks` object nothing that changes them: `set_size` and `set_scrollback` qualify) -/
def CbModes (cb : CbPolicy) : Prop := ∀ e s m, SM m s → MPred (SM m) (cb e s)

theorem cbNone_modes : CbModes cbNone := fun _ _ _ hs => MPred.pure hs

theorem cbResize_modes : CbModes cbResize := by
  intro e s m hs
  cases e with
  | resize r c =>
    simp only [cbResize]
    apply MPred.ite <;> intro _
    · exact setSize_sm hs r c
    · exact MPred.pure hs
  | _ => exact MPred.pure hs

/-- a step of the wrapped screen whose effect on the modes is `F` -/
def WM (F : Modes → Modes) (f : WS → M WS) : Prop :=
  ∀ m ws, SM m ws.screen → MPred (fun ws' => SM (F m) ws'.screen) (f ws)

section wm
variable {cb : CbPolicy}

theorem emit_sm (hcb : CbModes cb) (e : Event) : WM id (emit cb e) := by
  intro m ws hs
  simp only [emit]
  refine MPred.bind (hcb e _ m hs) ?_
  intro a h'
  exact MPred.pure h'

theorem onScreen_sm {f : Screen → M Screen} (hf : ∀ m s, SM m s → MPred (SM m) (f s)) :
    WM id (fun ws => ws.onScreen f) := by
  intro m ws hs
  simp only [WS.onScreen]
  refine MPred.bind (hf m _ hs) ?_
  intro a h'
  exact MPred.pure h'

/-- every `Screen` operation of the shape `s.modifyGrid (f s)` -/
theorem onGrid_sm {f : Screen → Grid → M Grid} :
    WM id (fun ws => ws.onScreen (fun s => s.modifyGrid (f s))) :=
  onScreen_sm (fun m s hs => modifyGrid_sm hs)

theorem arm_sm {F : Modes → Modes} {unh : WS → M WS} (hunh : WM id unh) {arm : Screen → M (Option Screen)}
    (harm : ∀ m s, SM m s → MPred (OSM F m) (arm s)) :
    WM F (fun ws => do
      match ← arm ws.screen with
      | some s => pure { ws with screen := s }
      | none => unh ws) := by
  intro m ws hs
  simp only
  refine MPred.bind (harm m _ hs) ?_
  intro o ho
  cases o with
  | none =>
    have e : F m = m := ho
    rw [e]
    exact hunh m ws hs
  | some s' => exact MPred.pure ho

/-- a parameter list: the effects compose left to right -/
theorem fold_sm {E : List Nat → Modes → Modes} {step : WS → List Nat → M WS}
    (hstep : ∀ p, WM (E p) (fun ws => step ws p)) :
    ∀ (ps : List (List Nat)), WM (fun m => ps.foldl (fun m p => E p m) m) (fun ws => ps.foldlM step ws) := by
  intro ps
  induction ps with
  | nil => intro m ws hs; exact MPred.pure hs
  | cons p ps ih =>
    intro m ws hs
    simp only [List.foldlM, List.foldl]
    exact MPred.bind (hstep p m ws hs) (fun a h' => ih _ a h')

theorem sgrLoop_sm {unh : WS → M WS} (hunh : WM id unh) (ps : List (List Nat)) : WM id (sgrLoop unh ps) := by
  intro m ws
  fun_induction sgrLoop unh ps ws <;> intro hs
  all_goals first
    | exact MPred.pure hs
    | (rename_i ih; exact ih hs)
    | exact hunh m _ hs
    | (rename_i ih; exact MPred.bind (hunh m _ hs) (fun a h' => ih a h'))

theorem sgr_sm {unh : WS → M WS} (hunh : WM id unh) (ps : List (List Nat)) : WM id (sgr unh ps) := by
  intro m ws hs
  unfold sgr
  split
  · exact MPred.pure hs
  · exact sgrLoop_sm hunh ps m ws hs

theorem decset_sm {unh : WS → M WS} (hunh : WM id unh) (ps : List (List Nat)) :
    WM (fun m => ps.foldl (fun m p => setEff p m) m) (decset unh ps) :=
  fold_sm (E := setEff) (fun p => arm_sm hunh (arm := fun s => s.decsetOne p)
    (fun m s hs => decsetOne_sm hs p)) ps

theorem decrst_sm {unh : WS → M WS} (hunh : WM id unh) (ps : List (List Nat)) :
    WM (fun m => ps.foldl (fun m p => rstEff p m) m) (decrst unh ps) :=
  fold_sm (E := rstEff) (fun p => arm_sm hunh (arm := fun s => s.decrstOne p)
    (fun m s hs => decrstOne_sm hs p)) ps

theorem performExecute_sm (hcb : CbModes cb) (b : Nat) : WM id (fun ws => performExecute cb ws b) := by
  intro m ws hs
  simp only [performExecute]
  split
  all_goals first
    | exact emit_sm hcb _ m ws hs
    | exact MPred.pure hs
    | exact onScreen_sm (f := Screen.bs) (fun m s hs => modifyGrid_sm hs) m ws hs
    | exact onScreen_sm (f := Screen.tab) (fun m s hs => modifyGrid_sm hs) m ws hs
    | exact onScreen_sm (f := Screen.lf) (fun m s hs => modifyGrid_sm hs) m ws hs
    | exact onScreen_sm (f := Screen.cr) (fun m s hs => modifyGrid_sm hs) m ws hs

theorem ris_sm (s : Screen) : MPred (SM Modes.initial) s.ris := by
  simp only [Screen.ris, Screen.new]
  apply MPred.bind_any; intro g
  apply MPred.bind_any; intro ag
  exact MPred.pure rfl

/-- **C10, one action**: whatever the action, the six modes after `perform` are `modeEffect a` of
the six modes before — they depend on nothing else, and nothing else changes them -/
theorem perform_modes_pred (W : Nat → Option Nat) (hcb : CbModes cb) (a : Action) :
    WM (modeEffect a) (fun ws => perform W cb ws a) := by
  have hunh : ∀ e, WM id (emit cb e) := fun e => emit_sm hcb e
  cases a with
  | print c =>
    intro m ws hs
    simp only [perform, performPrint]
    apply MPred.ite <;> intro _
    · exact performExecute_sm hcb c m ws hs
    · apply MPred.ite <;> intro _
      · exact hunh _ m ws hs
      · exact onScreen_sm (f := fun s => s.text W c) (fun m s hs => modifyGrid_sm hs) m ws hs
  | execute b => exact performExecute_sm hcb b
  | hook _ _ _ _ => exact fun m ws hs => MPred.pure hs
  | put _ => exact fun m ws hs => MPred.pure hs
  | unhook => exact fun m ws hs => MPred.pure hs
  | oscDispatch params _ =>
    intro m ws hs
    simp only [perform, performOsc]
    split
    · exact MPred.bind (hunh _ m ws hs) (fun a h' => hunh _ m a h')
    all_goals exact hunh _ m ws hs
  | escDispatch ints ig b =>
    intro m ws hs
    simp only [perform, performEsc]
    split
    · exact hunh _ m ws hs
    · split
      · exact onScreen_sm (f := Screen.decsc) (fun m s hs => saveCursor_sm hs) m ws hs
      · exact onScreen_sm (f := Screen.decrc) (fun m s hs => restoreCursor_sm hs) m ws hs
      · subst hs; exact MPred.pure rfl
      · subst hs; exact MPred.pure rfl
      · exact onScreen_sm (f := Screen.ri) (fun m s hs => modifyGrid_sm hs) m ws hs
      · simp only [WS.onScreen]
        refine MPred.bind (ris_sm ws.screen) ?_
        intro a h'
        exact MPred.pure h'
      · exact hunh _ m ws hs
      · rename_i h1 h2 h3 h4 h5 h6 h7
        have e : modeEffect (.escDispatch [] ig b) m = m := by
          simp only [modeEffect, ↓reduceIte]
          rw [if_neg (fun hb => h3 hb), if_neg (fun hb => h4 hb), if_neg (fun hb => h6 hb)]
        rw [e]
        exact hunh _ m ws hs
  | csiDispatch params ints ig c =>
    intro m ws hs
    simp only [perform, performCsi]
    split
    · -- no intermediates: no mode effect
      have e : modeEffect (.csiDispatch params [] ig c) m = m := by simp [modeEffect]
      rw [e]
      split
      · exact onScreen_sm (f := fun s => s.ich (canon1 params 1)) (fun m s hs => modifyGrid_sm hs) m ws hs
      · exact onScreen_sm (f := fun s => s.cuu (canon1 params 1)) (fun m s hs => modifyGrid_sm hs) m ws hs
      · exact onScreen_sm (f := fun s => s.cud (canon1 params 1)) (fun m s hs => modifyGrid_sm hs) m ws hs
      · exact onScreen_sm (f := fun s => s.cuf (canon1 params 1)) (fun m s hs => modifyGrid_sm hs) m ws hs
      · exact onScreen_sm (f := fun s => s.cub (canon1 params 1)) (fun m s hs => modifyGrid_sm hs) m ws hs
      · exact onScreen_sm (f := fun s => s.cnl (canon1 params 1)) (fun m s hs => modifyGrid_sm hs) m ws hs
      · exact onScreen_sm (f := fun s => s.cpl (canon1 params 1)) (fun m s hs => modifyGrid_sm hs) m ws hs
      · refine onScreen_sm (f := fun s => s.cha (canon1 params 1)) ?_ m ws hs
        intro m s hs
        simp only [Screen.cha]
        apply MPred.bind_any; intro x
        exact modifyGrid_sm hs
      · refine onScreen_sm (f := fun s => s.cup (canon2 params 1 1).1 (canon2 params 1 1).2) ?_ m ws hs
        intro m s hs
        simp only [Screen.cup]
        apply MPred.bind_any; intro x
        apply MPred.bind_any; intro y
        exact modifyGrid_sm hs
      · exact arm_sm (F := id) (hunh _) (arm := fun s => s.edMode (canon1 params 0))
          (fun m s hs => edMode_sm hs _) m ws hs
      · exact arm_sm (F := id) (hunh _) (arm := fun s => s.elMode (canon1 params 0))
          (fun m s hs => elMode_sm hs _) m ws hs
      · exact onScreen_sm (f := fun s => s.il (canon1 params 1)) (fun m s hs => modifyGrid_sm hs) m ws hs
      · exact onScreen_sm (f := fun s => s.dl (canon1 params 1)) (fun m s hs => modifyGrid_sm hs) m ws hs
      · exact onScreen_sm (f := fun s => s.dch (canon1 params 1)) (fun m s hs => modifyGrid_sm hs) m ws hs
      · exact onScreen_sm (f := fun s => s.su (canon1 params 1)) (fun m s hs => modifyGrid_sm hs) m ws hs
      · exact onScreen_sm (f := fun s => s.sd (canon1 params 1)) (fun m s hs => modifyGrid_sm hs) m ws hs
      · exact onScreen_sm (f := fun s => s.ech (canon1 params 1)) (fun m s hs => modifyGrid_sm hs) m ws hs
      · refine onScreen_sm (f := fun s => s.vpa (canon1 params 1)) ?_ m ws hs
        intro m s hs
        simp only [Screen.vpa]
        apply MPred.bind_any; intro x
        exact modifyGrid_sm hs
      · exact sgr_sm (hunh _) params m ws hs
      · refine onScreen_sm (f := fun s => s.decstbm (canon2 params 1 s.cur.size.rows).1
            (canon2 params 1 s.cur.size.rows).2) ?_ m ws hs
        intro m s hs
        simp only [Screen.decstbm]
        apply MPred.bind_any; intro x
        apply MPred.bind_any; intro y
        exact modifyGrid_sm hs
      · apply MPred.ite <;> intro _
        · exact hunh _ m ws hs
        · exact hunh _ m ws hs
      · exact hunh _ m ws hs
    · -- '?'
      rename_i rest
      split
      · have e : modeEffect (.csiDispatch params (63 :: rest) ig 74) m = m := by simp [modeEffect]
        rw [e]
        exact arm_sm (F := id) (hunh _) (arm := fun s => s.edMode (canon1 params 0))
          (fun m s hs => edMode_sm hs _) m ws hs
      · have e : modeEffect (.csiDispatch params (63 :: rest) ig 75) m = m := by simp [modeEffect]
        rw [e]
        exact arm_sm (F := id) (hunh _) (arm := fun s => s.elMode (canon1 params 0))
          (fun m s hs => elMode_sm hs _) m ws hs
      · exact decset_sm (hunh _) params m ws hs
      · exact decrst_sm (hunh _) params m ws hs
      · rename_i h1 h2 h3 h4
        have e : modeEffect (.csiDispatch params (63 :: rest) ig c) m = m := by
          simp only [modeEffect, List.head?_cons, ↓reduceIte]
          rw [if_neg (fun hb => h3 hb), if_neg (fun hb => h4 hb)]
        rw [e]
        exact hunh _ m ws hs
    · rename_i _ i rest hne
      have e : modeEffect (.csiDispatch params (i :: rest) ig c) m = m := by
        have : i ≠ 63 := hne
        simp [modeEffect, this]
      rw [e]
      exact hunh _ m ws hs

end wm

/-- **C10, one action** (unfolded) -/
theorem perform_modes (W : Nat → Option Nat) {cb : CbPolicy} (hcb : CbModes cb) (a : Action)
    (ws ws' : WS) (h : perform W cb ws a = .ok ws') :
    modesOf ws'.screen = modeEffect a (modesOf ws.screen) :=
  MPred.iff.mp (perform_modes_pred W hcb a _ ws rfl) ws' h

/-- **C10, frame**: an action that is not `ESC =`, `ESC >`, `ESC c` (RIS), `CSI ? … h` or
`CSI ? … l` — printing, C0 controls, cursor movement, erasing, scrolling, SGR, DECSC / DECRC, OSC,
DCS, unknown sequences, … — leaves the six modes unchanged -/
theorem perform_modes_frame (W : Nat → Option Nat) {cb : CbPolicy} (hcb : CbModes cb) (a : Action)
    (ht : touches a = false) (ws ws' : WS) (h : perform W cb ws a = .ok ws') :
    modesOf ws'.screen = modesOf ws.screen := by
  rw [perform_modes W hcb a ws ws' h, modeEffect_frame a ht]

/-- **C10, any list of actions**: the modes are the fold of the per-action mode effects -/
theorem actions_modes (W : Nat → Option Nat) {cb : CbPolicy} (hcb : CbModes cb) :
    ∀ (acts : List Action) (ws ws' : WS), acts.foldlM (perform W cb) ws = .ok ws' →
      modesOf ws'.screen = acts.foldl (fun m a => modeEffect a m) (modesOf ws.screen) := by
  intro acts
  induction acts with
  | nil =>
    intro ws ws' h
    simp only [List.foldlM, pure_eq_ok, Except.ok.injEq] at h
    subst h; rfl
  | cons a acts ih =>
    intro ws ws' h
    simp only [List.foldlM] at h
    obtain ⟨w1, h1, h2⟩ := bind_eq_ok.mp h
    rw [ih w1 ws' h2, perform_modes W hcb a ws w1 h1]
    rfl

/-- **C10, any byte chunk fed to `Parser::process`**, from any parser state (also in the middle of
an escape sequence): the modes afterwards are the fold of the mode effects of the actions the
chunk parses to -/
theorem process_modes (W : Nat → Option Nat) {cb : CbPolicy} (hcb : CbModes cb) (p p' : Parser)
    (bytes : List Nat) (h : p.process W cb bytes = .ok p') :
    modesOf p'.screen =
      (p.vte.advance bytes).2.foldl (fun m a => modeEffect a m) (modesOf p.screen) := by
  simp only [Parser.process] at h
  obtain ⟨ws, h1, h2⟩ := bind_eq_ok.mp h
  simp only [pure_eq_ok, Except.ok.injEq] at h2
  subst h2
  exact actions_modes W hcb _ _ _ h1

/-! ### "the most recent relevant set or reset wins" -/

/-- if no action of the list changes the component `π`, it keeps its value -/
theorem none_touches {α} (π : Modes → α) :
    ∀ (acts : List Action) (m : Modes), (∀ b ∈ acts, ∀ m, π (modeEffect b m) = π m) →
      π (acts.foldl (fun m a => modeEffect a m) m) = π m := by
  intro acts
  induction acts with
  | nil => intro m _; rfl
  | cons a acts ih =>
    intro m h
    simp only [List.foldl]
    rw [ih _ (fun b hb => h b (List.mem_cons_of_mem _ hb)), h a List.mem_cons_self]

/-- **last one wins**: if `a` assigns `v` to the component `π` and no later action changes `π`,
then `π` is `v` at the end — whatever came before `a` and whatever else the later actions do -/
theorem last_wins {α} (π : Modes → α) (v : α) (pre post : List Action) (a : Action) (m : Modes)
    (hfix : ∀ m, π (modeEffect a m) = v)
    (hkeep : ∀ b ∈ post, ∀ m, π (modeEffect b m) = π m) :
    π ((pre ++ a :: post).foldl (fun m a => modeEffect a m) m) = v := by
  rw [List.foldl_append, List.foldl_cons, none_touches π post _ hkeep, hfix]

/-- the same inside one DECSET / DECRST parameter list -/
theorem none_touches_params {α} (π : Modes → α) (E : List Nat → Modes → Modes) :
    ∀ (ps : List (List Nat)) (m : Modes), (∀ p ∈ ps, ∀ m, π (E p m) = π m) →
      π (ps.foldl (fun m p => E p m) m) = π m := by
  intro ps
  induction ps with
  | nil => intro m _; rfl
  | cons p ps ih =>
    intro m h
    simp only [List.foldl]
    rw [ih _ (fun b hb => h b (List.mem_cons_of_mem _ hb)), h p List.mem_cons_self]

/-- every action that is not mode-relevant keeps every component -/
theorem keeps_of_not_touches {α} (π : Modes → α) (b : Action) (h : touches b = false) (m : Modes) :
    π (modeEffect b m) = π m := by rw [modeEffect_frame b h]

/-- Instance: application cursor.  After `… CSI ? 1 h …`, if nothing after it is RIS or a
DECSET / DECRST sequence, application-cursor mode is on — and with `perform_modes` this is
`Screen::application_cursor()` of the model after ANY such input. -/
theorem appCursor_last_set (pre post : List Action) (ig : Bool) (m : Modes)
    (hpost : ∀ b ∈ post, touches b = false) :
    ((pre ++ Action.csiDispatch [[1]] [63] ig 104 :: post).foldl (fun m a => modeEffect a m) m).appCursor
      = true :=
  last_wins (·.appCursor) true pre post _ m (fun _ => rfl)
    (fun b hb m => keeps_of_not_touches _ b (hpost b hb) m)

/-- Instance with a finer "relevant": DECSET / DECRST lists that do not mention parameter 1, and
`ESC =` / `ESC >`, are allowed after the set. -/
theorem appCursor_keeps_decset (params : List (List Nat)) (rest : List Nat) (ig : Bool)
    (h : ∀ p ∈ params, p ≠ [1]) (m : Modes) :
    (modeEffect (.csiDispatch params (63 :: rest) ig 104) m).appCursor = m.appCursor ∧
    (modeEffect (.csiDispatch params (63 :: rest) ig 108) m).appCursor = m.appCursor := by
  constructor
  · rw [modeEffect_decset]
    exact none_touches_params (·.appCursor) setEff params m
      (fun p hp m => by rw [setEff_appCursor, if_neg (h p hp)])
  · rw [modeEffect_decrst]
    exact none_touches_params (·.appCursor) rstEff params m
      (fun p hp m => by rw [rstEff_appCursor, if_neg (h p hp)])

/-! ### DECSET / DECRST lists with unhandled heads (complements `decset_cons` / `decrst_cons`) -/

/-- the parameters `Screen::decset` / `decrst` have an arm for -/
def handledParam (p : List Nat) : Bool :=
  p == [1] || p == [6] || p == [9] || p == [25] || p == [47] || p == [1000] || p == [1002] ||
    p == [1003] || p == [1005] || p == [1006] || p == [1049] || p == [2004]

theorem decsetOne_unhandled (s : Screen) (p : List Nat) (h : handledParam p = false) :
    s.decsetOne p = .ok none := by
  simp only [handledParam, Bool.or_eq_false_iff, beq_eq_false_iff_ne, ne_eq] at h
  unfold Screen.decsetOne
  split <;> first | rfl | simp_all

theorem decrstOne_unhandled (s : Screen) (p : List Nat) (h : handledParam p = false) :
    s.decrstOne p = .ok none := by
  simp only [handledParam, Bool.or_eq_false_iff, beq_eq_false_iff_ne, ne_eq] at h
  unfold Screen.decrstOne
  split <;> first | rfl | simp_all

/-- an unhandled head: the `unhandled` callback runs (with the whole parameter list in the event),
then the rest of the list applies -/
theorem decset_cons_unhandled (unh : WS → M WS) (p : List Nat) (ps : List (List Nat)) (ws : WS)
    (h : handledParam p = false) :
    decset unh (p :: ps) ws = (unh ws >>= fun ws' => decset unh ps ws') := by
  simp [decset, List.foldlM, decsetOne_unhandled _ p h]

theorem decrst_cons_unhandled (unh : WS → M WS) (p : List Nat) (ps : List (List Nat)) (ws : WS)
    (h : handledParam p = false) :
    decrst unh (p :: ps) ws = (unh ws >>= fun ws' => decrst unh ps ws') := by
  simp [decrst, List.foldlM, decrstOne_unhandled _ p h]

/-- an unhandled parameter has no mode effect -/
theorem handled_of_modeParam (p : List Nat) (h : handledParam p = false) : modeParam p = false := by
  simp only [handledParam, modeParam, Bool.or_eq_false_iff, beq_eq_false_iff_ne, ne_eq] at h ⊢
  simp_all

/-! ### tests: the statements are not vacuous (concrete runs of the model) -/

/-- TEST: a 2x4 parser fed `ESC =`, `x`, `CSI ? 1 ; 77 ; 1000 h`, LF, `CSI ? 9 l` (a no-op:
the active mouse mode is 1000), `CSI ? 47 h`, `ESC 7`, `CSI 2 J`: the run succeeds and the modes
are as the fold says (keypad on, app cursor on, mouse = press-release) -/
theorem modes_nonvacuous :
    isOkTrue (do
      let p ← Parser.new 2 4 3
      let p ← p.process (fun _ => some 1) cbNone
        [0x1B, 61, 120, 0x1B, 0x5B, 0x3F, 49, 0x3B, 55, 55, 0x3B, 49, 48, 48, 48, 104, 10,
         0x1B, 0x5B, 0x3F, 57, 108, 0x1B, 0x5B, 0x3F, 52, 55, 104, 0x1B, 55, 0x1B, 0x5B, 50, 74]
      pure (decide (modesOf p.screen = ⟨true, true, false, false, .pressRelease, .default⟩))) = true := by
  decide +kernel

end Vt.C10

/-
#print axioms Vt.C10.perform_modes
#print axioms Vt.C10.perform_modes_frame
#print axioms Vt.C10.actions_modes
#print axioms Vt.C10.process_modes
#print axioms Vt.C10.last_wins
#print axioms Vt.C10.modeEffect_frame
#print axioms Vt.C10.setEff_other
#print axioms Vt.C10.rstEff_other
#print axioms Vt.C10.modes_nonvacuous
#print axioms Vt.C10.decset_cons_unhandled
#print axioms Vt.C10.decrst_cons_unhandled
-/
