import Vt.Props.C15win
import Vt.Props.C15diff
import Vt.Props.C15
import Vt.Props.C02
/-
  MiscC15 — C15: element `k` of `rows_formatted(start, width)` IS the row call, and the API-level
  corollary of `C15win.row_window_draws`.

  * `wrapAt` / `rowsFormattedLoop_get` : element `k` of
    `Screen.rowsFormattedLoop fw start width rs i w` is the byte string returned by
        rs[k].writeContentsFormatted start width (i + k) (wrapAt fw rs w k) none none
    where the `wrapping` argument the loop passes is
        `w`                      for `k = 0`, and for every `k` when `fw = false`;
        `rs[k-1].wrapped`        for `k ≥ 1` when `fw = true` (full-width window).
    `rows_formatted` calls the loop with `i = 0`, `w = false`,
    `fw = (start == 0 && width == self.grid.size.cols)`: so for a PROPER sub-window every row is emitted
    with `wrapping = false` (`rows_formatted_get_sub`), and for the full-width window row `k ≥ 1` is emitted
    with `wrapping =` the wrap flag of the previous visible row, row 0 with `false`
    (`rows_formatted_get_full`).
  * `rows_formatted_window_draws` : for a screen `S` (`SrcScreen W S`, `Inv W S`), a proper sub-window
    `[start, start+width)` whose edges do not split a wide character of line `i`, element `i` of
    `S.rows_formatted(start, width)` processed by a receiver whose line `i` is blank, cursor at
    `(i, start)`, default pen, makes the window of line `i` show `S`'s line `i` cell for cell
    (everything `C15win.row_window_draws` concludes).
-/
namespace Vt.MiscC15
open Vt Vt.Recv Vt.C19 Vt.C09 Vt.RowDraw Vt.GridDraw Vt.C03 Vt.C01 Vt.Bytes Vt.DiffRow
set_option linter.unusedSimpArgs false
set_option linter.unusedVariables false

variable {W : Nat → Option Nat} {cb : CbPolicy}

/-- the `wrapping` argument `rows_formatted`'s loop passes to row `k` (loop started with `w`) -/
def wrapAt (fw : Bool) (rs : List Row) (w : Bool) (k : Nat) : Bool :=
  if fw = true ∧ 0 < k then ((rs[k - 1]?).map (·.wrapped)).getD false else w

theorem wrapAt_zero (fw : Bool) (rs : List Row) (w : Bool) : wrapAt fw rs w 0 = w := by
  simp [wrapAt]

theorem wrapAt_sub (rs : List Row) (w : Bool) (k : Nat) : wrapAt false rs w k = w := by
  simp [wrapAt]

theorem wrapAt_full_succ (rs : List Row) (w : Bool) (k : Nat) (hk : k < rs.length) :
    wrapAt true rs w (k + 1) = rs[k].wrapped := by
  simp [wrapAt, List.getElem?_eq_getElem hk]

theorem wrapAt_cons_succ (fw : Bool) (r : Row) (rs : List Row) (w : Bool) (k : Nat) :
    wrapAt fw (r :: rs) w (k + 1) = wrapAt fw rs (if fw then r.wrapped else w) k := by
  unfold wrapAt
  cases fw
  · simp
  · cases k with
    | zero => simp
    | succ k => simp

/-- **element `k` of the loop's result is the `k`-th row call** (with exactly the arguments the loop
passes) -/
theorem rowsFormattedLoop_get (fw : Bool) (start width : Nat) :
    ∀ (rs : List Row) (i : Nat) (w : Bool) (res : List (List Nat)),
    Screen.rowsFormattedLoop fw start width rs i w = .ok res →
    ∀ k (hk : k < rs.length), ∃ bs np na,
      rs[k].writeContentsFormatted start width (i + k) (wrapAt fw rs w k) none none = .ok (bs, np, na) ∧
      res[k]? = some bs
  | [], _, _, _, _, k, hk => absurd hk (Nat.not_lt_zero _)
  | r :: rest, i, w, res, e, k, hk => by
    rw [Screen.rowsFormattedLoop] at e
    obtain ⟨⟨bs, np, na⟩, e1, e⟩ := bind_eq_ok.mp e
    obtain ⟨tl, e2, e⟩ := bind_eq_ok.mp e
    simp only [pure_eq_ok, Except.ok.injEq] at e
    subst e
    cases k with
    | zero => exact ⟨bs, np, na, by simpa [wrapAt_zero] using e1, rfl⟩
    | succ k =>
      obtain ⟨bs', np', na', e', hr⟩ :=
        rowsFormattedLoop_get fw start width rest (i + 1) _ tl e2 k (by simpa using hk)
      refine ⟨bs', np', na', ?_, by simpa using hr⟩
      have : i + (k + 1) = i + 1 + k := by omega
      rw [this, wrapAt_cons_succ]
      simpa using e'

/-- the number of elements is the number of visible rows (re-export for the API statements) -/
theorem rowsFormattedLoop_len (fw : Bool) (start width : Nat) (rs : List Row) (i : Nat) (w : Bool)
    (res : List (List Nat)) (e : Screen.rowsFormattedLoop fw start width rs i w = .ok res) :
    res.length = rs.length := C15.rowsFormattedLoop_length fw start width rs i w res e

/-- **`rows_formatted(start, width)`, proper sub-window**: element `k` is row `k` of the view emitted by
`write_contents_formatted(start, width, k, wrapping = false, None, None)` -/
theorem rows_formatted_get_sub (s : Screen) (start width : Nat)
    (hsub : (start == 0 && width == s.grid.size.cols) = false)
    (vis : List Row) (hv : s.cur.visibleRows = .ok vis) (res : List (List Nat))
    (e : s.rowsFormatted start width = .ok res) (k : Nat) (hk : k < vis.length) :
    ∃ bs np na, vis[k].writeContentsFormatted start width k false none none = .ok (bs, np, na) ∧
      res[k]? = some bs := by
  simp only [Screen.rowsFormatted, hv, ok_bind, hsub] at e
  obtain ⟨bs, np, na, h1, h2⟩ := rowsFormattedLoop_get false start width vis 0 false res e k hk
  rw [wrapAt_sub, Nat.zero_add] at h1
  exact ⟨bs, np, na, h1, h2⟩

/-- **`rows_formatted(0, cols)`, the full-width window**: element `0` is emitted with
`wrapping = false`, element `k + 1` with `wrapping =` the wrap flag of visible row `k` -/
theorem rows_formatted_get_full (s : Screen)
    (vis : List Row) (hv : s.cur.visibleRows = .ok vis) (res : List (List Nat))
    (e : s.rowsFormatted 0 s.grid.size.cols = .ok res) (k : Nat) (hk : k < vis.length) :
    ∃ bs np na,
      vis[k].writeContentsFormatted 0 s.grid.size.cols k
        (match k with | 0 => false | j + 1 => ((vis[j]?).map (·.wrapped)).getD false) none none
        = .ok (bs, np, na) ∧
      res[k]? = some bs := by
  simp only [Screen.rowsFormatted, hv, ok_bind, beq_self_eq_true, Bool.and_self] at e
  obtain ⟨bs, np, na, h1, h2⟩ := rowsFormattedLoop_get true 0 s.grid.size.cols vis 0 false res e k hk
  rw [Nat.zero_add] at h1
  refine ⟨bs, np, na, ?_, h2⟩
  cases k with
  | zero => rw [wrapAt_zero] at h1; exact h1
  | succ j =>
    rw [wrapAt_full_succ vis false j (by omega)] at h1
    simp only [List.getElem?_eq_getElem (show j < vis.length by omega), Option.map_some, Option.getD_some]
    exact h1

/-- **C15, `rows_formatted(start, width)`, one line of a proper sub-window, API level.**
`S` a source screen (`SrcScreen`: not scrolled back, rows well formed; `Inv`), `[start, start + width)` a
non-empty window inside the screen that is NOT the full width, whose edges do not split a wide character
of line `i`.  Then `S.rows_formatted(start, width)` returns, its element `i` exists, and processing it on
a receiver of the same size whose line `i` is blank, with the cursor at `(i, start)` and the default pen:
  * the window of line `i` shows `S`'s line `i` cell for cell;
  * the columns left of the window stay blank; the columns right of it are blank cells all with the same
    attributes `a` (default ones when the last cell of the window is occupied);
  * the line is not wrapped; every other line, the modes, etc. are as before (`shape`). -/
theorem rows_formatted_window_draws (hW : WOk W) (S : Screen) (hS : SrcScreen W S) (hIS : Inv W S)
    (start width : Nat) (hwd : 0 < width) (hfit : start + width ≤ S.cur.size.cols)
    (hsub : 0 < start ∨ start + width < S.cur.size.cols)
    (i : Nat) (hi : i < S.cur.size.rows)
    (hL : start = 0 ∨ ∀ c, (S.cur.rows[i]'(by rw [hS.alloc]; exact hi)).cells[start]? = some c → c.cont = false)
    (hR : start + width = S.cur.size.cols ∨
      ∀ c, (S.cur.rows[i]'(by rw [hS.alloc]; exact hi)).cells[start + width]? = some c → c.cont = false)
    (p0 : Parser) (hr : Ready p0) (hcv : Canvas (rsOf p0.ws).g)
    (hqsz : (rsOf p0.ws).g.size = S.cur.size)
    (Ri0 : Row) (hrow : (rsOf p0.ws).g.rows[i]? = some Ri0)
    (hblank : Line (S.cur.rows[i]'(by rw [hS.alloc]; exact hi)).cells 0 Ri0)
    (hpos : (rsOf p0.ws).g.pos = ⟨i, start⟩) (hpen : (rsOf p0.ws).pen = Attrs.default) :
    ∃ res bs, S.rowsFormatted start width = .ok res ∧ res.length = S.cur.size.rows ∧ res[i]? = some bs ∧
      ∃ Ri np na, Emitted W cb p0 bs (shape (rsOf p0.ws) i Ri np na) ∧
        (∀ k, start ≤ k → k < start + width →
          (Ri.cells[k]?).map view = ((S.cur.rows[i]'(by rw [hS.alloc]; exact hi)).cells[k]?).map view) ∧
        (∀ k, k < start → (Ri.cells[k]?).map view = some blankV) ∧
        (∃ a, ∀ k, start + width ≤ k → k < S.cur.size.cols → (Ri.cells[k]?).map view = some (blankA a)) ∧
        Ri.wrapped = false ∧ Ri.cells.length = S.cur.size.cols := by
  have hiS : i < S.cur.rows.length := by rw [hS.alloc]; exact hi
  have hwS := hS.rows.width _ (List.getElem_mem hiS)
  obtain ⟨res, eres⟩ := C03.rows_formatted_total hIS start width
  have hvS := C19.visibleRows_offset0 S.cur hS.off
  -- `rows_formatted` compares with the width of the PRIMARY grid; under `Inv` both grids have the same size
  have hsame : S.grid.size.cols = S.cur.size.cols := by
    have h := ((inv_iff W S).mp hIS).same_size
    unfold Screen.cur
    cases S.altScreen <;> simp [h]
  have hsub' : (start == 0 && width == S.grid.size.cols) = false := by
    rw [hsame]
    rcases hsub with h | h
    · have : (start == 0) = false := by rw [beq_eq_false_iff_ne]; omega
      rw [this]; rfl
    · have : (width == S.cur.size.cols) = false := by rw [beq_eq_false_iff_ne]; omega
      rw [this, Bool.and_false]
  obtain ⟨bs, np, na, ebs, hget⟩ := rows_formatted_get_sub S start width hsub' S.cur.rows hvS res eres i hiS
  have hlen : res.length = S.cur.size.rows := by
    have e := eres
    simp only [Screen.rowsFormatted, hvS, ok_bind] at e
    rw [rowsFormattedLoop_len _ _ _ _ _ _ _ e, hS.alloc]
  have hrd := C15win.row_window_draws (cb := cb) hW p0 hr hcv i (by rw [hqsz]; exact hi) S.cur.rows[i]
    (by rw [hqsz]; exact hwS) (hS.rows.ok _ (List.getElem_mem hiS)) start width hwd (by rw [hwS]; exact hfit)
    hL (by rw [hwS]; exact hR) Ri0 hrow hblank hpos hpen
  obtain ⟨out, np', na', e', Ri, hem, h1, h2, h3, h4, h5, _, _⟩ := hrd
  rw [ebs] at e'
  simp only [Except.ok.injEq, Prod.mk.injEq] at e'
  obtain ⟨rfl, rfl, rfl⟩ := e'
  refine ⟨res, bs, eres, hlen, hget, Ri, np, na, hem, h1, h2, ?_, h4, h5.trans hwS⟩
  obtain ⟨a, ha⟩ := h3
  exact ⟨a, fun k hk1 hk2 => ha k hk1 (by rw [hwS]; exact hk2)⟩

/-! ### the hypotheses are satisfiable (test) -/

/-- `S` = a 3 x 5 screen with "a", a wide CJK character, "b" in red on line 1 ("a一b" + blank); the window
`[1, 4)` of line 1 has the wide character entirely inside (its edges split nothing).  `S` satisfies the
Boolean invariants from which `SrcScreen` and `Inv` follow (`C01.srcScreen_of_inv`); the receiver is a new
parser moved to `(1, 1)` with `ESC[2;2H`: ready, blank line 1, default pen.  And — as the theorem says —
fed element 1 of `S.rows_formatted(1, 3)` its window `[1, 4)` of line 1 shows `S`'s cells, column 0 stays
blank.  Kernel-evaluated; a test. -/
theorem rows_formatted_window_draws_nonvacuous :
    isOkTrue (do
      let s ← C02.run 3 5 0 [[0x1b, 0x5b, 0x32, 0x3b, 0x31, 0x48, 0x1b, 0x5b, 0x33, 0x31, 0x6d, 97, 0xE4, 0xB8, 0x80, 98]]
      let q ← C02.run 3 5 0 [[0x1b, 0x5b, 0x32, 0x3b, 0x32, 0x48]]
      let d ← s.screen.rowsFormatted 1 3
      let r ← q.process W0 cbNone (d.getD 1 [])
      let cells (x : Screen) (i : Nat) := (x.cur.rows.getD i (Row.new 0)).cells.map view
      let srow := s.screen.cur.rows.getD 1 (Row.new 0)
      pure (emitInvB W0 s.screen && s.screen.cur.scrollbackOffset == 0 &&
            decide (q.vte.state = .ground) && decide (q.vte.carry = []) &&
            q.screen.cur.pos == ⟨1, 1⟩ && q.screen.attrs == Attrs.default &&
            q.screen.cur.rows.getD 1 (Row.new 0) == Row.new 5 && q.screen.cur.size == s.screen.cur.size &&
            (srow.cells.getD 1 Cell.new).wide && !(srow.cells.getD 1 Cell.new).cont &&
            !(srow.cells.getD 4 Cell.new).cont &&
            d.length == 3 &&
            decide (((cells r.screen 1).drop 1).take 3 = ((cells s.screen 1).drop 1).take 3) &&
            decide ((cells r.screen 1).take 1 = [blankV]) &&
            decide ((cells s.screen 1).take 1 ≠ [blankV]))) = true := by
  decide +kernel

end Vt.MiscC15

/-
#print axioms Vt.MiscC15.rowsFormattedLoop_get
#print axioms Vt.MiscC15.rows_formatted_get_sub
#print axioms Vt.MiscC15.rows_formatted_get_full
#print axioms Vt.MiscC15.rows_formatted_window_draws
-/
