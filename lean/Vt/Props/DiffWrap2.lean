/-
  Vt.Props.DiffWrap2 — C02 for changed soft-wrapped lines, part 2: lines that FOLLOW a line wrapped in S
  (`wrapping = true`).

  Part A (emitter level, no receiver): the three wrap-through branches of `Row::write_contents_diff` (the repair in
  `diffStart`, the move-less first character in `fmtCellStep`, the space padding in `eraseMove`) are taken only while
  the emitter's cursor `prev_pos` is still on the line above, in one of its last two columns.  `Unparked` says it is
  not; it is preserved by every step of the emitter, and under it `wrapping = true` emits exactly what
  `wrapping = false` emits (`writeContentsDiff_irrel`).
-/
import Vt.Props.DiffWrap1
namespace Vt.C02
open Vt Vt.Recv Vt.C19 Vt.C09 Vt.RowDraw Vt.C03 Vt.Bytes Vt.DiffRow Vt.C15wrap
set_option linter.unusedSimpArgs false
set_option linter.unusedVariables false

variable {W : Nat → Option Nat} {cb : CbPolicy}

/-! ### Part A: when the emitter's cursor is not parked on the line above, `wrapping` is irrelevant -/

/-- the emitter's cursor is NOT on the line above `row` in one of its last two columns (`cols-1`: a wide character
typed there wraps; `cols`: the pending-wrap column) -/
def Unparked (cols row : Nat) (p : Pos) : Prop := ¬ (p.row + 1 = row ∧ cols ≤ p.col + 1)

/-- the emitter's cursor is NOT in the pending-wrap column of the line above `row` -/
def NotFull (cols row : Nat) (p : Pos) : Prop := ¬ (p.row + 1 = row ∧ cols ≤ p.col)

instance (cols row : Nat) (p : Pos) : Decidable (Unparked cols row p) := by unfold Unparked; infer_instance
instance (cols row : Nat) (p : Pos) : Decidable (NotFull cols row p) := by unfold NotFull; infer_instance

theorem unparked_on_row (cols row col : Nat) : Unparked cols row ⟨row, col⟩ := by
  unfold Unparked; simp

theorem Unparked.notFull {cols row : Nat} {p : Pos} (h : Unparked cols row p) : NotFull cols row p := by
  unfold Unparked at h; unfold NotFull; omega

/-- the cell pair at column 0 (if it is in the list) is not a CHANGED WIDE character -/
def FirstOk (l : List (Nat × (Cell × Cell))) : Prop :=
  ∀ x ∈ l, x.1 = 0 → ¬ (x.2.1.eq x.2.2 = false ∧ x.2.1.isWide = true)

/-- what makes `wrapping` irrelevant for the cells in `l`: the cursor is not in the pending-wrap column of the line
above, and if it is in the column before that one, the first cell is not a changed wide character -/
def Irrel (cols row : Nat) (p : Pos) (l : List (Nat × (Cell × Cell))) : Prop :=
  NotFull cols row p ∧ (Unparked cols row p ∨ FirstOk l)

theorem eraseMove_irrel (cols row : Nat) (st : Row.FmtSt) (c : Nat) (a : Attrs) (h : NotFull cols row st.prevPos) :
    Row.eraseMove cols row true st c a = Row.eraseMove cols row false st c a := by
  unfold NotFull at h
  have hc : (true && st.prevPos.row + 1 == ({ row := row, col := c } : Pos).row && decide (st.prevPos.col ≥ cols)) = false := by
    simp only [Bool.true_and, Bool.and_eq_false_imp, beq_iff_eq, decide_eq_false_iff_not]
    intro h1; omega
  simp only [Row.eraseMove, hc, Bool.false_and, Bool.false_eq_true, ↓reduceIte]

theorem flush_irrel (cols row : Nat) (st : Row.FmtSt) (col : Nat) (c : Cell) (h : NotFull cols row st.prevPos) :
    C03.flush cols row true st col c = C03.flush cols row false st col c ∧
      ∀ st', C03.flush cols row false st col c = .ok st' →
        NotFull cols row st'.prevPos ∧ (Unparked cols row st.prevPos → Unparked cols row st'.prevPos) := by
  unfold C03.flush
  cases he : st.erase with
  | none => exact ⟨rfl, fun st' h' => by simp only [pure_eq_ok, Except.ok.injEq] at h'; subst h'; exact ⟨h, id⟩⟩
  | some pa =>
    obtain ⟨pc, a⟩ := pa
    simp only [eraseMove_irrel cols row st pc a h, true_and]
    intro st' h'
    split at h'
    · cases hs : subM 331 col pc with
      | error e => rw [hs] at h'; simp at h'
      | ok k =>
        rw [hs] at h'
        simp only [ok_bind, pure_eq_ok, Except.ok.injEq] at h'
        subst h'
        exact ⟨(unparked_on_row _ _ _).notFull, fun _ => unparked_on_row _ _ _⟩
    · simp only [pure_eq_ok, Except.ok.injEq] at h'; subst h'; exact ⟨h, id⟩

/-- where the emitter's cursor is after the second half of the per-cell body: where it was, or on this line -/
theorem emit_pos (cols row : Nat) (w : Bool) (st : Row.FmtSt) (col : Nat) (c : Cell) (d : Bool) (st' : Row.FmtSt)
    (h' : C03.emit cols row w st col c d = .ok st') : st'.prevPos = st.prevPos ∨ st'.prevPos.row = row := by
  unfold C03.emit at h'
  by_cases hd : d = true
  · simp only [hd, ↓reduceIte] at h'
    by_cases hh : c.hasContents = true
    · simp only [hh, ↓reduceIte] at h'
      cases hb : c.contentsBytes with
      | error e => rw [hb] at h'; simp at h'
      | ok bs =>
        rw [hb] at h'
        simp only [ok_bind, pure_eq_ok, Except.ok.injEq] at h'
        subst h'
        right
        by_cases hne : (({ row := row, col := col } : Pos) != st.prevPos) = true
        · simp only [hne, ↓reduceIte]
          split <;> rfl
        · have : st.prevPos = ⟨row, col⟩ := by
            have := hne; simp only [bne_iff_ne, ne_eq, Decidable.not_not] at this; exact this.symm
          simp only [hne, Bool.false_eq_true, ↓reduceIte]
          split <;> simp [this]
    · simp only [hh, Bool.false_eq_true, ↓reduceIte] at h'
      split at h'
      · simp only [pure_eq_ok, Except.ok.injEq] at h'; subst h'; exact Or.inl rfl
      · simp only [pure_eq_ok, Except.ok.injEq] at h'; subst h'; exact Or.inl rfl
  · simp only [hd, Bool.false_eq_true, ↓reduceIte, pure_eq_ok, Except.ok.injEq] at h'
    subst h'; exact Or.inl rfl

theorem emit_irrel (cols row : Nat) (st : Row.FmtSt) (col : Nat) (c : Cell) (d : Bool)
    (h2 : Unparked cols row st.prevPos ∨ col ≠ 0 ∨ (NotFull cols row st.prevPos ∧ ¬ (d = true ∧ c.isWide = true))) :
    C03.emit cols row true st col c d = C03.emit cols row false st col c d := by
  by_cases hd : d = true
  · have hmv : (!true || st.prevPos.row + 1 != ({ row := row, col := col } : Pos).row ||
        decide (st.prevPos.col < cols - if c.isWide = true then 1 else 0) ||
        ({ row := row, col := col } : Pos).col != 0) = true := by
      simp only [Bool.not_true, Bool.false_or, Bool.or_eq_true, bne_iff_ne, ne_eq, decide_eq_true_eq]
      by_cases h1 : st.prevPos.row + 1 = row
      · by_cases h0 : col = 0
        · refine Or.inl (Or.inr ?_)
          rcases h2 with h2 | h2 | ⟨h, h2⟩
          · unfold Unparked at h2; split <;> omega
          · exact absurd h0 h2
          · unfold NotFull at h
            have : c.isWide = false := by
              cases hw : c.isWide
              · rfl
              · exact absurd ⟨hd, hw⟩ h2
            rw [this]; simp only [Bool.false_eq_true, ↓reduceIte]; omega
        · exact Or.inr h0
      · exact Or.inl (Or.inl h1)
    unfold C03.emit
    simp only [hmv, Bool.not_false, Bool.true_or, ↓reduceIte]
  · have hd' : d = false := by simpa using hd
    subst hd'
    unfold C03.emit
    simp

theorem pos_keeps {cols row : Nat} {p p' : Pos} (h : p' = p ∨ p'.row = row) :
    (NotFull cols row p → NotFull cols row p') ∧ (Unparked cols row p → Unparked cols row p') := by
  rcases h with h | h
  · rw [h]; exact ⟨id, id⟩
  · unfold NotFull Unparked; constructor <;> intro _ <;> omega

theorem fmtCellStep_irrel (cols row : Nat) (st : Row.FmtSt) (col : Nat) (c : Cell) (d : Bool)
    (h : NotFull cols row st.prevPos)
    (h2 : Unparked cols row st.prevPos ∨ col ≠ 0 ∨ ¬ (d = true ∧ c.isWide = true)) :
    Row.fmtCellStep cols row true st col c d = Row.fmtCellStep cols row false st col c d ∧
      ∀ st', Row.fmtCellStep cols row false st col c d = .ok st' →
        NotFull cols row st'.prevPos ∧ (Unparked cols row st.prevPos → Unparked cols row st'.prevPos) := by
  rw [C03.fmtCellStep_eq, C03.fmtCellStep_eq]
  obtain ⟨e1, u1⟩ := flush_irrel cols row st col c h
  rw [e1]
  cases hf : C03.flush cols row false st col c with
  | error e => exact ⟨rfl, fun st' h' => by simp at h'⟩
  | ok st1 =>
    simp only [ok_bind]
    obtain ⟨n1, k1⟩ := u1 st1 hf
    have h2' : Unparked cols row st1.prevPos ∨ col ≠ 0 ∨ ¬ (d = true ∧ c.isWide = true) := by
      rcases h2 with h2 | h2
      · exact Or.inl (k1 h2)
      · exact Or.inr h2
    refine ⟨emit_irrel cols row st1 col c d (h2'.imp id (fun h => h.imp id (fun h => ⟨n1, h⟩))), ?_⟩
    intro st' h'
    obtain ⟨a, b⟩ := pos_keeps (cols := cols) (emit_pos cols row false st1 col c d st' h')
    exact ⟨a n1, fun hu => b (k1 hu)⟩

theorem diffStep_irrel (cols row : Nat) (st : Row.FmtSt) (p : Nat × (Cell × Cell)) (l : List (Nat × (Cell × Cell)))
    (h : Irrel cols row st.prevPos (p :: l)) :
    Row.diffStep cols row true st p = Row.diffStep cols row false st p ∧
      ∀ st', Row.diffStep cols row false st p = .ok st' → Irrel cols row st'.prevPos l := by
  obtain ⟨hn, hu⟩ := h
  have hl : FirstOk (p :: l) → FirstOk l := fun hf x hx => hf x (List.mem_cons_of_mem _ hx)
  obtain ⟨col, cell, prevCell⟩ := p
  unfold Row.diffStep
  simp only
  by_cases hw : st.prevWasWide = true
  · simp only [hw, ↓reduceIte, pure_eq_ok, Except.ok.injEq, true_and]
    intro st' h'; subst h'
    exact ⟨hn, hu.imp id hl⟩
  · simp only [hw, Bool.false_eq_true, ↓reduceIte]
    have h2 : Unparked cols row st.prevPos ∨ col ≠ 0 ∨ ¬ ((!cell.eq prevCell) = true ∧ cell.isWide = true) := by
      rcases hu with hu | hu
      · exact Or.inl hu
      · by_cases h0 : col = 0
        · refine Or.inr (Or.inr ?_)
          have := hu (col, cell, prevCell) (List.mem_cons_self ..) h0
          simpa using this
        · exact Or.inr (Or.inl h0)
    obtain ⟨e1, u1⟩ := fmtCellStep_irrel cols row { st with prevWasWide := cell.isWide } col cell (!cell.eq prevCell) hn h2
    refine ⟨e1, fun st' h' => ?_⟩
    obtain ⟨a, b⟩ := u1 st' h'
    exact ⟨a, hu.imp b hl⟩

theorem fold_irrel (cols row : Nat) : ∀ (l : List (Nat × (Cell × Cell))) (st : Row.FmtSt), Irrel cols row st.prevPos l →
    l.foldlM (Row.diffStep cols row true) st = l.foldlM (Row.diffStep cols row false) st ∧
      ∀ st', l.foldlM (Row.diffStep cols row false) st = .ok st' → NotFull cols row st'.prevPos
  | [], st, h => ⟨rfl, fun st' h' => by simp only [List.foldlM_nil, pure_eq_ok, Except.ok.injEq] at h'; subst h'; exact h.1⟩
  | p :: l, st, h => by
    obtain ⟨e1, u1⟩ := diffStep_irrel cols row st p l h
    simp only [List.foldlM_cons, e1]
    cases hs : Row.diffStep cols row false st p with
    | error e => exact ⟨rfl, fun st' h' => by simp at h'⟩
    | ok st1 =>
      simp only [ok_bind]
      exact fold_irrel cols row l st1 (u1 st1 hs)

theorem fmtFinish_irrel (cols row : Nat) (st : Row.FmtSt) (h : NotFull cols row st.prevPos) :
    Row.fmtFinish cols row true st = Row.fmtFinish cols row false st := by
  unfold Row.fmtFinish
  cases he : st.erase with
  | none => rfl
  | some pa =>
    obtain ⟨pc, a⟩ := pa
    simp only [eraseMove_irrel cols row st pc a h]

theorem diffStart_false (r prev : Row) (start row : Nat) (pw : Bool) (pp : Pos) (pa : Attrs) :
    Row.diffStart r prev start row false pw pp pa = .ok ⟨false, pp, pa, none, []⟩ := by
  unfold Row.diffStart
  cases r.cells[start]? <;> cases prev.cells[start]? <;> simp

theorem diffStart_irrel (r prev : Row) (start row : Nat) (pw : Bool) (pp : Pos) (pa : Attrs)
    (h : Unparked r.cols row pp ∨ pw = true) :
    Row.diffStart r prev start row true pw pp pa = .ok ⟨false, pp, pa, none, []⟩ := by
  unfold Row.diffStart
  cases h1 : r.cells[start]? with
  | none => simp
  | some fc =>
    cases h2 : prev.cells[start]? with
    | none => simp
    | some pfc =>
      have hc : (true && !pw && fc.eq pfc && pp.row + 1 == row &&
          decide (pp.col ≥ r.cols - if pfc.isWide = true then 1 else 0)) = false := by
        rcases h with h | h
        · unfold Unparked at h
          simp only [Bool.true_and, Bool.and_eq_false_imp, Bool.and_eq_true, Bool.not_eq_eq_eq_not, Bool.not_true, beq_iff_eq,
            decide_eq_false_iff_not, and_imp]
          intro _ _ h3
          split <;> omega
        · simp [h]
      simp only [hc, Bool.false_eq_true, ↓reduceIte, pure_eq_ok]

/-- **`wrapping = true` emits what `wrapping = false` emits** unless the emitter's cursor is parked at the end of the
line above: in its pending-wrap column, or — when the line's first cell is a changed wide character, or the line above
has just become wrapped — in the column before it -/
theorem writeContentsDiff_irrel (r prev : Row) (start width row : Nat) (pw : Bool) (pp : Pos) (pa : Attrs)
    (h : Irrel r.cols row pp (Row.window (r.cells.zip prev.cells) start width))
    (h2 : Unparked r.cols row pp ∨ pw = true) :
    r.writeContentsDiff prev start width row true pw pp pa = r.writeContentsDiff prev start width row false pw pp pa := by
  unfold Row.writeContentsDiff
  rw [diffStart_irrel r prev start row pw pp pa h2, diffStart_false]
  simp only [ok_bind]
  obtain ⟨e1, u1⟩ := fold_irrel r.cols row (Row.window (r.cells.zip prev.cells) start width) ⟨false, pp, pa, none, []⟩ h
  rw [e1]
  cases hs : (Row.window (r.cells.zip prev.cells) start width).foldlM (Row.diffStep r.cols row false) ⟨false, pp, pa, none, []⟩ with
  | error e => rfl
  | ok st1 =>
    simp only [ok_bind]
    rw [fmtFinish_irrel r.cols row st1 (u1 st1 hs)]

/-! ### Part B: the receiver's autowrap — typing at (or, for a wide character, just before) the pending-wrap column -/

/-- `Canvas.text_wraps` for any cursor column from which a character of width `w` does not fit: the pending-wrap
column, and for a wide character also the last column -/
theorem text_wraps_gen {g : Grid} (h : Canvas g) (a : Attrs) (c w : Nat) (row : Row) (last : Cell)
    (hw : min ((W c).getD 1) 2 = w) (hw1 : 1 ≤ w) (hwc : w ≤ g.size.cols) (hnc : ¬ (W c = none ∧ c < 256))
    (hlim : g.pos.col > g.size.cols - w) (hrow : g.rows[g.pos.row]? = some row) (hnext : g.pos.row + 1 < g.size.rows)
    (hlast : row.cells[g.size.cols - 1]? = some last) (hocc : (last.hasContents || last.cont) = true) :
    g.text W a c = (wrapNext g row).text W a c := by
  have h1' : ((W c).isNone && decide (c < 256)) = false := by
    cases hn : (W c).isNone <;> simp_all
  have hw0 : (w == 0) = false := by rw [beq_eq_false_iff_ne]; omega
  have hc1 := h.cols_pos
  have hdec : g.wrapDecision w = .ok true := by
    simp only [Grid.wrapDecision, subM_ok hwc, ok_bind, hlim, ↓reduceIte, subM_ok hc1, Grid.drawingCellM,
      Grid.drawingCell, Grid.drawingRow, hrow, Option.bind_some, Row.get, hlast, pure_bind', Cell.isWideContinuation,
      pure_eq_ok, Except.ok.injEq]
    exact hocc
  have hin : ({ g with pos := ⟨g.pos.row, 0⟩ } : Grid).inScrollRegion = true := by
    simp [Grid.inScrollRegion, h.top, h.bottom]; omega
  have hlf := C08.lf_inside ({ g with pos := ⟨g.pos.row, 0⟩ } : Grid) h.rows_pos
    (by rw [hin]; simp only [↓reduceIte, h.bottom]; omega) (by have := h.rows_u16; simp only; omega)
    (by simp [h.top])
  have hcw : g.colWrap w true = .ok (wrapNext g row) := by
    simp only [Grid.colWrap, subM_ok hwc, ok_bind, hlim, ↓reduceIte]
    have : ({ g with pos := { g.pos with col := 0 } } : Grid) = { g with pos := ⟨g.pos.row, 0⟩ } := rfl
    rw [this, hlf]
    simp only [ok_bind, Nat.lt_irrefl, gt_iff_lt, decide_false, Bool.false_and, Bool.false_eq_true, ↓reduceIte,
      subM_ok (Nat.zero_le _), Nat.sub_zero, modifyM, hrow, pure_bind', pure_eq_ok, beq_self_eq_true, Bool.and_self]
    rfl
  have hdec' : (wrapNext g row).wrapDecision w = .ok false := by
    have : ¬ (wrapNext g row).pos.col > (wrapNext g row).size.cols - w := by simp [wrapNext]
    simp only [Grid.wrapDecision, show (wrapNext g row).size = g.size from rfl, subM_ok hwc, ok_bind]
    simp only [show (wrapNext g row).size = g.size from rfl] at this
    simp [this]
  have hcw' : (wrapNext g row).colWrap w false = .ok (wrapNext g row) := by
    have : ¬ (wrapNext g row).pos.col > (wrapNext g row).size.cols - w := by simp [wrapNext]
    simp only [Grid.colWrap, show (wrapNext g row).size = g.size from rfl, subM_ok hwc, ok_bind]
    simp only [show (wrapNext g row).size = g.size from rfl] at this
    simp [this]
  simp only [Grid.text, h1', Bool.false_eq_true, ↓reduceIte, hw, show ¬ (w > g.size.cols) by omega, hdec, ok_bind,
    hcw, hw0, show (wrapNext g row).size = g.size from rfl, hdec', hcw']

/-- typing the characters of a cell from column `c0` of the line above, from which its first character does not fit =
typing them at the start of this line after the wrap has been recorded -/
theorem typeChars_wraps_gen {r0 : RS} (hcv : Canvas r0.g) {i : Nat} (hi1 : 1 ≤ i) (hi : i < r0.g.size.rows)
    {Ri Rp : Row} (hl : Ri.cells.length = r0.g.size.cols) (hp : r0.g.rows[i - 1]? = some Rp)
    {last : Cell} (hlast : Rp.cells[r0.g.size.cols - 1]? = some last) (hocc : (last.hasContents || last.cont) = true)
    (pen : Attrs) (f : Nat) (zs : List Nat) (hw1 : 1 ≤ (W f).getD 1) (hwc : min ((W f).getD 1) 2 ≤ r0.g.size.cols)
    (hnc : ¬ (W f = none ∧ f < 256)) (c0 : Nat) (hc0 : c0 > r0.g.size.cols - min ((W f).getD 1) 2) :
    typeChars W pen (f :: zs) (shape r0 i Ri ⟨i - 1, c0⟩ pen).g =
      typeChars W pen (f :: zs) (shape (wrapBase r0 i Rp) i Ri ⟨i, 0⟩ pen).g := by
  rw [typeChars_cons, typeChars_cons]
  have hcv' := shape_canvas hcv hl (⟨i - 1, c0⟩ : Pos) pen (i := i)
  rw [text_wraps_gen hcv' pen f _ Rp last rfl (by omega) hwc hnc hc0 (shape_prev_row i hi1 Ri Rp _ pen hp)
    (by simp only [shape]; omega) hlast hocc]
  rw [shape_wrapNext i hi1 Ri Rp _ pen]

/-- the grid invariant does not look at wrap flags or at where (on the screen) the cursor is -/
theorem gridInv_wrapped {r0 : RS} {i : Nat} {Ri Rp : Row} {pos : Pos} {pen : Attrs}
    (h : GridInv W (shape r0 i Ri pos pen).g true) (hp : r0.g.rows[i - 1]? = some Rp) (hi1 : 1 ≤ i) (hi : i < r0.g.size.rows)
    (pen' : Attrs) :
    GridInv W (shape (wrapBase r0 i Rp) i Ri ⟨i, 0⟩ pen').g true := by
  refine ⟨h.rows_pos, h.cols_pos, h.rows_u16, h.cols_u16, ?_, ?_, hi, Nat.zero_le _, h.spos_row, h.spos_col, h.region_le,
    h.region_lt, h.sb_len, h.sb_off, h.sb_ok⟩
  · rcases h.rows_len with ⟨_, he⟩ | hl
    · simp only [shape] at he
      have := congrArg List.length he
      simp only [List.length_set, List.length_nil] at this
      have := getElem?_lt hp
      omega
    · right
      simp only [shape, wrapBase, List.length_set] at hl ⊢
      exact hl
  · intro r hr
    have hpl := getElem?_lt hp
    have hRp : r0.g.rows[i - 1] = Rp := by
      rw [List.getElem?_eq_getElem hpl] at hp; exact Option.some.inj hp
    simp only [shape, wrapBase] at hr
    obtain ⟨k, hk, hkr⟩ := List.getElem_of_mem hr
    have hk' : k < r0.g.rows.length := by simpa only [List.length_set] using hk
    have hmem : ∀ x, (r0.g.rows.set i Ri)[k]? = some x → x ∈ (shape r0 i Ri pos pen).g.rows := fun x hx =>
      List.mem_of_getElem? hx
    by_cases hki : k = i
    · subst hki
      have : r = Ri := by rw [← hkr, List.getElem_set_self]
      subst this
      exact h.row_ok r (hmem r (List.getElem?_set_self hk'))
    · by_cases hki1 : k = i - 1
      · subst hki1
        have : r = Rp.wrap true := by
          rw [← hkr, List.getElem_set_ne (by omega), List.getElem_set_self]
        subst this
        have := h.row_ok Rp (hmem Rp (by
          rw [List.getElem?_set_ne (by omega)]; exact hp))
        exact ⟨this.1, by simpa [rowOk, Row.wrap] using this.2⟩
      · have : r = r0.g.rows[k] := by
          rw [← hkr, List.getElem_set_ne (fun e => hki e.symm), List.getElem_set_ne (fun e => hki1 e.symm)]
        subst this
        exact h.row_ok _ (hmem _ (by
          rw [List.getElem?_set_ne (fun e => hki e.symm), List.getElem?_eq_getElem hk']))

/-- **a cell typed from the parked position**: the receiver's cursor is on line `i - 1`, in a column `c0` from which
the cell's first character does not fit (its last column is occupied: `WCtx`).  The receiver wraps — line `i - 1` is
flagged — and the cell lands in column 0 of line `i`, whatever that line holds (`typedRow`). -/
theorem type_wrap (K : Ctx W cb) (X : WCtx K) (hcb : C13.CbInv W cb) (pinv : C13.ParserInv W K.p0) (hW : WOk W)
    {out : List Nat} {Ri0 : Row} {pen : Attrs} (c0 : Nat)
    (hem : Emitted W cb K.p0 out (shape K.r0 K.i Ri0 ⟨K.i - 1, c0⟩ pen)) (hb : Bytes out)
    (hl : Ri0.cells.length = K.r0.g.size.cols)
    (bytes : List Nat) (f : Nat) (zs : List Nat) (hchars : (Utf8.fromUtf8 bytes).chars = f :: zs)
    (hvalid : (Utf8.fromUtf8 bytes).err = none) (hplain : ∀ x ∈ f :: zs, Plain x) (hnoesc : ∀ b ∈ bytes, b ≠ 0x1B)
    (hfirst : ¬ (W f = none ∧ f < 256)) (hwidth : 1 ≤ (W f).getD 1) (hzero : ∀ z ∈ zs, W z = some 0)
    (hpre : prefixOk (Utf8.encode f).length zs) (hfit : C05.effWidth W f ≤ K.r0.g.size.cols)
    (hc0 : c0 > K.r0.g.size.cols - C05.effWidth W f) :
    ∃ cellF, Emitted W cb K.p0 (out ++ bytes)
        (shape (K.wrapped X).r0 K.i (typedRow W Ri0 0 K.r0.g.size.cols pen f cellF) ⟨K.i, 0 + C05.effWidth W f⟩ pen) ∧
      view cellF = typedView W pen f zs ∧ CellsInv W Ri0.cells := by
  have hginv := emitted_inv hW.space hcb pinv hb hem
  have hci := cells_of_emitted' hW.space K hcb pinv hb hem
  have hG' := gridInv_wrapped hginv.1 X.hp X.hi1 K.hi pen
  have hlen' : (shape (wrapBase K.r0 K.i X.Rp) K.i Ri0 ⟨K.i, 0⟩ pen).g.rows.length =
      (shape (wrapBase K.r0 K.i X.Rp) K.i Ri0 ⟨K.i, 0⟩ pen).g.size.rows := by
    simp [shape, wrapBase, K.canvas.alloc]
  obtain ⟨r, cellF, hr, et, hvF, _⟩ := type_cell_any hG' hlen' hW.space pen f zs hfirst hwidth hzero
    (by show 0 + C05.effWidth W f ≤ K.r0.g.size.cols; omega) hpre
  have hrRi : r = Ri0 := by
    have h' := shape_row (K.wrapped X).canvas K.hi Ri0 ⟨K.i, 0⟩ pen
    have h'' : (shape (wrapBase K.r0 K.i X.Rp) K.i Ri0 ⟨K.i, 0⟩ pen).g.rows[K.i]? = some r := hr
    have h3 : (shape (wrapBase K.r0 K.i X.Rp) K.i Ri0 ⟨K.i, 0⟩ pen).g.rows[K.i]? = some Ri0 := h'
    rw [h3] at h''; exact (Option.some.inj h'').symm
  subst hrRi
  have hwrap := typeChars_wraps_gen (W := W) K.canvas X.hi1 K.hi hl X.hp X.hlast X.hocc pen f zs hwidth hfit hfirst c0 hc0
  have hstep := step_text W cb bytes hvalid (by rw [hchars]; exact hplain) hnoesc
  rw [hchars] at hstep
  refine ⟨cellF, ?_, hvF, hci⟩
  refine emitted_step W cb K.ready hem hstep ?_
  have : (shape K.r0 K.i r ⟨K.i - 1, c0⟩ pen).pen = pen := rfl
  rw [this, hwrap, et]
  simp [typedGrid, shape, List.set_set, Ctx.wrapped, wrapBase]

/-! ### a space typed at column 0 to force the wrap, then erased -/

/-- the receiving line after a narrow character (a space) has been typed at column 0 of a line that showed `P`: it
still shows `P` from column 2 on; column 1 shows `P` too unless it held the second half of a wide character -/
structure Zed (S P : List Cell) (R : Row) : Prop where
  len : R.cells.length = S.length
  plen : P.length = S.length
  c0 : ∀ (h : 0 < S.length), (R.cells[0]'(by rw [len]; exact h)).wide = false
  c1 : ∀ (hk : 1 < S.length), view (R.cells[1]'(by rw [len]; exact hk)) = view (P[1]'(by rw [plen]; exact hk)) ∨
    ((P[1]'(by rw [plen]; exact hk)).cont = true ∧ (R.cells[1]'(by rw [len]; exact hk)).wide = false ∧
      (R.cells[1]'(by rw [len]; exact hk)).cont = false)
  hi : ∀ k (hk : k < S.length), 1 < k → view (R.cells[k]'(by rw [len]; exact hk)) = view (P[k]'(by rw [plen]; exact hk))

/-- erasing `[0, j)` of such a line, where the current line has blanks with the pen's attributes -/
theorem Zed.erase {S P : List Cell} (hS : SrcOk W S) {R : Row} (h : Zed S P R) {j : Nat} (h1j : 1 ≤ j) (hjl : j ≤ S.length)
    (a : Attrs) (hrun : ∀ k (hk : k < S.length), k < j → view S[k] = blankA a) (w : Bool) :
    Mid' S P j (C07.erasedRow R.cells w 0 j a) := by
  have hlen : (C07.erasedRow R.cells w 0 j a).cells.length = S.length := by
    simp [C07.erasedRow, C07.eraseRange_length, h.len]
  refine ⟨hlen, h.plen, ?_, ?_, ?_⟩
  · intro k hk hkj
    have hkR : k < R.cells.length := by rw [h.len]; exact hk
    rw [erasedRow_get _ _ _ _ _ k hkR]
    have : C07.rangeCell 0 j a k R.cells[k] = R.cells[k].clear a := by
      unfold C07.rangeCell; rw [if_pos ⟨Nat.zero_le _, hkj⟩]
    rw [this, view_clear, hrun k hk hkj]
  · intro k hk hkj
    have hkR : k < R.cells.length := by rw [h.len]; exact hk
    rw [erasedRow_get _ _ _ _ _ k hkR, C07.rangeCell_outside 0 j a k _ (Or.inr hkj)]
    exact h.hi k hk (by omega)
  · intro hk
    have hkR : j < R.cells.length := by rw [h.len]; exact hk
    rw [erasedRow_get _ _ _ _ _ j hkR]
    have hsc : S[j].cont = false := by
      rw [hS.cont_iff j hk, if_neg (by omega)]
      have := hrun (j - 1) (by omega) (by omega)
      simp only [view, blankA, View.mk.injEq] at this
      exact this.2.1
    have hview : view R.cells[j] = view (P[j]'(by rw [h.plen]; exact hk)) ∨
        ((P[j]'(by rw [h.plen]; exact hk)).cont = true ∧ R.cells[j].wide = false ∧ R.cells[j].cont = false) := by
      by_cases hj1 : j = 1
      · subst hj1; exact h.c1 hk
      · exact Or.inl (h.hi j hk (by omega))
    by_cases hc : R.cells[j].cont = true
    · have : C07.rangeCell 0 j a j R.cells[j] = R.cells[j].clear R.cells[j].attrs := by
        unfold C07.rangeCell
        rw [if_neg (by omega), if_neg (by omega), if_pos ⟨rfl, by omega, hc⟩]
      rw [this]
      rcases hview with hv | ⟨_, _, hnc⟩
      · exact Or.inr ⟨by rw [← view_cont hv]; exact hc, hsc, by simp [Cell.clear], by simp [Cell.clear]⟩
      · rw [hc] at hnc; exact absurd hnc (by simp)
    · have : C07.rangeCell 0 j a j R.cells[j] = R.cells[j] := by
        unfold C07.rangeCell
        rw [if_neg (by omega), if_neg (by omega), if_neg (fun h' => hc h'.2.2)]
      rw [this]
      rcases hview with hv | ⟨hpc, hnw, hnc⟩
      · exact Or.inl hv
      · exact Or.inr ⟨hpc, hsc, hnw, hnc⟩

/-- … and under `Keep` that erasure does not clear the line's wrap flag -/
theorem Zed.flag_kept {S P : List Cell} (hk : Keep S P) {R : Row} (h : Zed S P R) {j : Nat} (h1j : 1 ≤ j) (hjl : j ≤ S.length)
    (a : Attrs) (hrun : ∀ k (hk : k < S.length), k < j → view S[k] = blankA a) :
    C07.flagCleared R.cells 0 j = false := by
  obtain ⟨hne, hocc⟩ := hk.occ
  unfold C07.flagCleared
  have h1 : (j == R.cells.length) = false := by
    rw [beq_eq_false_iff_ne, h.len]
    intro hjl'
    subst hjl'
    have := blankA_no_occ (hrun (S.length - 1) (by omega) (by omega))
    rcases hocc with ho | ho
    · rw [this.1] at ho; exact absurd ho (by simp)
    · rw [this.2] at ho; exact absurd ho (by simp)
  have h2 : (j + 1 == R.cells.length && ((R.cells[j - 1]?).map (·.wide)).getD false) = false := by
    by_cases hj1 : j + 1 = R.cells.length
    · have hl := h.len
      have hjS : j - 1 < S.length := by omega
      have hjR : j - 1 < R.cells.length := by omega
      rw [List.getElem?_eq_getElem hjR]
      simp only [Option.map_some, Option.getD_some, Bool.and_eq_false_imp]
      intro _
      cases hw : R.cells[j - 1].wide
      · rfl
      · exfalso
        have hpw : (P[j - 1]'(by rw [h.plen]; exact hjS)).wide = true := by
          by_cases h0 : j - 1 = 0
          · have := h.c0 (by omega)
            simp only [h0] at hw
            rw [hw] at this; exact absurd this (by simp)
          · by_cases h1' : j - 1 = 1
            · rcases h.c1 (by omega) with hv | ⟨_, hnw, _⟩
              · simp only [h1'] at hw ⊢
                rw [← view_wide hv]; exact hw
              · simp only [h1'] at hw
                rw [hw] at hnw; exact absurd hnw (by simp)
            · rw [← view_wide (h.hi (j - 1) hjS (by omega))]; exact hw
        obtain ⟨_, hh⟩ := hk.wide (j - 1) (by omega) (by rw [h.plen]; exact hjS) hpw
        have := blankA_no_occ (hrun (j - 1) hjS (by omega))
        rw [this.1] at hh; exact absurd hh (by simp)
    · have : (j + 1 == R.cells.length) = false := by rw [beq_eq_false_iff_ne]; exact hj1
      rw [this]; rfl
  rw [h1, h2]; simp

/-- a space typed at column 0 of a line that shows `P` -/
theorem zed_of_space {S P : List Cell} (hP : SrcOk W P) (hW32 : W 32 = some 1) {Ri0 : Row} (h : Mid' S P 0 Ri0)
    (cols : Nat) (pen : Attrs) (cellF : Cell) (hF : cellF.wide = false) :
    Zed S P (typedRow W Ri0 0 cols pen 32 cellF) ∧ (typedRow W Ri0 0 cols pen 32 cellF).wrapped = Ri0.wrapped := by
  have hew : C05.effWidth W 32 = 1 := by simp [C05.effWidth, hW32]
  have hwd : decide (C05.effWidth W 32 > 1) = false := by rw [hew]; rfl
  have hlen : (typedRow W Ri0 0 cols pen 32 cellF).cells.length = S.length := by
    simp [typedRow, C05.printedRow, h.len]
  refine ⟨⟨hlen, h.plen, ?_, ?_, ?_⟩, ?_⟩
  · intro h0
    have hkR : 0 < Ri0.cells.length := by rw [h.len]; exact h0
    rw [typedRow_get _ _ _ _ _ _ 0 hkR, if_pos rfl]; exact hF
  · intro hk
    have hkR : 1 < Ri0.cells.length := by rw [h.len]; exact hk
    have h0R : 0 < Ri0.cells.length := by omega
    rw [typedRow_get _ _ _ _ _ _ 1 hkR, if_neg (by omega)]
    have hpc : C05.printedCell W Ri0.cells 0 pen 32 (decide (C05.effWidth W 32 > 1)) 1 Ri0.cells[1] =
        if Ri0.cells[0].wide = true then C05.setCell W Ri0.cells[1] 32 pen else Ri0.cells[1] := by
      unfold C05.printedCell
      rw [if_neg (by omega), if_neg (by omega), if_pos rfl, hwd, flagAt_get _ _ h0R]
      simp only [Bool.false_eq_true, ↓reduceIte, id]
    rw [hpc]
    by_cases hrw : Ri0.cells[0].wide = true
    · rw [if_pos hrw]
      refine Or.inr ⟨?_, by simp [C05.setCell, hW32], by simp [C05.setCell]⟩
      have hv0 : view Ri0.cells[0] = view (P[0]'(by rw [h.plen]; omega)) := by
        rcases h.mid (by omega) with hv | ⟨hpc', _⟩
        · exact hv
        · have := hP.cont_iff 0 (by rw [h.plen]; omega)
          simp only [↓reduceIte] at this
          rw [this] at hpc'; exact absurd hpc' (by simp)
      have hpw : (P[0]'(by rw [h.plen]; omega)).wide = true := by rw [← view_wide hv0]; exact hrw
      obtain ⟨_, hc⟩ := hP.wide_next 0 (by rw [h.plen]; omega) hpw
      exact hc
    · rw [if_neg hrw]
      exact Or.inl (h.hi 1 hk (by omega))
  · intro k hk hk1
    have hkR : k < Ri0.cells.length := by rw [h.len]; exact hk
    rw [typedRow_get _ _ _ _ _ _ k hkR, if_neg (by omega)]
    have : C05.printedCell W Ri0.cells 0 pen 32 (decide (C05.effWidth W 32 > 1)) k Ri0.cells[k] = Ri0.cells[k] := by
      unfold C05.printedCell
      rw [if_neg (by omega), if_neg (by omega), if_neg (by omega), if_neg (by rw [hwd]; simp)]
    rw [this]; exact h.hi k hk (by omega)
  · rw [typedRow_wrapped, hwd]
    simp

/-! ### small facts used by the pending phase -/

/-- after a cell with text has been written the emitter's cursor is on this line -/
theorem emit_text_row (cols row : Nat) (w : Bool) (st : Row.FmtSt) (col : Nat) (c : Cell) (st' : Row.FmtSt)
    (hh : c.hasContents = true) (h' : C03.emit cols row w st col c true = .ok st') : st'.prevPos.row = row := by
  unfold C03.emit at h'
  simp only [↓reduceIte, hh] at h'
  cases hb : c.contentsBytes with
  | error e => rw [hb] at h'; simp at h'
  | ok bs =>
    rw [hb] at h'
    simp only [ok_bind, pure_eq_ok, Except.ok.injEq] at h'
    subst h'
    by_cases hne : (({ row := row, col := col } : Pos) != st.prevPos) = true
    · simp only [hne, ↓reduceIte]
      split <;> rfl
    · have : st.prevPos = ⟨row, col⟩ := by
        have := hne; simp only [bne_iff_ne, ne_eq, Decidable.not_not] at this; exact this.symm
      simp only [hne, Bool.false_eq_true, ↓reduceIte]
      split <;> simp [this]

/-- a line that shows `P` shows `S` on a prefix where the two agree -/
theorem midF_advance {S P : List Cell} {F : FlagSpec S P} (hP : SrcOk W P) {Ri : Row} (h : MidF F 0 Ri) (j : Nat)
    (hjl : j ≤ S.length) (heq : ∀ k (hk : k < S.length), k < j → view S[k] = view (P[k]'(by rw [h.mid.plen]; exact hk))) :
    MidF F j Ri := by
  have hshow : ∀ k (hk : k < S.length), view (Ri.cells[k]'(by rw [h.mid.len]; exact hk)) = view (P[k]'(by rw [h.mid.plen]; exact hk)) := by
    intro k hk
    by_cases h0 : k = 0
    · subst h0
      rcases h.mid.mid hk with hv | ⟨hpc, _⟩
      · exact hv
      · have := hP.cont_iff 0 (by rw [h.mid.plen]; exact hk)
        simp only [↓reduceIte] at this
        rw [this] at hpc; exact absurd hpc (by simp)
    · exact h.mid.hi k hk (by omega)
  refine ⟨⟨h.mid.len, h.mid.plen, ?_, ?_, ?_⟩, h.flag⟩
  · intro k hk hkj
    rw [hshow k hk, heq k hk hkj]
  · intro k hk _
    exact hshow k hk
  · intro hk
    exact Or.inl (hshow j hk)

/-- the emitter's first cell on a wrapped-onto line, typed without a move (`RowDraw.emit_text_wrap_eq` for any parked
column) -/
theorem emit_text_wrap_eq' (n i c0 : Nat) (st : Row.FmtSt) (c : Cell) (hh : c.hasContents = true) (hf : CellFine c)
    (hi1 : 1 ≤ i) (hpos : st.prevPos = ⟨i - 1, c0⟩) (hc0 : n ≤ c0 + (if c.isWide = true then 1 else 0)) :
    C03.emit n i true st 0 c true = .ok (afterTextW i st c) := by
  unfold C03.emit
  have hne : (({ row := i, col := 0 } : Pos) != st.prevPos) = true := by
    rw [hpos]; simp; omega
  have hmv : (!true || st.prevPos.row + 1 != ({ row := i, col := 0 } : Pos).row ||
      decide (st.prevPos.col < n - if c.isWide = true then 1 else 0) ||
      ({ row := i, col := 0 } : Pos).col != 0) = false := by
    rw [hpos]
    simp only [Bool.not_true, Bool.false_or, bne_self_eq_false, Bool.or_false, Bool.or_eq_false_iff, bne_eq_false_iff_eq,
      decide_eq_false_iff_not]
    refine ⟨by omega, ?_⟩
    split at hc0 <;> split <;> omega
  simp only [↓reduceIte, hh, contentsBytes_ok hf, hne, hmv, Bool.false_eq_true, List.append_nil]
  by_cases h2 : (st.prevAttrs != c.attrs) = true
  · simp [afterTextW, h2]
  · have : st.prevAttrs = c.attrs := by simpa using h2
    simp [afterTextW, h2, this]

/-- the previous-line context seen from the context in which the wrap has been recorded -/
def wrapD {K : Ctx W cb} (D : DCtx K) (X : WCtx K) : DCtx (K.wrapped X) :=
  ⟨D.prv, D.hprv, D.hP, D.pinv, D.hcb⟩

/-- a space typed at the pending-wrap position of the line above, then BS: the wrap is recorded, the cursor is at the
start of this line, whose first cell holds the space — whatever the line held -/
theorem space_bs_wrap (K : Ctx W cb) (X : WCtx K) (hcb : C13.CbInv W cb) (pinv : C13.ParserInv W K.p0) (hW : WOk W)
    {out : List Nat} {Ri0 : Row} (pen : Attrs)
    (hem : Emitted W cb K.p0 out (shape K.r0 K.i Ri0 ⟨K.i - 1, K.r0.g.size.cols⟩ pen)) (hb : Bytes out)
    (hl : Ri0.cells.length = K.r0.g.size.cols) :
    ∃ cellF, Emitted W cb K.p0 (out ++ [32] ++ Term.backspace)
        (shape (K.wrapped X).r0 K.i (typedRow W Ri0 0 K.r0.g.size.cols pen 32 cellF) ⟨K.i, 0⟩ pen) ∧
      cellF.wide = false ∧ CellsInv W Ri0.cells := by
  have hc1 := K.canvas.cols_pos
  have hew : C05.effWidth W 32 = 1 := by simp [C05.effWidth, hW.space]
  obtain ⟨cellF, h1, hv, hci⟩ := type_wrap K X hcb pinv hW K.r0.g.size.cols hem hb hl [32] 32 [] (by decide) (by decide)
    (by
      intro c hc
      have : c = 32 := by simpa using hc
      subst this
      exact ⟨by omega, by omega, by omega⟩) (by decide) (by rw [hW.space]; simp) (by rw [hW.space]; simp)
    (fun z hz => by cases hz) trivial (by rw [hew]; exact hc1) (by rw [hew]; omega)
  rw [hew] at h1
  have h2 := emitted_step W cb K.ready h1 (step_backspace W cb)
    (r' := shape (K.wrapped X).r0 K.i (typedRow W Ri0 0 K.r0.g.size.cols pen 32 cellF) ⟨K.i, 0⟩ pen) (by
      simp [shape, Grid.colDec])
  refine ⟨cellF, h2, ?_, hci⟩
  have := hv
  simp only [view, typedView, hW.space, View.mk.injEq] at this
  simpa using this.2.1

/-! ### the first thing written on a wrapped-onto line, with the receiver's cursor still parked on the line above -/

/-- (β) the first cell of the line holds text and is changed: pen change, then the text — typed without a move, so
that the receiver wraps; it lands on whatever line `i` held -/
theorem pend_text0 (K : Ctx W cb) (D : DCtx K) (F : FlagSpec K.src D.prv) (X : WCtx K) (hW : WOk W) (hS : SrcOk W K.src)
    (hne : 0 < K.src.length) {pa : Attrs} {c0 : Nat} {Ri0 : Row}
    (hem0 : Emitted W cb K.p0 [] (shape K.r0 K.i Ri0 ⟨K.i - 1, c0⟩ pa)) (hmid0 : MidF F 0 Ri0)
    (hh : K.src[0].hasContents = true) (hc0 : K.src.length ≤ c0 + (if K.src[0].isWide = true then 1 else 0)) (pw : Bool) :
    C03.emit K.src.length K.i true ⟨pw, ⟨K.i - 1, c0⟩, pa, none, []⟩ 0 K.src[0] true =
        .ok (afterTextW K.i ⟨pw, ⟨K.i - 1, c0⟩, pa, none, []⟩ K.src[0]) ∧
      DrawnWF (K.wrapped X) (wrapD D X) F (0 + (if K.src[0].wide then 2 else 1))
        (afterTextW K.i ⟨pw, ⟨K.i - 1, c0⟩, pa, none, []⟩ K.src[0]) := by
  have hok := hS.cells_ok _ (List.getElem_mem hne)
  obtain ⟨f, zs, ht⟩ := textCell_of hW hok (hS.emit_ok 0 hne) hh
  have hfine : CellFine K.src[0] := cellFine_of_ok hok
  have hnc : K.src[0].cont = false := by rw [hS.cont_iff 0 hne]; simp
  have e3 := emit_text_wrap_eq' K.src.length K.i c0 ⟨pw, ⟨K.i - 1, c0⟩, pa, none, []⟩ K.src[0] hh hfine X.hi1 rfl hc0
  refine ⟨e3, ?_⟩
  have hb3 : Bytes (afterTextW K.i ⟨pw, ⟨K.i - 1, c0⟩, pa, none, []⟩ K.src[0]).out :=
    emit_bytes _ _ _ _ _ _ _ Bytes.nil e3
  have hl : Ri0.cells.length = K.r0.g.size.cols := by rw [hmid0.len, K.hsrc]
  -- the pen
  have h2 : Emitted W cb K.p0 ([] ++
        (if (pa != K.src[0].attrs) = true then K.src[0].attrs.writeEscapeCodeDiff pa else []))
      (shape K.r0 K.i Ri0 ⟨K.i - 1, c0⟩ K.src[0].attrs) := by
    by_cases hp : (pa != K.src[0].attrs) = true
    · simp only [hp, ↓reduceIte]
      exact emitted_step W cb K.ready hem0 (step_pen W cb K.src[0].attrs pa (hS.wf 0 hne))
        (r' := shape K.r0 K.i Ri0 ⟨K.i - 1, c0⟩ K.src[0].attrs) (by simp [shape])
    · have hpa : pa = K.src[0].attrs := by simpa using hp
      simp only [hp, Bool.false_eq_true, ↓reduceIte, List.append_nil]
      rw [← hpa]; exact hem0
  have hout : (afterTextW K.i ⟨pw, ⟨K.i - 1, c0⟩, pa, none, []⟩ K.src[0]).out = ([] ++
        (if (pa != K.src[0].attrs) = true then K.src[0].attrs.writeEscapeCodeDiff pa else [])) ++
        K.src[0].contents.take K.src[0].len := rfl
  have hb2 : Bytes ([] ++ (if (pa != K.src[0].attrs) = true then K.src[0].attrs.writeEscapeCodeDiff pa else [])) := by
    rw [hout] at hb3
    exact (bytes_append.mp hb3).1
  have hfit : C05.effWidth W f ≤ K.r0.g.size.cols := by
    have := ht.fits; rw [K.hsrc] at this; unfold C05.effWidth; omega
  have hwf' : K.src[0].wide = decide ((W f).getD 1 > 1) := ht.wide
  have hc0' : c0 > K.r0.g.size.cols - C05.effWidth W f := by
    have hw1 := ht.width
    have hc1 := K.canvas.cols_pos
    rw [← K.hsrc] at hfit ⊢
    unfold C05.effWidth at hfit ⊢
    simp only [Cell.isWide] at hc0
    by_cases hwd : K.src[0].wide = true
    · rw [hwd] at hwf'
      have : 1 < (W f).getD 1 := by simpa using hwf'.symm
      simp only [hwd, ↓reduceIte] at hc0
      omega
    · have hwd' : K.src[0].wide = false := by simpa using hwd
      simp only [hwd', Bool.false_eq_true, ↓reduceIte] at hc0
      omega
  obtain ⟨cellF, h3, hvF, hci⟩ := type_wrap K X D.hcb D.pinv hW c0 h2 hb2 hl (K.src[0].contents.take K.src[0].len) f zs
    ht.chars ht.valid ht.plain ht.noesc ht.first ht.width ht.zero ht.pre hfit hc0'
  have hvF' : view cellF = view K.src[0] := by rw [hvF, ht.view]
  by_cases hwide : K.src[0].wide = true
  · have hw2 : C05.effWidth W f = 2 := by
      rw [hwide] at hwf'
      have h' : 1 < (W f).getD 1 := by simpa using hwf'.symm
      unfold C05.effWidth; omega
    simp only [hwide, ↓reduceIte]
    refine ⟨_, ?_, hmid0.typed2 hW.space hS (wideNext_of_src D.hP) hci hne hnc hwide K.r0.g.size.cols K.hsrc.symm
      K.src[0].attrs f hw2 cellF hvF', hb3, ?_⟩
    · rw [hw2] at h3
      show Emitted W cb K.p0 (afterTextW K.i ⟨pw, ⟨K.i - 1, c0⟩, pa, none, []⟩ K.src[0]).out
        (shape (K.wrapped X).r0 K.i _ (afterTextW K.i ⟨pw, ⟨K.i - 1, c0⟩, pa, none, []⟩ K.src[0]).prevPos
          (afterTextW K.i ⟨pw, ⟨K.i - 1, c0⟩, pa, none, []⟩ K.src[0]).prevAttrs)
      simpa [afterTextW, Cell.isWide, hwide] using h3
    · have := ht.fits
      refine ⟨?_, fun _ => hS.wf 0 hne⟩
      simp only [afterTextW, Cell.isWide, hwide, ↓reduceIte]
      unfold C05.effWidth at hw2
      show 0 + 2 ≤ K.src.length
      omega
  · have hwide' : K.src[0].wide = false := by simpa using hwide
    have hw1 : C05.effWidth W f = 1 := by
      rw [hwide'] at hwf'
      have h' : ¬ 1 < (W f).getD 1 := by simpa using hwf'.symm
      have := ht.width
      unfold C05.effWidth; omega
    simp only [hwide', Bool.false_eq_true, ↓reduceIte]
    refine ⟨_, ?_, hmid0.typed1 hW.space hS (wideNext_of_src D.hP) hci hne hnc hwide' K.r0.g.size.cols
      K.src[0].attrs f hw1 cellF hvF', hb3, ?_⟩
    · rw [hw1] at h3
      show Emitted W cb K.p0 (afterTextW K.i ⟨pw, ⟨K.i - 1, c0⟩, pa, none, []⟩ K.src[0]).out
        (shape (K.wrapped X).r0 K.i _ (afterTextW K.i ⟨pw, ⟨K.i - 1, c0⟩, pa, none, []⟩ K.src[0]).prevPos
          (afterTextW K.i ⟨pw, ⟨K.i - 1, c0⟩, pa, none, []⟩ K.src[0]).prevAttrs)
      simpa [afterTextW, Cell.isWide, hwide'] using h3
    · refine ⟨?_, fun _ => hS.wf 0 hne⟩
      simp only [afterTextW, Cell.isWide, hwide', Bool.false_eq_true, ↓reduceIte]
      show 0 + 1 ≤ K.src.length
      omega

/-- (γ) the wrap-forcing variant of the emitter's move before an erase run that starts in column 0 is flushed: a
space and a BS instead of a cursor move, then the pen -/
theorem pend_eraseMove (K : Ctx W cb) (D : DCtx K) (F : FlagSpec K.src D.prv) (X : WCtx K) (hW : WOk W) {pa : Attrs}
    {Ri0 : Row} (hem0 : Emitted W cb K.p0 [] (shape K.r0 K.i Ri0 ⟨K.i - 1, K.r0.g.size.cols⟩ pa)) (hmid0 : MidF F 0 Ri0)
    (a : Attrs) (hwf : Attrs.wf a) (pw : Bool) (er : Option (Nat × Attrs)) :
    (Row.eraseMove K.src.length K.i true ⟨pw, ⟨K.i - 1, K.r0.g.size.cols⟩, pa, er, []⟩ 0 a).prevPos = ⟨K.i, 0⟩ ∧
    (Row.eraseMove K.src.length K.i true ⟨pw, ⟨K.i - 1, K.r0.g.size.cols⟩, pa, er, []⟩ 0 a).prevAttrs = a ∧
    (Row.eraseMove K.src.length K.i true ⟨pw, ⟨K.i - 1, K.r0.g.size.cols⟩, pa, er, []⟩ 0 a).erase = er ∧
    (Row.eraseMove K.src.length K.i true ⟨pw, ⟨K.i - 1, K.r0.g.size.cols⟩, pa, er, []⟩ 0 a).prevWasWide = pw ∧
    Bytes (Row.eraseMove K.src.length K.i true ⟨pw, ⟨K.i - 1, K.r0.g.size.cols⟩, pa, er, []⟩ 0 a).out ∧
    ∃ R1, Emitted W cb K.p0 (Row.eraseMove K.src.length K.i true ⟨pw, ⟨K.i - 1, K.r0.g.size.cols⟩, pa, er, []⟩ 0 a).out
        (shape (K.wrapped X).r0 K.i R1 ⟨K.i, 0⟩ a) ∧ Zed K.src D.prv R1 ∧ R1.wrapped = Ri0.wrapped := by
  have hl : Ri0.cells.length = K.r0.g.size.cols := by rw [hmid0.len, K.hsrc]
  have hcw : (true && (⟨K.i - 1, K.r0.g.size.cols⟩ : Pos).row + 1 == ({ row := K.i, col := 0 } : Pos).row &&
      decide ((⟨K.i - 1, K.r0.g.size.cols⟩ : Pos).col ≥ K.src.length)) = true := by
    have := X.hi1
    simp [K.hsrc]; omega
  obtain ⟨cellF, h1, hF, hci⟩ := space_bs_wrap K X D.hcb D.pinv hW pa hem0 Bytes.nil hl
  obtain ⟨hz, hzw⟩ := zed_of_space (S := K.src) D.hP hW.space hmid0.mid K.r0.g.size.cols pa cellF hF
  have hbb : Bytes ([] ++ [32] ++ Term.backspace) := by
    refine Bytes.append (Bytes.append Bytes.nil ?_) backspace_bytes
    intro b hb; simp at hb; omega
  simp only [Row.eraseMove, hcw, ↓reduceIte, Nat.lt_irrefl, gt_iff_lt]
  by_cases hp : (pa != a) = true
  · simp only [hp, ↓reduceIte]
    have h2 := emitted_step W cb K.ready h1 (step_pen W cb a pa hwf)
      (r' := shape (K.wrapped X).r0 K.i (typedRow W Ri0 0 K.r0.g.size.cols pa 32 cellF) ⟨K.i, 0⟩ a) (by simp [shape])
    refine ⟨trivial, trivial, trivial, trivial, ?_, _, ?_, hz, hzw⟩
    · simpa [List.append_assoc] using Bytes.append hbb (writeEscapeCodeDiff_bytes a pa)
    · simpa [List.append_assoc] using h2
  · have hpa : pa = a := by simpa using hp
    simp only [hp, Bool.false_eq_true, ↓reduceIte, List.append_nil]
    refine ⟨trivial, hpa, trivial, trivial, ?_, _, ?_, hz, hzw⟩
    · simpa [List.append_assoc] using hbb
    · rw [← hpa]; simpa [List.append_assoc] using h1

end Vt.C02
