/-
  C13 / C03 / C16 — the invariant is inductive and every action is total.

  * `inv_perform` : for every screen satisfying `Inv`, every action `a` that vte can produce
    (`ActionOk a`: a printed character is a Unicode scalar value) and every callback policy that
    is itself total and keeps `Inv`:  `perform` returns normally and the result satisfies `Inv`.
    This is at once the totality of C03 (no panic, no overflow: every `.error` site of the model
    is excluded) and the inductive step of C13, for ALL sizes, cursor positions (incl. the
    pending-wrap column), cell contents, scroll regions, both screens, and all parameter values.
  * `inv_actions` : lifted to every list of actions (induction over the list).
  * `inv_setSize` : `set_size(r,c)` for `1 ≤ r,c ≤ 65535` keeps `Inv` (C16: "after it every other
    property continues to hold" is then `inv_perform` again).
  * `cbNone_inv`, `cbResize_inv` : the two callback policies of the harness satisfy the hypothesis
    (C16: `set_size` called from inside `Callbacks::resize`).
  Assumption on the width function (trusted base, checked on the real table on every run):
  `W 32 = some 1`.  No assumption on the range of widths: a width ≥ 2 is treated as wide, exactly as
  the code does (unicode-width 0.2 reports width 3 for a few characters, e.g. U+2E3B).
-/
import Vt.Lemmas.TextInv
import Vt.Lemmas.VteOk
import Vt.Props.C16
import Vt.Props.C13
import Vt.Props.C09
import Vt.Spec.Obs
namespace Vt.C13
open Vt
set_option linter.unusedSimpArgs false

variable {W : Nat → Option Nat}

/-- lift a total grid operation through `grid_mut()` -/
theorem screen_lift {s : Screen} (hs : ScreenInv W s) {f : Grid → M Grid} (ht : Total W f s.cur) :
    ∃ s', s.modifyGrid f = .ok s' ∧ ScreenInv W s' ∧ s'.altScreen = s.altScreen ∧ s'.attrs = s.attrs ∧
      s'.savedAttrs = s.savedAttrs := by
  obtain ⟨g', e, st⟩ := ht
  refine ⟨s.setCur g', modifyGrid_ok_of e, ?_, ?_, ?_, ?_⟩
  · unfold Screen.setCur Screen.cur at *
    cases ha : s.altScreen
    · simp only [ha, Bool.false_eq_true, ↓reduceIte] at st ⊢
      refine ⟨{ st.inv with rows_len := Or.inr st.len }, hs.alt, hs.alt_cap, ?_, by simp [ha]⟩
      rw [← hs.same_size]; exact st.size
    · simp only [ha, ↓reduceIte] at st ⊢
      refine ⟨hs.grid, st.inv, by rw [st.cap]; exact hs.alt_cap, ?_, ?_⟩
      · rw [hs.same_size]; exact st.size.symm
      · intro _ he
        have := st.len; rw [he] at this
        have := st.inv.rows_pos; simp at *; omega
  all_goals (unfold Screen.setCur; split <;> rfl)

/-- record updates that touch neither grid nor the active-screen flag keep the invariant -/
theorem screenInv_congr {s s' : Screen} (hs : ScreenInv W s) (h1 : s'.grid = s.grid)
    (h2 : s'.altGrid = s.altGrid) (h3 : s'.altScreen = s.altScreen) : ScreenInv W s' :=
  ⟨h1 ▸ hs.grid, h2 ▸ hs.alt, h2 ▸ hs.alt_cap, by rw [h1, h2]; exact hs.same_size,
   by rw [h2, h3]; exact hs.alt_alloc⟩

/-- entering the alternate screen -/
theorem enterAlternateGrid_ok {s : Screen} (hs : ScreenInv W s) :
    ∃ s', s.enterAlternateGrid = .ok s' ∧ ScreenInv W s' := by
  obtain ⟨hc, hl⟩ := hs.cur
  obtain ⟨s1, e1, i1, a1, _, _⟩ := screen_lift hs (total_setScrollback hc hl 0)
  obtain ⟨j1, j2, j3, j4⟩ := allocateRows_inv i1.alt
  refine ⟨{ s1 with altScreen := true, altGrid := s1.altGrid.allocateRows }, ?_, ?_⟩
  · have e1' : (s.modifyGrid fun g => Except.ok (g.setScrollback 0)) = .ok s1 := e1
    simp only [Screen.enterAlternateGrid, pure_eq_ok, e1', ok_bind]
  · refine ⟨i1.grid, j1, by simp only; rw [j4]; exact i1.alt_cap, by simp only; rw [j3]; exact i1.same_size, ?_⟩
    intro _ he
    simp only at he
    rw [he] at j2
    have h1 := j1.rows_pos
    rw [j3] at h1
    simp at j2; omega

/-- leaving it -/
theorem exitAlternateGrid_inv {s : Screen} (hs : ScreenInv W s) : ScreenInv W s.exitAlternateGrid :=
  ⟨hs.grid, hs.alt, hs.alt_cap, hs.same_size, by simp [Screen.exitAlternateGrid]⟩

theorem saveCursor_ok {s : Screen} (hs : ScreenInv W s) : ∃ s', s.saveCursor = .ok s' ∧ ScreenInv W s' := by
  obtain ⟨hc, hl⟩ := hs.cur
  obtain ⟨s1, e1, i1, _⟩ := screen_lift hs (total_saveCursor hc hl)
  have e1' : (s.modifyGrid fun g => Except.ok g.saveCursor) = .ok s1 := e1
  exact ⟨{ s1 with savedAttrs := s1.attrs }, by simp only [Screen.saveCursor, pure_eq_ok, e1', ok_bind],
    screenInv_congr i1 rfl rfl rfl⟩

theorem restoreCursor_ok {s : Screen} (hs : ScreenInv W s) : ∃ s', s.restoreCursor = .ok s' ∧ ScreenInv W s' := by
  obtain ⟨hc, hl⟩ := hs.cur
  obtain ⟨s1, e1, i1, _⟩ := screen_lift hs (total_restoreCursor hc hl)
  have e1' : (s.modifyGrid fun g => Except.ok g.restoreCursor) = .ok s1 := e1
  exact ⟨{ s1 with attrs := s1.savedAttrs }, by simp only [Screen.restoreCursor, pure_eq_ok, e1', ok_bind],
    screenInv_congr i1 rfl rfl rfl⟩

/-- RIS -/
theorem ris_ok {s : Screen} (hs : ScreenInv W s) : ∃ s', s.ris = .ok s' ∧ ScreenInv W s' := by
  have hg := hs.grid
  have := inv_new W s.grid.size.rows s.grid.size.cols s.grid.scrollbackLen hg.rows_pos hg.cols_pos
    hg.rows_u16 hg.cols_u16
  exact ⟨_, this.1, (inv_iff W _).mp this.2⟩

/-- `set_size(r,c)` keeps the invariant -/
theorem gridInv_setSizeSpec {g : Grid} {un : Bool} (h : GridInv W g un) (size : Size)
    (hr : 1 ≤ size.rows) (hc : 1 ≤ size.cols) (hr' : size.rows ≤ 65535) (hc' : size.cols ≤ 65535) :
    GridInv W (C16.setSizeSpec g size) false := by
  obtain ⟨p1, p2, p3, p4, p5, p6, p7, p8, p9, p10, p11⟩ := C16.setSizeSpec_props g size hr hc
  refine { rows_pos := by rw [p1]; exact hr, cols_pos := by rw [p1]; exact hc,
           rows_u16 := by rw [p1]; exact hr', cols_u16 := by rw [p1]; exact hc',
           rows_len := Or.inr (by rw [p2, p1]), row_ok := ?_,
           pos_row := by rw [p1]; exact p6, pos_col := by rw [p1]; omega,
           spos_row := by rw [p1]; exact p8, spos_col := by rw [p1]; omega,
           region_le := p11, region_lt := by rw [p1]; exact p10,
           sb_len := by rw [p3, p4]; exact h.sb_len, sb_off := by rw [p5, p3]; exact h.sb_off,
           sb_ok := by rw [p3]; exact h.sb_ok }
  intro r hr0
  rw [p1]
  simp only [C16.setSizeSpec] at hr0
  -- a row of the resized grid is either a resized old row or a new blank row
  have hres : ∀ r0 ∈ g.rows, RowGood W size.cols ((r0.wrap false).resize size.cols Cell.new) ∧
      RowGood W size.cols (r0.resize size.cols Cell.new) := by
    intro r0 hr0
    have hci := rowGood_cells W (h.row_ok r0 hr0)
    obtain ⟨i1, i2, _⟩ := resize_inv W (r := r0.wrap false) (len := size.cols) hci hc
    obtain ⟨j1, j2, _⟩ := resize_inv W (r := r0) (len := size.cols) hci hc
    exact ⟨rowGood_of W i2 hc i1, rowGood_of W j2 hc j1⟩
  unfold resizeList at hr0
  rcases List.mem_append.mp hr0 with hm | hm
  · have hm := List.mem_of_mem_take hm
    obtain ⟨r1, hr1, rfl⟩ := List.mem_map.mp hm
    split at hr1
    · obtain ⟨r0, hr0', rfl⟩ := List.mem_map.mp hr1
      exact (hres r0 hr0').1
    · exact (hres r1 hr1).2
  · rw [(List.mem_replicate.mp hm).2]; exact rowGood_new W _ hc

theorem inv_setSize {s : Screen} (hs : ScreenInv W s) (r c : Nat) (hr : 1 ≤ r) (hc : 1 ≤ c)
    (hr' : r ≤ 65535) (hc' : c ≤ 65535) :
    ∃ s', s.setSize r c = .ok s' ∧ ScreenInv W s' := by
  refine ⟨_, C16.setSize_size s r c hs.grid.rows_pos hs.alt.rows_pos hr hc, ?_⟩
  have g1 := gridInv_setSizeSpec hs.grid ⟨r, c⟩ hr hc hr' hc'
  have g2 := gridInv_setSizeSpec hs.alt ⟨r, c⟩ hr hc hr' hc'
  obtain ⟨p1, p2, _, p4, _⟩ := C16.setSizeSpec_props s.altGrid ⟨r, c⟩ hr hc
  obtain ⟨q1, _⟩ := C16.setSizeSpec_props s.grid ⟨r, c⟩ hr hc
  simp only at p1 p2 p4 q1
  refine ⟨g1, g2.mono, by rw [p4]; exact hs.alt_cap, by rw [q1, p1], ?_⟩
  intro _ he
  simp only at he
  rw [he] at p2; simp at p2; omega

end Vt.C13

namespace Vt.C13
open Vt
set_option linter.unusedSimpArgs false
variable {W : Nat → Option Nat}

/-- events carry `u16` values -/
def EventOk : Event → Prop
  | .resize r c => r ≤ 65535 ∧ c ≤ 65535
  | _ => True

/-- the callback policy is total and keeps the invariant -/
def CbInv (W : Nat → Option Nat) (cb : CbPolicy) : Prop :=
  ∀ e s, EventOk e → ScreenInv W s → ∃ s', cb e s = .ok s' ∧ ScreenInv W s'

/-- what vte can hand over (`Vt.ActOk`): printed characters are Unicode scalar values, CSI
parameters are `u16` (vte saturates at 65535); `Vt.good_advance` shows that `Parser::advance`
produces nothing else -/
abbrev ActionOk : Action → Prop := ActOk

def Good (W : Nat → Option Nat) (ws : WS) : Prop := ScreenInv W ws.screen

/-- a step on the wrapped screen that never fails and keeps the invariant -/
def StepW (W : Nat → Option Nat) (f : WS → M WS) : Prop := ∀ ws, Good W ws → ∃ ws', f ws = .ok ws' ∧ Good W ws'

theorem cbNone_inv : CbInv W cbNone := fun _ s _ hs => ⟨s, rfl, hs⟩

/-- the `resize` policy of the harness (`set_size` called from inside `Callbacks::resize`) -/
theorem cbResize_inv : CbInv W cbResize := by
  intro e s hb hs
  cases e with
  | resize r c =>
    simp only [EventOk] at hb
    simp only [cbResize]
    by_cases h : (decide (r ≥ 1) && decide (c ≥ 1)) = true
    · simp only [h, ↓reduceIte]
      simp only [Bool.and_eq_true, decide_eq_true_eq] at h
      exact inv_setSize hs r c h.1 h.2 hb.1 hb.2
    · simp only [h, Bool.false_eq_true, ↓reduceIte]; exact ⟨s, rfl, hs⟩
  | _ => exact ⟨s, rfl, hs⟩

theorem stepW_emit {cb : CbPolicy} (hcb : CbInv W cb) (e : Event) (he : EventOk e) : StepW W (emit cb e) := by
  intro ws hg
  obtain ⟨s', e1, i1⟩ := hcb e ws.screen he hg
  exact ⟨{ screen := s', events := ws.events ++ [e] }, by simp [emit, e1], i1⟩

theorem stepW_onScreen {f : Screen → M Screen}
    (hf : ∀ s, ScreenInv W s → ∃ s', f s = .ok s' ∧ ScreenInv W s') : StepW W (fun ws => ws.onScreen f) := by
  intro ws hg
  obtain ⟨s', e1, i1⟩ := hf ws.screen hg
  exact ⟨{ ws with screen := s' }, by simp [WS.onScreen, e1], i1⟩

/-- a screen operation that is `modifyGrid` of a total grid operation -/
theorem screen_total {f : Screen → Grid → M Grid}
    (hf : ∀ s g, GridInv W g true → g.rows.length = g.size.rows → Total W (f s) g) :
    ∀ s, ScreenInv W s → ∃ s', s.modifyGrid (f s) = .ok s' ∧ ScreenInv W s' := by
  intro s hs
  obtain ⟨hc, hl⟩ := hs.cur
  obtain ⟨s', e, i, _⟩ := screen_lift hs (hf s s.cur hc hl)
  exact ⟨s', e, i⟩

theorem good_modAttrs {ws : WS} (h : Good W ws) (f : Attrs → Attrs) : Good W (ws.modAttrs f) :=
  screenInv_congr h rfl rfl rfl
theorem good_setFg {ws : WS} (h : Good W ws) (c : Color) : Good W (ws.setFg c) := screenInv_congr h rfl rfl rfl
theorem good_setBg {ws : WS} (h : Good W ws) (c : Color) : Good W (ws.setBg c) := screenInv_congr h rfl rfl rfl

/-- SGR is total and keeps the invariant, for every parameter list -/
theorem stepW_sgr {unh : WS → M WS} (hunh : StepW W unh) (params : List (List Nat)) :
    StepW W (sgr unh params) := by
  have hgen : ∀ (ps : List (List Nat)) (ws : WS), Good W ws → ∃ ws', sgrLoop unh ps ws = .ok ws' ∧ Good W ws' := by
    intro ps ws
    fun_induction sgrLoop unh ps ws <;> intro hg
    all_goals first
      | exact ⟨_, rfl, hg⟩
      | (rename_i ih; exact ih (good_modAttrs hg _))
      | (rename_i ih; exact ih (good_setFg hg _))
      | (rename_i ih; exact ih (good_setBg hg _))
      | exact hunh _ hg
      | skip
    all_goals
      rename_i ih
      obtain ⟨w1, e1, g1⟩ := hunh _ hg
      obtain ⟨w2, e2, g2⟩ := ih w1 g1
      exact ⟨w2, by simp [e1, e2], g2⟩
  intro ws hg
  unfold sgr
  split
  · exact ⟨_, rfl, good_modAttrs hg _⟩
  · exact hgen _ _ hg

theorem stepW_fold {α} (step : WS → α → M WS) (hstep : ∀ x, StepW W (fun ws => step ws x)) :
    ∀ (xs : List α), StepW W (fun ws => xs.foldlM step ws) := by
  intro xs
  induction xs with
  | nil => intro ws hg; exact ⟨ws, rfl, hg⟩
  | cons x xs ih =>
    intro ws hg
    obtain ⟨w1, e1, g1⟩ := hstep x ws hg
    obtain ⟨w2, e2, g2⟩ := ih w1 g1
    exact ⟨w2, by simp [List.foldlM, e1, e2], g2⟩

end Vt.C13

namespace Vt.C13
open Vt
set_option linter.unusedSimpArgs false
variable {W : Nat → Option Nat}

theorem decsetOne_ok {s : Screen} (hs : ScreenInv W s) (p : List Nat) :
    ∃ r, s.decsetOne p = .ok r ∧ ∀ s', r = some s' → ScreenInv W s' := by
  unfold Screen.decsetOne
  split
  all_goals first
    | exact ⟨_, rfl, fun s' h => by cases h; exact screenInv_congr hs rfl rfl rfl⟩
    | exact ⟨none, rfl, fun s' h => by cases h⟩
    | skip
  · -- ?6h
    obtain ⟨hc, hl⟩ := hs.cur
    obtain ⟨s1, e1, i1, _⟩ := screen_lift hs (total_setOriginMode hc hl true)
    exact ⟨some s1, by simp [e1], fun s' h => by cases h; exact i1⟩
  · -- ?47h
    obtain ⟨s1, e1, i1⟩ := enterAlternateGrid_ok hs
    exact ⟨some s1, by simp [e1], fun s' h => by cases h; exact i1⟩
  · -- ?1049h
    obtain ⟨s1, e1, i1⟩ := saveCursor_ok hs
    obtain ⟨ag, e2, i2, sz2, cap2, _⟩ := clear_ok i1.alt
    have i3 : ScreenInv W { s1 with altGrid := ag } :=
      ⟨i1.grid, i2, by rw [cap2]; exact i1.alt_cap, by rw [sz2]; exact i1.same_size, by
        intro ha he
        simp only at ha he
        rename_i hlen
        have := i1.alt_alloc ha
        rw [he] at hlen; simp at hlen
        exact this (List.eq_nil_of_length_eq_zero hlen.symm)⟩
    obtain ⟨s4, e4, i4⟩ := enterAlternateGrid_ok i3
    exact ⟨some s4, by simp [Screen.decsc, e1, e2, e4], fun s' h => by cases h; exact i4⟩

theorem decrstOne_ok {s : Screen} (hs : ScreenInv W s) (p : List Nat) :
    ∃ r, s.decrstOne p = .ok r ∧ ∀ s', r = some s' → ScreenInv W s' := by
  unfold Screen.decrstOne
  split
  all_goals first
    | exact ⟨_, rfl, fun s' h => by cases h; exact screenInv_congr hs rfl rfl rfl⟩
    | exact ⟨none, rfl, fun s' h => by cases h⟩
    | (refine ⟨_, rfl, fun s' h => ?_⟩; cases h
       simp only [Screen.clearMouseMode, Screen.clearMouseEnc]; split <;> exact screenInv_congr hs rfl rfl rfl)
    | skip
  · obtain ⟨hc, hl⟩ := hs.cur
    obtain ⟨s1, e1, i1, _⟩ := screen_lift hs (total_setOriginMode hc hl false)
    exact ⟨some s1, by simp [e1], fun s' h => by cases h; exact i1⟩
  · exact ⟨_, rfl, fun s' h => by cases h; exact exitAlternateGrid_inv hs⟩
  · obtain ⟨s1, e1, i1⟩ := restoreCursor_ok (exitAlternateGrid_inv hs)
    exact ⟨some s1, by simp [Screen.decrc, e1], fun s' h => by cases h; exact i1⟩

theorem edMode_ok {s : Screen} (hs : ScreenInv W s) (m : Nat) :
    ∃ r, s.edMode m = .ok r ∧ ∀ s', r = some s' → ScreenInv W s' := by
  obtain ⟨hc, hl⟩ := hs.cur
  unfold Screen.edMode
  split
  · obtain ⟨s1, e1, i1, _⟩ := screen_lift hs (total_eraseAllForward hc hl s.attrs)
    exact ⟨some s1, by simp [e1], fun s' h => by cases h; exact i1⟩
  · obtain ⟨s1, e1, i1, _⟩ := screen_lift hs (total_eraseAllBackward hc hl s.attrs)
    exact ⟨some s1, by simp [e1], fun s' h => by cases h; exact i1⟩
  · obtain ⟨s1, e1, i1, _⟩ := screen_lift hs (total_eraseAll hc hl s.attrs)
    have e1' : (s.modifyGrid fun g => Except.ok (g.eraseAll s.attrs)) = .ok s1 := e1
    exact ⟨some s1, by simp only [pure_eq_ok, e1', ok_bind], fun s' h => by cases h; exact i1⟩
  · exact ⟨none, rfl, fun s' h => by cases h⟩

theorem elMode_ok {s : Screen} (hs : ScreenInv W s) (m : Nat) :
    ∃ r, s.elMode m = .ok r ∧ ∀ s', r = some s' → ScreenInv W s' := by
  obtain ⟨hc, hl⟩ := hs.cur
  unfold Screen.elMode
  split
  · obtain ⟨s1, e1, i1, _⟩ := screen_lift hs (total_eraseRowForward hc hl s.attrs)
    exact ⟨some s1, by simp [e1], fun s' h => by cases h; exact i1⟩
  · obtain ⟨s1, e1, i1, _⟩ := screen_lift hs (total_eraseRowBackward hc hl s.attrs)
    exact ⟨some s1, by simp [e1], fun s' h => by cases h; exact i1⟩
  · obtain ⟨s1, e1, i1, _⟩ := screen_lift hs (total_eraseRow hc hl s.attrs)
    exact ⟨some s1, by simp [e1], fun s' h => by cases h; exact i1⟩
  · exact ⟨none, rfl, fun s' h => by cases h⟩

/-- a step that is "one arm or `unhandled`" -/
theorem stepW_arm {unh : WS → M WS} (hunh : StepW W unh) (arm : Screen → M (Option Screen))
    (harm : ∀ s, ScreenInv W s → ∃ r, arm s = .ok r ∧ ∀ s', r = some s' → ScreenInv W s') :
    StepW W (fun ws => do
      match ← arm ws.screen with
      | some s => pure { ws with screen := s }
      | none => unh ws) := by
  intro ws hg
  obtain ⟨r, e, hr⟩ := harm ws.screen hg
  cases r with
  | none => obtain ⟨w, e2, g2⟩ := hunh ws hg; exact ⟨w, by simp [e, e2], g2⟩
  | some s1 => exact ⟨{ ws with screen := s1 }, by simp [e], hr s1 rfl⟩

end Vt.C13

namespace Vt.C13
open Vt
set_option linter.unusedSimpArgs false
variable {W : Nat → Option Nat}

/-- screen operations of the form `modifyGrid (total grid operation)` -/
theorem onGrid {ws : WS} (hg : Good W ws) {f : Screen → M Screen} {k : Screen → Grid → M Grid}
    (hf : ∀ s, f s = s.modifyGrid (k s))
    (hk : ∀ s g, GridInv W g true → g.rows.length = g.size.rows → Total W (k s) g) :
    ∃ ws', ws.onScreen f = .ok ws' ∧ Good W ws' := by
  refine stepW_onScreen (f := f) ?_ ws hg
  intro s hs
  rw [hf]
  exact screen_total hk s hs

theorem canon1_le {params : List (List Nat)} (hp : ∀ p ∈ params, ∀ x ∈ p, x ≤ 65535) (d : Nat) (hd : d ≤ 65535) :
    canon1 params d ≤ 65535 := by
  simp only [canon1, firstOr0]
  cases params with
  | nil => simp; exact hd
  | cons p rest =>
    simp only
    cases p with
    | nil => simp; exact hd
    | cons x xs =>
      simp only [List.headD_cons]
      by_cases hx : (x == 0) = true
      · simp only [hx, ↓reduceIte]; exact hd
      · simp only [hx, Bool.false_eq_true, ↓reduceIte]; exact hp (x :: xs) (by simp) x (by simp)

theorem xtArg_le {params : List (List Nat)} (hp : ∀ p ∈ params, ∀ x ∈ p, x ≤ 65535) (d : Nat) (hd : d ≤ 65535) :
    xtArg params d ≤ 65535 := by
  unfold xtArg
  cases params with
  | nil => exact hd
  | cons p rest =>
    cases p with
    | nil => exact hd
    | cons x xs => exact hp (x :: xs) (by simp) x (by simp)

theorem canon2_pos (params : List (List Nat)) (d1 d2 : Nat) (h1 : 1 ≤ d1) (h2 : 1 ≤ d2) :
    1 ≤ (canon2 params d1 d2).1 ∧ 1 ≤ (canon2 params d1 d2).2 := by
  simp only [canon2]
  constructor
  · by_cases h : (firstOr0 params == 0) = true
    · simp only [h, ↓reduceIte]; exact h1
    · simp only [h, Bool.false_eq_true, ↓reduceIte]; simp at h; omega
  · by_cases h : (firstOr0 params.tail == 0) = true
    · simp only [h, ↓reduceIte]; exact h2
    · simp only [h, Bool.false_eq_true, ↓reduceIte]; simp at h; omega

/-- **every action is total and keeps the invariant** -/
theorem inv_perform (hW32 : W 32 = some 1) {cb : CbPolicy} (hcb : CbInv W cb)
    (ws : WS) (hg : ScreenInv W ws.screen) (a : Action) (ha : ActionOk a) :
    ∃ ws', perform W cb ws a = .ok ws' ∧ ScreenInv W ws'.screen := by
  have hemit : ∀ e, EventOk e → StepW W (emit cb e) := fun e he => stepW_emit hcb e he
  have hexec : ∀ b, ∃ ws', performExecute cb ws b = .ok ws' ∧ Good W ws' := by
    intro b
    unfold performExecute
    split
    · (refine hemit _ ?_ ws hg; trivial)
    · exact onGrid hg (k := fun _ g => pure (g.colDec 1)) (fun s => rfl) (fun s g h l => total_colDec h l 1)
    · exact onGrid hg (k := fun _ g => g.colTab) (fun s => rfl) (fun s g h l => total_colTab h l)
    all_goals first
      | (refine onGrid hg (k := fun _ g => do let (g, _) ← g.rowIncScroll 1; pure g) (fun s => rfl) ?_
         intro s g h l
         obtain ⟨g', n, e, st, _⟩ := rowIncScroll_ok h l
         exact ⟨g', by simp [e], st⟩)
      | exact onGrid hg (k := fun _ g => g.colSet 0) (fun s => rfl) (fun s g h l => total_colSet h l 0)
      | exact ⟨ws, rfl, hg⟩
      | (refine hemit _ ?_ ws hg; trivial)
  cases a with
  | print c =>
    simp only [perform, performPrint]
    split
    · exact hexec c
    · split
      · (refine hemit _ ?_ ws hg; trivial)
      · exact onGrid hg (k := fun s g => g.text W s.attrs c) (fun s => rfl)
          (fun s g h l => text_total h l hW32 s.attrs ha)
  | execute b => exact hexec b
  | hook _ _ _ _ => exact ⟨ws, rfl, hg⟩
  | put _ => exact ⟨ws, rfl, hg⟩
  | unhook => exact ⟨ws, rfl, hg⟩
  | oscDispatch params _ =>
    simp only [perform, performOsc]
    split
    · rename_i str
      obtain ⟨w1, e1, g1⟩ := hemit (.setWindowIconName str) trivial ws hg
      obtain ⟨w2, e2, g2⟩ := hemit (.setWindowTitle str) trivial w1 g1
      exact ⟨w2, by simp [e1, e2], g2⟩
    all_goals (refine hemit _ ?_ ws hg; trivial)
  | escDispatch ints ig b =>
    simp only [perform, performEsc]
    split
    · (refine hemit _ ?_ ws hg; trivial)
    · split
      · exact stepW_onScreen (f := Screen.decsc) (fun s hs => saveCursor_ok hs) ws hg
      · exact stepW_onScreen (f := Screen.decrc) (fun s hs => restoreCursor_ok hs) ws hg
      · exact ⟨_, rfl, screenInv_congr hg rfl rfl rfl⟩
      · exact ⟨_, rfl, screenInv_congr hg rfl rfl rfl⟩
      · exact onGrid hg (k := fun _ g => g.rowDecScroll 1) (fun s => rfl) (fun s g h l => total_rowDecScroll h l)
      · exact stepW_onScreen (f := Screen.ris) (fun s hs => ris_ok hs) ws hg
      · (refine hemit _ ?_ ws hg; trivial)
      · (refine hemit _ ?_ ws hg; trivial)
  | csiDispatch params ints ig c =>
    simp only [ActionOk, ActOk] at ha
    have hunh : ∀ e, EventOk e → StepW W (emit cb e) := hemit
    simp only [perform, performCsi]
    split
    · split
      · exact onGrid hg (k := fun _ g => g.insertCells (canon1 params 1)) (fun s => rfl)
          (fun s g h l => total_insertCells h l _)
      · exact onGrid hg (k := fun _ g => pure (g.rowDecClamp (canon1 params 1))) (fun s => rfl)
          (fun s g h l => total_rowDecClamp h l _)
      · exact onGrid hg (k := fun _ g => g.rowIncClamp (canon1 params 1)) (fun s => rfl)
          (fun s g h l => total_rowIncClamp h l _)
      · exact onGrid hg (k := fun _ g => g.colIncClamp (canon1 params 1)) (fun s => rfl)
          (fun s g h l => total_colIncClamp h l _)
      · exact onGrid hg (k := fun _ g => pure (g.colDec (canon1 params 1))) (fun s => rfl)
          (fun s g h l => total_colDec h l _)
      · exact onGrid hg (k := fun _ g => g.cnl (canon1 params 1)) (fun s => rfl)
          (fun s g h l => total_cnl h l _)
      · exact onGrid hg (k := fun _ g => g.cpl (canon1 params 1)) (fun s => rfl)
          (fun s g h l => total_cpl h l _)
      · -- CHA
        refine stepW_onScreen ?_ ws hg
        intro s hs
        simp only [Screen.cha, subM_ok (C06.canon1_pos params), ok_bind]
        exact screen_total (f := fun _ g => g.colSet (canon1 params 1 - 1)) (fun s g h l => total_colSet h l _) s hs
      · -- CUP
        refine stepW_onScreen ?_ ws hg
        intro s hs
        obtain ⟨h1, h2⟩ := canon2_pos params 1 1 (Nat.le_refl _) (Nat.le_refl _)
        simp only [Screen.cup, subM_ok h1, subM_ok h2, ok_bind]
        exact screen_total (f := fun _ g => g.setPos ⟨(canon2 params 1 1).1 - 1, (canon2 params 1 1).2 - 1⟩)
          (fun s g h l => total_setPos h l _ _) s hs
      · exact stepW_arm (hunh _ (by trivial)) (fun s => s.edMode (canon1 params 0)) (fun s hs => edMode_ok hs _) ws hg
      · exact stepW_arm (hunh _ (by trivial)) (fun s => s.elMode (canon1 params 0)) (fun s hs => elMode_ok hs _) ws hg
      · exact onGrid hg (k := fun _ g => g.insertLines (canon1 params 1)) (fun s => rfl)
          (fun s g h l => total_insertLines h l _)
      · exact onGrid hg (k := fun _ g => g.deleteLines (canon1 params 1)) (fun s => rfl)
          (fun s g h l => total_deleteLines h l _)
      · exact onGrid hg (k := fun _ g => g.deleteCells (canon1 params 1)) (fun s => rfl)
          (fun s g h l => total_deleteCells h l _)
      · exact onGrid hg (k := fun _ g => g.scrollUp (canon1 params 1)) (fun s => rfl)
          (fun s g h l => total_scrollUp h l _)
      · exact onGrid hg (k := fun _ g => g.scrollDown (canon1 params 1)) (fun s => rfl)
          (fun s g h l => total_scrollDown h l _)
      · exact onGrid hg (k := fun s g => g.eraseCells (canon1 params 1) s.attrs) (fun s => rfl)
          (fun s g h l => total_eraseCells h l _ _)
      · -- VPA
        refine stepW_onScreen ?_ ws hg
        intro s hs
        simp only [Screen.vpa, subM_ok (C06.canon1_pos params), ok_bind]
        exact screen_total (f := fun _ g => g.rowSet (canon1 params 1 - 1)) (fun s g h l => total_rowSet h l _) s hs
      · exact stepW_sgr (hunh _ (by trivial)) params ws hg
      · -- DECSTBM
        refine stepW_onScreen ?_ ws hg
        intro s hs
        have hrp := hs.cur.1.rows_pos
        obtain ⟨h1, h2⟩ := canon2_pos params 1 s.cur.size.rows (Nat.le_refl _) hrp
        simp only [Screen.decstbm, subM_ok h1, subM_ok h2, ok_bind]
        exact screen_total (f := fun s g => g.setScrollRegion ((canon2 params 1 s.cur.size.rows).1 - 1)
            ((canon2 params 1 s.cur.size.rows).2 - 1))
          (fun s g h l => total_setScrollRegion h l _ _) s hs
      · -- XTWINOPS
        split
        · refine hemit _ ?_ ws hg
          have hsz := hg.cur.1
          refine ⟨xtArg_le ?_ _ hsz.rows_u16, xtArg_le ?_ _ hsz.cols_u16⟩
          · intro p hp; exact ha p (List.mem_of_mem_tail hp)
          · intro p hp; exact ha p (List.mem_of_mem_tail (List.mem_of_mem_tail hp))
        · (refine hemit _ ?_ ws hg; trivial)
      · (refine hemit _ ?_ ws hg; trivial)
    · split
      · exact stepW_arm (hunh _ (by trivial)) (fun s => s.edMode (canon1 params 0)) (fun s hs => edMode_ok hs _) ws hg
      · exact stepW_arm (hunh _ (by trivial)) (fun s => s.elMode (canon1 params 0)) (fun s hs => elMode_ok hs _) ws hg
      · exact stepW_fold _ (fun p => stepW_arm (hunh _ (by trivial)) (fun s => s.decsetOne p) (fun s hs => decsetOne_ok hs p))
          params ws hg
      · exact stepW_fold _ (fun p => stepW_arm (hunh _ (by trivial)) (fun s => s.decrstOne p) (fun s hs => decrstOne_ok hs p))
          params ws hg
      · (refine hemit _ ?_ ws hg; trivial)
    · (refine hemit _ ?_ ws hg; trivial)

/-- lifted to every list of admissible actions -/
theorem inv_actions (hW32 : W 32 = some 1) {cb : CbPolicy} (hcb : CbInv W cb) :
    ∀ (acts : List Action) (ws : WS), ScreenInv W ws.screen → (∀ a ∈ acts, ActionOk a) →
      ∃ ws', acts.foldlM (perform W cb) ws = .ok ws' ∧ ScreenInv W ws'.screen := by
  intro acts
  induction acts with
  | nil => intro ws hg _; exact ⟨ws, rfl, hg⟩
  | cons a rest ih =>
    intro ws hg hok
    obtain ⟨w1, e1, g1⟩ := inv_perform hW32 hcb ws hg a (hok a (List.mem_cons_self))
    obtain ⟨w2, e2, g2⟩ := ih w1 g1 (fun x hx => hok x (List.mem_cons_of_mem _ hx))
    exact ⟨w2, by simp [List.foldlM, e1, e2], g2⟩

end Vt.C13

namespace Vt.C13
open Vt
set_option linter.unusedSimpArgs false
variable {W : Nat → Option Nat}

/-- the invariant of a whole parser: the screen invariant and a well-formed vte automaton -/
structure ParserInv (W : Nat → Option Nat) (p : Parser) : Prop where
  screen : ScreenInv W p.ws.screen
  vte : VteOk p.vte

/-- **C03 / C13: `process` is total and keeps the invariant**, for every byte string (bytes are
`u8`), from every parser state satisfying the invariant, for every callback policy that is total
and keeps it -/
theorem process_total (hW32 : W 32 = some 1) {cb : CbPolicy} (hcb : CbInv W cb)
    (p : Parser) (hp : ParserInv W p) (bytes : List Nat) (hb : ∀ b ∈ bytes, b < 256) :
    ∃ p', p.process W cb bytes = .ok p' ∧ ParserInv W p' := by
  obtain ⟨v1, a1⟩ := good_advance p.vte bytes hp.vte hb
  obtain ⟨ws', e, i⟩ := inv_actions hW32 hcb (p.vte.advance bytes).2 p.ws hp.screen a1
  refine ⟨{ vte := (p.vte.advance bytes).1, ws := ws' }, ?_, ⟨i, v1⟩⟩
  simp only [Parser.process, e, ok_bind, pure_eq_ok]

/-- a newly constructed parser satisfies the invariant -/
theorem new_parserInv (rows cols sb : Nat) (hr : 1 ≤ rows) (hc : 1 ≤ cols) (hr' : rows ≤ 65535)
    (hc' : cols ≤ 65535) : ∃ p, Parser.new rows cols sb = .ok p ∧ ParserInv W p := by
  have := inv_new W rows cols sb hr hc hr' hc'
  refine ⟨{ vte := Vte.new, ws := { screen := newScreen rows cols sb, events := [] } }, ?_, ?_, vteOk_new⟩
  · simp [Parser.new, this.1]
  · exact (inv_iff W _).mp this.2

/-- the public mutating API -/
inductive Op where
  | process (bytes : List Nat)
  | setSize (rows cols : Nat)
  | setScrollback (k : Nat)

/-- argument ranges of the Rust signatures (`&[u8]`, `u16`) and the contract `rows, cols ≥ 1` -/
def Op.Valid : Op → Prop
  | .process bytes => ∀ b ∈ bytes, b < 256
  | .setSize r c => 1 ≤ r ∧ r ≤ 65535 ∧ 1 ≤ c ∧ c ≤ 65535
  | .setScrollback _ => True

def applyOp (W : Nat → Option Nat) (cb : CbPolicy) (p : Parser) : Op → M Parser
  | .process bytes => p.process W cb bytes
  | .setSize r c => do
      let s ← p.ws.screen.setSize r c
      pure { p with ws := { p.ws with screen := s } }
  | .setScrollback k => do
      let s ← p.ws.screen.setScrollback k
      pure { p with ws := { p.ws with screen := s } }

theorem applyOp_total (hW32 : W 32 = some 1) {cb : CbPolicy} (hcb : CbInv W cb)
    (p : Parser) (hp : ParserInv W p) (op : Op) (hv : op.Valid) :
    ∃ p', applyOp W cb p op = .ok p' ∧ ParserInv W p' := by
  cases op with
  | process bytes => exact process_total hW32 hcb p hp bytes hv
  | setSize r c =>
    obtain ⟨s', e, i⟩ := inv_setSize hp.screen r c hv.1 hv.2.2.1 hv.2.1 hv.2.2.2
    exact ⟨{ p with ws := { p.ws with screen := s' } }, by simp [applyOp, e], ⟨i, hp.vte⟩⟩
  | setScrollback k =>
    obtain ⟨hc, hl⟩ := hp.screen.cur
    obtain ⟨s', e, i, _⟩ := screen_lift hp.screen (total_setScrollback hc hl k)
    have e' : p.ws.screen.setScrollback k = .ok s' := e
    exact ⟨{ p with ws := { p.ws with screen := s' } }, by simp [applyOp, e'], ⟨i, hp.vte⟩⟩

/-- **reachable states satisfy the invariant, and nothing on the way can fail**: every history of
`process` / `set_size` / `set_scrollback` calls from `Parser::new` -/
theorem reachable_inv (hW32 : W 32 = some 1) {cb : CbPolicy} (hcb : CbInv W cb)
    (rows cols sb : Nat) (hr : 1 ≤ rows) (hc : 1 ≤ cols) (hr' : rows ≤ 65535) (hc' : cols ≤ 65535)
    (ops : List Op) (hv : ∀ op ∈ ops, op.Valid) :
    ∃ p, (Parser.new rows cols sb >>= fun p0 => ops.foldlM (applyOp W cb) p0) = .ok p ∧ ParserInv W p := by
  obtain ⟨p0, e0, i0⟩ := new_parserInv (W := W) rows cols sb hr hc hr' hc'
  rw [e0]
  simp only [ok_bind]
  clear e0
  induction ops generalizing p0 with
  | nil => exact ⟨p0, rfl, i0⟩
  | cons op rest ih =>
    obtain ⟨p1, e1, i1⟩ := applyOp_total hW32 hcb p0 i0 op (hv op (List.mem_cons_self))
    obtain ⟨p2, e2, i2⟩ := ih (fun o ho => hv o (List.mem_cons_of_mem _ ho)) p1 i1
    exact ⟨p2, by simp [List.foldlM, e1, e2], i2⟩

/-- non-vacuity: the concrete width function `W0` satisfies the assumption -/
example : W0 32 = some 1 := by decide

end Vt.C13
