import Vt.Props.C19b
import Vt.Props.C12
import Vt.Props.C02
/-
  MiscC19 — C19: `rows_diff` of a screen against itself / against a look-alike is empty on every line.

  Next to `contents_diff_self`, `state_diff_self`, `contents_diff_look_alike`, `state_diff_look_alike`
  of Vt/Props/C19b.lean:

  * `rowsDiffLoop_self`   : the loop of `rows_diff` on `rs.zip rs` returns one empty byte string per row.
  * `rows_diff_self`      : `s.rows_diff(s, start, width)` = `rows` empty byte strings, for every window
                            and at every scrollback offset (`offset ≤ scrollback.length` is part of `Inv`).
  * `rows_diff_look_alike`: the same for `s.rows_diff(t, …)` when `ScreenSame s t` — whatever else differs
                            between `s` and `t` (stale cell bytes, inactive grid, saved cursors, margins,
                            hidden scrollback, …).
  * `rows_diff_self_inv` / `rows_diff_look_alike_inv` : the same under `Inv W s`, the number of elements
                            stated as `s.cur.size.rows`.
-/
namespace Vt.MiscC19
open Vt Vt.C19
set_option linter.unusedSimpArgs false
set_option linter.unusedVariables false

/-- the loop of `rows_diff` on a list of rows paired with itself: nothing to write on any line -/
theorem rowsDiffLoop_self (start width : Nat) : ∀ (rs : List Row) (i : Nat),
    Screen.rowsDiffLoop start width (rs.zip rs) i = .ok (List.replicate rs.length [])
  | [], _ => rfl
  | r :: rs, i => by
    simp only [List.zip_cons_cons, Screen.rowsDiffLoop, row_diff_self, ok_bind,
      rowsDiffLoop_self start width rs (i + 1), List.length_cons, List.replicate_succ]
    rfl

/-- **C19** `rows_diff` of a screen against itself: one EMPTY byte string per visible row, for every
column window `(start, width)` and every scrollback offset -/
theorem rows_diff_self (s : Screen) (h : s.cur.scrollbackOffset ≤ s.cur.scrollback.length)
    (start width : Nat) :
    s.rowsDiff s start width = .ok (List.replicate s.cur.rows.length []) := by
  obtain ⟨v, e, hl⟩ := C12.visibleRows_length s.cur h
  simp only [Screen.rowsDiff, e, ok_bind, rowsDiffLoop_self, hl]

/-- **C19** equal-looking screens: `s.rows_diff(t, start, width)` is empty on every line -/
theorem rows_diff_look_alike {s t : Screen} (hst : ScreenSame s t)
    (hs : s.cur.scrollbackOffset ≤ s.cur.scrollback.length) (start width : Nat) :
    s.rowsDiff t start width = .ok (List.replicate s.cur.rows.length []) := by
  rw [← rows_diff_self s hs start width]
  exact (rows_diff_same (screenSame_refl s hs) hst start width).symm

/-- ... and the other way round (`ScreenSame` is used from left to right only) -/
theorem rows_diff_look_alike' {s t : Screen} (hst : ScreenSame s t)
    (ht : t.cur.scrollbackOffset ≤ t.cur.scrollback.length) (start width : Nat) :
    t.rowsDiff s start width = .ok (List.replicate t.cur.rows.length []) := by
  rw [← rows_diff_self t ht start width]
  exact rows_diff_same (screenSame_refl t ht) hst start width

/-- under `Inv`: `rows` empty byte strings -/
theorem rows_diff_self_inv {W : Nat → Option Nat} (s : Screen) (hi : Inv W s) (start width : Nat) :
    s.rowsDiff s start width = .ok (List.replicate s.cur.size.rows []) := by
  obtain ⟨hg, hl⟩ := ((inv_iff W s).mp hi).cur
  rw [rows_diff_self s hg.sb_off, hl]

theorem rows_diff_look_alike_inv {W : Nat → Option Nat} {s t : Screen} (hi : Inv W s)
    (hst : ScreenSame s t) (start width : Nat) :
    s.rowsDiff t start width = .ok (List.replicate s.cur.size.rows []) := by
  obtain ⟨hg, hl⟩ := ((inv_iff W s).mp hi).cur
  rw [rows_diff_look_alike hst hg.sb_off, hl]

/-- every element is empty (the form a caller iterating over the rows uses) -/
theorem rows_diff_self_get {W : Nat → Option Nat} (s : Screen) (hi : Inv W s) (start width : Nat) :
    ∃ res, s.rowsDiff s start width = .ok res ∧ res.length = s.cur.size.rows ∧ ∀ bs ∈ res, bs = [] := by
  refine ⟨_, rows_diff_self_inv s hi start width, by simp, ?_⟩
  intro bs hbs
  exact (List.mem_replicate.mp hbs).2

/-! ### test: a look-alike that is not equal -/

/-- test: `t` = "ab" typed; `s` = "xy" typed, cursor home, "ab" typed over it, and a scroll region set and
the cursor put back (`ESC[1;2r` `ESC[1;3H`): `s ≠ t` as records (stale bytes are equal here, but the margins
differ), `s.rows_diff(t, 0, 4)` and `s.rows_diff(t, 1, 2)` are `[[], [], []]`.  Kernel-evaluated. -/
theorem rows_diff_look_alike_example :
    isOkTrue (do
      let t ← C02.run 3 4 0 [[97, 98]]
      let s ← C02.run 3 4 0 [[120, 121, 0x1b, 0x5b, 72, 97, 98, 0x1b, 0x5b, 49, 59, 50, 114, 0x1b, 0x5b, 49, 59, 51, 72]]
      let d ← s.screen.rowsDiff t.screen 0 4
      let d' ← s.screen.rowsDiff t.screen 1 2
      pure (decide (s.screen ≠ t.screen) && decide (d = [[], [], []]) && decide (d' = [[], [], []]))) = true := by
  decide +kernel

end Vt.MiscC19

/-
#print axioms Vt.MiscC19.rows_diff_self
#print axioms Vt.MiscC19.rows_diff_look_alike
#print axioms Vt.MiscC19.rows_diff_look_alike'
#print axioms Vt.MiscC19.rows_diff_self_inv
#print axioms Vt.MiscC19.rows_diff_look_alike_inv
-/
