import Vt.Props.C13
import Vt.Props.C12
import Vt.Props.C02
/-
  MiscC13 — C13: `cell(r, c)` is `Some` exactly inside the screen, at EVERY scrollback offset.

  `C13.cell_some_iff` is proved at offset 0 only; the property exempts only "scrollback views after a
  width change".  Here:

  * `viewWidthOk g` (decidable): every history line that is in view — the first `rows` of the last
    `offset` history lines — has `cols` cells.  It holds trivially at offset 0, and whenever `set_size`
    never changed the width while those lines were in the scrollback (history lines keep the width they
    had when they scrolled off: `set_size` does not touch the scrollback).
  * `cell_some_iff_any_offset` : `Inv W s` and `viewWidthOk s.cur` give
        `s.cell r c = .ok o` with `o.isSome ↔ r < rows ∧ c < cols`   for all `r`, `c`.
  * `cell_some_iff_all_iff` : the condition is exact: under `Inv`, the equivalence holds for ALL `(r, c)`
    if and only if `viewWidthOk` holds.
  * `cell_row_bound` : without any condition on the history, `cell(r, c)` is `Some` only for `r < rows`,
    and for `r < rows` it is `Some` iff `c <` the width of the visible row (the width change shows up in
    the column bound only).
  * `width_change_counterexample` (test): 2x3 screen, three lines scrolled off, `set_size(2, 5)`,
    `set_scrollback(1)`: `cell(0, 4)` is `None` although `4 < cols = 5` — the exempted case is real.
-/
namespace Vt.MiscC13
open Vt
set_option linter.unusedSimpArgs false
set_option linter.unusedVariables false

variable {W : Nat → Option Nat}

/-- the history lines in view: the first `rows` of the last `offset` history lines -/
def viewHistory (g : Grid) : List Row :=
  (g.scrollback.drop (g.scrollback.length - g.scrollbackOffset)).take g.rows.length

/-- every history line in view has the current width -/
def viewWidthOk (g : Grid) : Bool := (viewHistory g).all (fun r => r.cells.length == g.size.cols)

theorem viewWidthOk_offset0 (g : Grid) (h : g.scrollbackOffset = 0) : viewWidthOk g = true := by
  simp [viewWidthOk, viewHistory, h]

/-- if no history line at all has another width (e.g. the width never changed), the condition holds
at every offset -/
theorem viewWidthOk_of_all (g : Grid) (h : ∀ r ∈ g.scrollback, r.cells.length = g.size.cols) :
    viewWidthOk g = true := by
  simp only [viewWidthOk, viewHistory, List.all_eq_true, beq_iff_eq]
  intro r hr
  exact h r (List.mem_of_mem_drop (List.mem_of_mem_take hr))

/-- the visible rows: history part ++ live part, `rows` lines in all -/
theorem visible_split (g : Grid) (h : g.scrollbackOffset ≤ g.scrollback.length) :
    g.visibleRows = .ok (viewHistory g ++ g.rows.take (g.rows.length - g.scrollbackOffset)) ∧
    (viewHistory g ++ g.rows.take (g.rows.length - g.scrollbackOffset)).length = g.rows.length := by
  refine ⟨C12.visibleRows_spec g h, ?_⟩
  simp only [viewHistory, List.length_append, List.length_take, List.length_drop]
  omega

/-- **no condition on the history**: `cell(r, c)` never fails; it is `Some` only for `r < rows`, and for
such `r` exactly when `c` is below the width of the visible row `r` -/
theorem cell_row_bound (s : Screen) (hi : Inv W s) (r c : Nat) :
    ∃ vis o, s.cur.visibleRows = .ok vis ∧ vis.length = s.cur.size.rows ∧ s.cell r c = .ok o ∧
      (o.isSome ↔ ∃ h : r < vis.length, c < vis[r].cells.length) := by
  obtain ⟨hg, hl⟩ := ((inv_iff W s).mp hi).cur
  obtain ⟨hv, hlen⟩ := visible_split s.cur hg.sb_off
  generalize viewHistory s.cur ++ List.take (s.cur.rows.length - s.cur.scrollbackOffset) s.cur.rows = vis
    at hv hlen
  refine ⟨vis, (vis[r]?).bind (fun row => row.get c), hv, hlen.trans hl, ?_, ?_⟩
  · simp only [Screen.cell, Grid.visibleCell, Grid.visibleRow, hv, ok_bind, pure_eq_ok]
  · by_cases hr : r < vis.length
    · simp only [List.getElem?_eq_getElem hr, Option.bind_some, Row.get, hr, exists_true_left]
      constructor
      · intro h
        rcases Nat.lt_or_ge c vis[r].cells.length with h1 | h1
        · exact h1
        · rw [List.getElem?_eq_none h1] at h; simp at h
      · intro h
        rw [List.getElem?_eq_getElem h]; rfl
    · rw [List.getElem?_eq_none (by omega)]
      simp only [Option.bind_none, Option.isSome_none, Bool.false_eq_true, false_iff, not_exists]
      intro h; exact absurd h hr

/-- every visible row has `cols` cells, given the condition on the history lines in view -/
theorem visible_width (s : Screen) (hi : Inv W s) (hw : viewWidthOk s.cur = true)
    (vis : List Row) (hv : s.cur.visibleRows = .ok vis) : ∀ row ∈ vis, row.cells.length = s.cur.size.cols := by
  obtain ⟨hg, hl⟩ := ((inv_iff W s).mp hi).cur
  obtain ⟨hv', _⟩ := visible_split s.cur hg.sb_off
  rw [hv'] at hv
  simp only [Except.ok.injEq] at hv
  subst hv
  intro row hrow
  rcases List.mem_append.mp hrow with h | h
  · simp only [viewWidthOk, List.all_eq_true, beq_iff_eq] at hw
    exact hw row h
  · exact (hg.row_ok row (List.mem_of_mem_take h)).1

/-- **C13, `cell` at every offset.**  Under `Inv W s`, if every history line in view has `cols` cells
(`viewWidthOk`; true at offset 0, and whenever the width was not changed while those lines were in the
scrollback), then `cell(r, c)` returns, and is `Some` exactly when `r < rows ∧ c < cols`. -/
theorem cell_some_iff_any_offset (s : Screen) (hi : Inv W s) (hw : viewWidthOk s.cur = true) (r c : Nat) :
    ∃ o, s.cell r c = .ok o ∧ (o.isSome ↔ r < s.cur.size.rows ∧ c < s.cur.size.cols) := by
  obtain ⟨vis, o, hv, hlen, hc, hiff⟩ := cell_row_bound s hi r c
  refine ⟨o, hc, ?_⟩
  rw [hiff]
  constructor
  · rintro ⟨h1, h2⟩
    rw [visible_width s hi hw vis hv _ (List.getElem_mem h1)] at h2
    exact ⟨by omega, h2⟩
  · rintro ⟨h1, h2⟩
    have h1' : r < vis.length := by omega
    refine ⟨h1', ?_⟩
    rw [visible_width s hi hw vis hv _ (List.getElem_mem h1')]
    exact h2

/-- `C13.cell_some_iff` (offset 0) is the special case -/
theorem cell_some_iff_offset0 (s : Screen) (hi : Inv W s) (h0 : s.cur.scrollbackOffset = 0) (r c : Nat) :
    ∃ o, s.cell r c = .ok o ∧ (o.isSome ↔ r < s.cur.size.rows ∧ c < s.cur.size.cols) :=
  cell_some_iff_any_offset s hi (viewWidthOk_offset0 _ h0) r c

/-- **the condition is exact**: under `Inv`, "`cell(r, c)` is `Some` iff `r < rows ∧ c < cols`, for all
`r`, `c`" holds if and only if every history line in view has `cols` cells -/
theorem cell_some_iff_all_iff (s : Screen) (hi : Inv W s) :
    (∀ r c, ∃ o, s.cell r c = .ok o ∧ (o.isSome ↔ r < s.cur.size.rows ∧ c < s.cur.size.cols))
      ↔ viewWidthOk s.cur = true := by
  constructor
  · intro hall
    obtain ⟨hg, hl⟩ := ((inv_iff W s).mp hi).cur
    obtain ⟨hv, hlen⟩ := visible_split s.cur hg.sb_off
    simp only [viewWidthOk, List.all_eq_true, beq_iff_eq]
    intro row hrow
    obtain ⟨j, hj, rfl⟩ := List.getElem_of_mem hrow
    -- row `j` of the view is that history line
    have hjv : j < (viewHistory s.cur ++ s.cur.rows.take (s.cur.rows.length - s.cur.scrollbackOffset)).length := by
      rw [List.length_append]; omega
    have hget : (viewHistory s.cur ++ s.cur.rows.take (s.cur.rows.length - s.cur.scrollbackOffset))[j]?
        = some (viewHistory s.cur)[j] := by
      rw [List.getElem?_append_left hj, List.getElem?_eq_getElem hj]
    have hjr : j < s.cur.size.rows := by rw [← hl, ← hlen]; exact hjv
    have key : ∀ c, (((viewHistory s.cur)[j]).cells[c]?).isSome ↔ c < s.cur.size.cols := by
      intro c
      obtain ⟨o, ho, hiff⟩ := hall j c
      simp only [Screen.cell, Grid.visibleCell, Grid.visibleRow, hv, ok_bind, pure_eq_ok, hget,
        Option.bind_some, Row.get, Except.ok.injEq] at ho
      subst ho
      rw [hiff]
      exact ⟨fun h => h.2, fun h => ⟨hjr, h⟩⟩
    -- a list whose `[c]?` is `some` exactly below `cols` has length `cols`
    rcases Nat.lt_trichotomy ((viewHistory s.cur)[j]).cells.length s.cur.size.cols with h | h | h
    · have := (key ((viewHistory s.cur)[j]).cells.length).mpr h
      rw [List.getElem?_eq_none (Nat.le_refl _)] at this
      simp at this
    · exact h
    · have := (key s.cur.size.cols).mp (by rw [List.getElem?_eq_getElem h]; rfl)
      omega
  · intro hw r c
    exact cell_some_iff_any_offset s hi hw r c

/-! ### tests: the condition is satisfiable at a non-zero offset, and the exempted case is real -/

/-- test: 2x3 screen, capacity 5, four lines printed (two scrolled off), scrolled back by 2: `Inv`,
offset 2, `viewWidthOk`, and `cell` is `Some` exactly on the 2x3 rectangle (checked on a 4x5 grid of
positions) -/
theorem any_offset_nonvacuous :
    isOkTrue (do
      let p ← C02.run 2 3 5 [[97, 13, 10, 98, 13, 10, 99, 13, 10, 100]]
      let s ← p.screen.setScrollback 2
      let cells ← (List.range 4).mapM (fun r => (List.range 5).mapM (fun c => do
        let o ← s.cell r c
        pure (o.isSome == (decide (r < 2) && decide (c < 3)))))
      pure (decide (Inv W0 s) && s.cur.scrollbackOffset == 2 && viewWidthOk s.cur &&
            cells.all (fun l => l.all id))) = true := by
  decide +kernel

/-- test (the exempted case): the same history, then `set_size(2, 5)` and `set_scrollback(1)`: `Inv` still
holds, but the history line in view is 3 cells wide on a 5-column screen: `viewWidthOk` fails and
`cell(0, 4)` is `None` although `0 < rows` and `4 < cols`; the live row below it is 5 wide:
`cell(1, 4)` is `Some` -/
theorem width_change_counterexample :
    isOkTrue (do
      let p ← C02.run 2 3 5 [[97, 13, 10, 98, 13, 10, 99, 13, 10, 100]]
      let s ← p.screen.setSize 2 5
      let s ← s.setScrollback 1
      let o ← s.cell 0 4
      let o' ← s.cell 1 4
      pure (decide (Inv W0 s) && s.cur.scrollbackOffset == 1 && s.cur.size == ⟨2, 5⟩ &&
            !viewWidthOk s.cur && o.isNone && o'.isSome)) = true := by
  decide +kernel

end Vt.MiscC13

/-
#print axioms Vt.MiscC13.cell_some_iff_any_offset
#print axioms Vt.MiscC13.cell_some_iff_all_iff
#print axioms Vt.MiscC13.cell_row_bound
#print axioms Vt.MiscC13.viewWidthOk_of_all
-/
