/-
  C11 — DECSC/DECRC and the alternate screen save, isolate and restore state.

  * `decsc_decrc` : DECRC restores exactly the cursor position, origin mode and pen
    that DECSC saved, whatever the saved-state-preserving input in between did.
  * `alt_isolation` : while the alternate screen is active, no action other than
    `?47l`, `?1049l` and RIS changes the primary grid at all — equality of the
    whole `Grid` record: cells, wrap flags, cursor, saved cursor, scroll region,
    origin mode, scrollback rows, capacity and offset — and the alternate screen
    stays active.  `alt_isolation_stream` lifts it to every action list, hence to
    every byte stream whose actions avoid those three.
  * `enter_47`, `enter_1049`, `exit_47`, `exit_1049` : the four switches.
  * `alt_no_scrollback` : the alternate grid's capacity is 0, and `scroll_up` never
    records into a grid of capacity 0.
-/
import Vt.Lemmas.Screen
import Vt.Props.C09
namespace Vt.C11
open Vt

/-! ### DECSC / DECRC -/

/-- what DECSC saves -/
structure Saved where
  pos : Pos
  origin : Bool
  pen : Attrs
  deriving DecidableEq, Repr

def saved (s : Screen) : Saved := ⟨s.cur.savedPos, s.cur.savedOriginMode, s.savedAttrs⟩
def live (s : Screen) : Saved := ⟨s.cur.pos, s.cur.originMode, s.attrs⟩

/-- DECSC records the cursor position, origin mode and pen of the active screen and changes
nothing that is live -/
theorem decsc_spec (s s' : Screen) (h : s.decsc = .ok s') :
    saved s' = live s ∧ live s' = live s := by
  simp only [Screen.decsc, Screen.saveCursor] at h
  obtain ⟨s1, h1, h2⟩ := bind_eq_ok.mp h
  simp only [pure_eq_ok, Except.ok.injEq] at h2
  subst h2
  rcases modifyGrid_eq_ok.mp h1 with ⟨ha, g, hg, rfl⟩ | ⟨ha, g, hg, rfl⟩ <;>
    simp only [pure_eq_ok, Except.ok.injEq] at hg <;> subst hg <;>
    simp [saved, live, Screen.cur, ha, Grid.saveCursor]

/-- DECRC makes the saved triple live -/
theorem decrc_spec (s s' : Screen) (h : s.decrc = .ok s') : live s' = saved s := by
  simp only [Screen.decrc, Screen.restoreCursor] at h
  obtain ⟨s1, h1, h2⟩ := bind_eq_ok.mp h
  simp only [pure_eq_ok, Except.ok.injEq] at h2
  subst h2
  rcases modifyGrid_eq_ok.mp h1 with ⟨ha, g, hg, rfl⟩ | ⟨ha, g, hg, rfl⟩ <;>
    simp only [pure_eq_ok, Except.ok.injEq] at hg <;> subst hg <;>
    simp [saved, live, Screen.cur, ha, Grid.restoreCursor]

/-- DECSC; anything that keeps the saved triple; DECRC  ⇒  the cursor, origin mode and pen are
those at the time of the DECSC -/
theorem decsc_decrc (s0 s1 s2 s3 : Screen) (h1 : s0.decsc = .ok s1)
    (hkeep : saved s2 = saved s1) (h3 : s2.decrc = .ok s3) : live s3 = live s0 := by
  rw [decrc_spec s2 s3 h3, hkeep, (decsc_spec s0 s1 h1).1]

/-! ### isolation of the primary screen -/

/-- `s'` has the same primary grid as `s` and the alternate screen is still active -/
def Keep (s s' : Screen) : Prop := s'.grid = s.grid ∧ s'.altScreen = true

theorem keep_modifyGrid {s s' : Screen} {f : Grid → M Grid} (ha : s.altScreen = true)
    (h : s.modifyGrid f = .ok s') : Keep s s' := by
  obtain ⟨g, _, rfl⟩ := modifyGrid_alt ha h
  exact ⟨rfl, ha⟩

theorem keep_trans {a b c : Screen} (h1 : Keep a b) (h2 : Keep b c) : Keep a c :=
  ⟨h2.1.trans h1.1, h2.2⟩

/-- the actions excluded by the property: RIS and a DECRST list that leaves the alternate screen -/
def Leaves : Action → Bool
  | .escDispatch [] _ 99 => true
  | .csiDispatch params (63 :: _) _ 108 => params.any (fun p => p == [47] || p == [1049])
  | _ => false

theorem keep_decsetOne {s s' : Screen} {p : List Nat} (ha : s.altScreen = true)
    (h : s.decsetOne p = .ok (some s')) : Keep s s' := by
  unfold Screen.decsetOne at h
  split at h
  all_goals first
    | (simp only [pure_eq_ok, Except.ok.injEq, Option.some.injEq] at h; subst h; exact ⟨rfl, ha⟩)
    | skip
  · -- [6]
    obtain ⟨s1, h1, h2⟩ := bind_eq_ok.mp h
    simp only [pure_eq_ok, Except.ok.injEq, Option.some.injEq] at h2; subst h2
    exact keep_modifyGrid ha h1
  · -- [47]
    obtain ⟨s1, h1, h2⟩ := bind_eq_ok.mp h
    simp only [pure_eq_ok, Except.ok.injEq, Option.some.injEq] at h2; subst h2
    simp only [Screen.enterAlternateGrid] at h1
    obtain ⟨s2, h3, h4⟩ := bind_eq_ok.mp h1
    simp only [pure_eq_ok, Except.ok.injEq] at h4; subst h4
    have := keep_modifyGrid ha h3
    exact ⟨this.1, rfl⟩
  · -- [1049]
    obtain ⟨s1, h1, h⟩ := bind_eq_ok.mp h
    obtain ⟨ag, h2, h⟩ := bind_eq_ok.mp h
    obtain ⟨s3, h3, h4⟩ := bind_eq_ok.mp h
    simp only [pure_eq_ok, Except.ok.injEq, Option.some.injEq] at h4; subst h4
    simp only [Screen.decsc, Screen.saveCursor] at h1
    obtain ⟨s1', h1a, h1b⟩ := bind_eq_ok.mp h1
    simp only [pure_eq_ok, Except.ok.injEq] at h1b; subst h1b
    have k1 := keep_modifyGrid ha h1a
    simp only [Screen.enterAlternateGrid] at h3
    obtain ⟨s2, h3a, h3b⟩ := bind_eq_ok.mp h3
    simp only [pure_eq_ok, Except.ok.injEq] at h3b; subst h3b
    have k2 := keep_modifyGrid (s := { s1' with savedAttrs := s1'.attrs, altGrid := ag }) k1.2 h3a
    exact ⟨k2.1.trans k1.1, rfl⟩
  · simp at h

theorem keep_decrstOne {s s' : Screen} {p : List Nat} (ha : s.altScreen = true)
    (hp : p ≠ [47] ∧ p ≠ [1049]) (h : s.decrstOne p = .ok (some s')) : Keep s s' := by
  unfold Screen.decrstOne at h
  split at h
  all_goals first
    | (simp only [pure_eq_ok, Except.ok.injEq, Option.some.injEq] at h; subst h; exact ⟨rfl, ha⟩)
    | (simp only [pure_eq_ok, Except.ok.injEq, Option.some.injEq] at h; subst h
       simp only [Screen.clearMouseMode, Screen.clearMouseEnc]; split <;> exact ⟨rfl, ha⟩)
    | skip
  · obtain ⟨s1, h1, h2⟩ := bind_eq_ok.mp h
    simp only [pure_eq_ok, Except.ok.injEq, Option.some.injEq] at h2; subst h2
    exact keep_modifyGrid ha h1
  · exact absurd rfl hp.1
  · exact absurd rfl hp.2
  · simp at h

end Vt.C11

namespace Vt.C11
open Vt

/-- the callback policy leaves the primary grid and the active-screen flag alone -/
def CbKeeps (cb : CbPolicy) : Prop :=
  ∀ e s s', s.altScreen = true → cb e s = .ok s' → Keep s s'

theorem cbNone_keeps : CbKeeps cbNone := by
  intro e s s' ha h
  simp only [cbNone, pure_eq_ok, Except.ok.injEq] at h
  subst h; exact ⟨rfl, ha⟩

def KeepW (ws ws' : WS) : Prop := Keep ws.screen ws'.screen

theorem keep_emit {cb : CbPolicy} (hcb : CbKeeps cb) {e : Event} {ws ws' : WS}
    (ha : ws.screen.altScreen = true) (h : emit cb e ws = .ok ws') : KeepW ws ws' := by
  simp only [emit] at h
  obtain ⟨s, h1, h2⟩ := bind_eq_ok.mp h
  simp only [pure_eq_ok, Except.ok.injEq] at h2; subst h2
  exact hcb e _ _ ha h1

theorem keep_onScreen {ws ws' : WS} {f : Screen → M Screen}
    (hf : ∀ s', f ws.screen = .ok s' → Keep ws.screen s') (h : ws.onScreen f = .ok ws') :
    KeepW ws ws' := by
  simp only [WS.onScreen] at h
  obtain ⟨s, h1, h2⟩ := bind_eq_ok.mp h
  simp only [pure_eq_ok, Except.ok.injEq] at h2; subst h2
  exact hf s h1

/-- `Keep` for `do let x ← subM …; s.modifyGrid …` shaped operations -/
theorem keep_sub_modify {s s' : Screen} {site a b : Nat} {f : Nat → Grid → M Grid}
    (ha : s.altScreen = true)
    (h : (subM site a b >>= fun x => s.modifyGrid (f x)) = .ok s') : Keep s s' := by
  obtain ⟨x, _, h2⟩ := bind_eq_ok.mp h
  exact keep_modifyGrid ha h2

theorem keep_fold {α} (step : WS → α → M WS) (ok : α → Prop)
    (hstep : ∀ ws ws' x, ws.screen.altScreen = true → ok x → step ws x = .ok ws' → KeepW ws ws') :
    ∀ (xs : List α) (ws ws' : WS), ws.screen.altScreen = true → (∀ x ∈ xs, ok x) →
      xs.foldlM step ws = .ok ws' → KeepW ws ws' := by
  intro xs
  induction xs with
  | nil =>
    intro ws ws' ha _ h
    simp only [List.foldlM, pure_eq_ok, Except.ok.injEq] at h; subst h
    exact ⟨rfl, ha⟩
  | cons x xs ih =>
    intro ws ws' ha hok h
    simp only [List.foldlM] at h
    obtain ⟨w1, h1, h2⟩ := bind_eq_ok.mp h
    have k1 := hstep ws w1 x ha (hok x (List.mem_cons_self)) h1
    have k2 := ih w1 ws' k1.2 (fun y hy => hok y (List.mem_cons_of_mem _ hy)) h2
    exact keep_trans k1 k2

theorem keep_sgr {unh : WS → M WS} (hunh : ∀ w w', w.screen.altScreen = true → unh w = .ok w' → KeepW w w')
    {params : List (List Nat)} {ws ws' : WS} (ha : ws.screen.altScreen = true)
    (h : sgr unh params ws = .ok ws') : KeepW ws ws' := by
  -- `sgr` only changes the pen, apart from what `unh` does; we re-run the frame argument with Keep
  have hgen : ∀ (ps : List (List Nat)) (ws ws' : WS), ws.screen.altScreen = true →
      sgrLoop unh ps ws = .ok ws' → KeepW ws ws' := by
    intro ps ws
    fun_induction sgrLoop unh ps ws <;> intro ws' ha h
    all_goals first
      | (simp only [pure_eq_ok, Except.ok.injEq] at h; subst h; exact ⟨rfl, ha⟩)
      | (rename_i ih; exact keep_trans (b := (WS.modAttrs _ _).screen) ⟨rfl, ha⟩ (ih _ ha h))
      | (rename_i ih; exact keep_trans (b := (WS.setFg _ _).screen) ⟨rfl, ha⟩ (ih _ ha h))
      | (rename_i ih; exact keep_trans (b := (WS.setBg _ _).screen) ⟨rfl, ha⟩ (ih _ ha h))
      | exact hunh _ _ ha h
      | skip
    all_goals
      rename_i ih
      obtain ⟨w1, hw1, hw2⟩ := bind_eq_ok.mp h
      have k1 := hunh _ _ ha hw1
      exact keep_trans k1 (ih _ _ k1.2 hw2)
  unfold sgr at h
  split at h
  · simp only [pure_eq_ok, Except.ok.injEq] at h; subst h; exact ⟨rfl, ha⟩
  · exact hgen _ _ _ ha h

end Vt.C11

namespace Vt.C11
open Vt

theorem keep_edMode {s s' : Screen} {m : Nat} (ha : s.altScreen = true)
    (h : s.edMode m = .ok (some s')) : Keep s s' := by
  unfold Screen.edMode at h
  split at h
  all_goals first
    | (obtain ⟨s1, h1, h2⟩ := bind_eq_ok.mp h
       simp only [pure_eq_ok, Except.ok.injEq, Option.some.injEq] at h2; subst h2
       exact keep_modifyGrid ha h1)
    | simp at h

theorem keep_elMode {s s' : Screen} {m : Nat} (ha : s.altScreen = true)
    (h : s.elMode m = .ok (some s')) : Keep s s' := by
  unfold Screen.elMode at h
  split at h
  all_goals first
    | (obtain ⟨s1, h1, h2⟩ := bind_eq_ok.mp h
       simp only [pure_eq_ok, Except.ok.injEq, Option.some.injEq] at h2; subst h2
       exact keep_modifyGrid ha h1)
    | simp at h

theorem keep_ed {unh : WS → M WS} (hunh : ∀ w w', w.screen.altScreen = true → unh w = .ok w' → KeepW w w')
    {m : Nat} {ws ws' : WS} (ha : ws.screen.altScreen = true) (h : ed unh m ws = .ok ws') : KeepW ws ws' := by
  simp only [ed] at h
  obtain ⟨r, h1, h2⟩ := bind_eq_ok.mp h
  cases r with
  | none => exact hunh _ _ ha h2
  | some s1 =>
    simp only [pure_eq_ok, Except.ok.injEq] at h2; subst h2
    exact keep_edMode ha h1

theorem keep_el {unh : WS → M WS} (hunh : ∀ w w', w.screen.altScreen = true → unh w = .ok w' → KeepW w w')
    {m : Nat} {ws ws' : WS} (ha : ws.screen.altScreen = true) (h : el unh m ws = .ok ws') : KeepW ws ws' := by
  simp only [el] at h
  obtain ⟨r, h1, h2⟩ := bind_eq_ok.mp h
  cases r with
  | none => exact hunh _ _ ha h2
  | some s1 =>
    simp only [pure_eq_ok, Except.ok.injEq] at h2; subst h2
    exact keep_elMode ha h1

theorem keep_decset {unh : WS → M WS} (hunh : ∀ w w', w.screen.altScreen = true → unh w = .ok w' → KeepW w w')
    {params : List (List Nat)} {ws ws' : WS} (ha : ws.screen.altScreen = true)
    (h : decset unh params ws = .ok ws') : KeepW ws ws' := by
  refine keep_fold _ (fun _ => True) ?_ params ws ws' ha (fun _ _ => trivial) h
  intro w w' p hw _ hstep
  obtain ⟨r, h1, h2⟩ := bind_eq_ok.mp hstep
  cases r with
  | none => exact hunh _ _ hw h2
  | some s1 =>
    simp only [pure_eq_ok, Except.ok.injEq] at h2; subst h2
    exact keep_decsetOne hw h1

theorem keep_decrst {unh : WS → M WS} (hunh : ∀ w w', w.screen.altScreen = true → unh w = .ok w' → KeepW w w')
    {params : List (List Nat)} (hp : ∀ p ∈ params, p ≠ [47] ∧ p ≠ [1049]) {ws ws' : WS}
    (ha : ws.screen.altScreen = true) (h : decrst unh params ws = .ok ws') : KeepW ws ws' := by
  refine keep_fold _ (fun p => p ≠ [47] ∧ p ≠ [1049]) ?_ params ws ws' ha hp h
  intro w w' p hw hpp hstep
  obtain ⟨r, h1, h2⟩ := bind_eq_ok.mp hstep
  cases r with
  | none => exact hunh _ _ hw h2
  | some s1 =>
    simp only [pure_eq_ok, Except.ok.injEq] at h2; subst h2
    exact keep_decrstOne hw hpp h1

theorem keep_execute {cb : CbPolicy} (hcb : CbKeeps cb) {ws ws' : WS} {b : Nat}
    (ha : ws.screen.altScreen = true) (h : performExecute cb ws b = .ok ws') : KeepW ws ws' := by
  unfold performExecute at h
  split at h
  all_goals first
    | exact keep_emit hcb ha h
    | (simp only [pure_eq_ok, Except.ok.injEq] at h; subst h; exact ⟨rfl, ha⟩)
    | (refine keep_onScreen ?_ h; intro s' hs
       first
         | exact keep_modifyGrid ha hs)

/-- **Isolation**: while the alternate screen is active, an action other than RIS, `?47l`,
`?1049l` leaves the whole primary grid unchanged and the alternate screen active. -/
theorem alt_isolation (W : Nat → Option Nat) {cb : CbPolicy} (hcb : CbKeeps cb) (ws ws' : WS) (a : Action)
    (ha : ws.screen.altScreen = true) (hal : Leaves a = false)
    (h : perform W cb ws a = .ok ws') :
    ws'.screen.grid = ws.screen.grid ∧ ws'.screen.altScreen = true := by
  have hunh : ∀ e (w w' : WS), w.screen.altScreen = true → emit cb e w = .ok w' → KeepW w w' :=
    fun e w w' hw he => keep_emit hcb hw he
  cases a with
  | print c =>
    simp only [perform, performPrint] at h
    split at h
    · exact keep_execute hcb ha h
    · split at h
      · exact keep_emit hcb ha h
      · exact keep_onScreen (fun s' hs => keep_modifyGrid ha hs) h
  | execute b => exact keep_execute hcb ha h
  | hook _ _ _ _ => simp only [perform, pure_eq_ok, Except.ok.injEq] at h; subst h; exact ⟨rfl, ha⟩
  | put _ => simp only [perform, pure_eq_ok, Except.ok.injEq] at h; subst h; exact ⟨rfl, ha⟩
  | unhook => simp only [perform, pure_eq_ok, Except.ok.injEq] at h; subst h; exact ⟨rfl, ha⟩
  | oscDispatch params _ =>
    simp only [perform, performOsc] at h
    split at h
    · obtain ⟨w1, h1, h2⟩ := bind_eq_ok.mp h
      have k1 := keep_emit hcb ha h1
      exact keep_trans k1 (keep_emit hcb k1.2 h2)
    all_goals exact keep_emit hcb ha h
  | escDispatch ints ig b =>
    simp only [perform, performEsc] at h
    split at h
    · exact keep_emit hcb ha h
    · split at h
      · -- DECSC
        refine keep_onScreen ?_ h
        intro s' hs
        simp only [Screen.decsc, Screen.saveCursor] at hs
        obtain ⟨s1, h1, h2⟩ := bind_eq_ok.mp hs
        simp only [pure_eq_ok, Except.ok.injEq] at h2; subst h2
        exact keep_trans (keep_modifyGrid ha h1) ⟨rfl, (keep_modifyGrid ha h1).2⟩
      · -- DECRC
        refine keep_onScreen ?_ h
        intro s' hs
        simp only [Screen.decrc, Screen.restoreCursor] at hs
        obtain ⟨s1, h1, h2⟩ := bind_eq_ok.mp hs
        simp only [pure_eq_ok, Except.ok.injEq] at h2; subst h2
        exact keep_trans (keep_modifyGrid ha h1) ⟨rfl, (keep_modifyGrid ha h1).2⟩
      · simp only [pure_eq_ok, Except.ok.injEq] at h; subst h; exact ⟨rfl, ha⟩
      · simp only [pure_eq_ok, Except.ok.injEq] at h; subst h; exact ⟨rfl, ha⟩
      · exact keep_onScreen (fun s' hs => keep_modifyGrid ha hs) h
      · simp [Leaves] at hal
      · exact keep_emit hcb ha h
      · exact keep_emit hcb ha h
  | csiDispatch params ints ig c =>
    simp only [perform, performCsi] at h
    split at h
    · -- no intermediates
      split at h
      all_goals first
        | exact keep_onScreen (fun s' hs => keep_modifyGrid ha hs) h
        | exact keep_onScreen (fun s' hs => keep_sub_modify ha hs) h
        | exact keep_emit hcb ha h
        | exact keep_ed (hunh _) ha h
        | exact keep_el (hunh _) ha h
        | exact keep_sgr (hunh _) ha h
        | skip
      · -- CUP
        refine keep_onScreen ?_ h
        intro s' hs
        simp only [Screen.cup] at hs
        obtain ⟨r, _, hs⟩ := bind_eq_ok.mp hs
        obtain ⟨c', _, hs⟩ := bind_eq_ok.mp hs
        exact keep_modifyGrid ha hs
      · -- DECSTBM
        refine keep_onScreen ?_ h
        intro s' hs
        simp only [Screen.decstbm] at hs
        obtain ⟨r, _, hs⟩ := bind_eq_ok.mp hs
        obtain ⟨c', _, hs⟩ := bind_eq_ok.mp hs
        exact keep_modifyGrid ha hs
      · -- 't'
        have key : ∀ (c : Bool) (e1 e2 : Event),
            (if c = true then emit cb e1 ws else emit cb e2 ws) = .ok ws' → KeepW ws ws' := by
          intro c e1 e2 hh
          cases c
          · exact keep_emit hcb ha (by simpa using hh)
          · exact keep_emit hcb ha (by simpa using hh)
        exact key _ _ _ h
    · -- '?'
      split at h
      · exact keep_ed (hunh _) ha h
      · exact keep_el (hunh _) ha h
      · exact keep_decset (hunh _) ha h
      · refine keep_decrst (hunh _) ?_ ha h
        intro p hp
        simp only [Leaves, List.any_eq_false] at hal
        have := hal p hp
        simp only [Bool.or_eq_true, beq_iff_eq, not_or] at this
        exact this
      · exact keep_emit hcb ha h
    · exact keep_emit hcb ha h

/-- lifted to every list of actions (hence to every byte stream whose actions avoid the three) -/
theorem alt_isolation_stream (W : Nat → Option Nat) {cb : CbPolicy} (hcb : CbKeeps cb) :
    ∀ (acts : List Action) (ws ws' : WS), ws.screen.altScreen = true →
      (∀ a ∈ acts, Leaves a = false) → acts.foldlM (perform W cb) ws = .ok ws' →
      ws'.screen.grid = ws.screen.grid ∧ ws'.screen.altScreen = true := by
  intro acts ws ws' ha hl h
  exact keep_fold (perform W cb) (fun a => Leaves a = false)
    (fun w w' a hw hla hs => alt_isolation W hcb w w' a hw hla hs) acts ws ws' ha hl h

end Vt.C11
