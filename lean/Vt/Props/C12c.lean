import Vt.Props.C12
import Vt.Props.InvPerform
/-
  C12c — scrollback, statements over ALL actions of the state machine.

  1. Offset irrelevance for the whole machine (§0–§4).  "Equal up to the scrollback offsets" is
     `x.forgetOff = y.forgetOff` (`Grid.forgetOff`, `Screen.forgetOff` on both grids,
     `WS.forgetOff`, `Parser.forgetOff`).  For every callback policy that cannot see the offsets
     (`CbResp`; `cbNone_resp`, `cbResize_resp`):
       `perform_offset_irrelevant`, `actions_offset_irrelevant`, `process_offset_irrelevant`,
       `setSize_offset_irrelevant`, `ops_offset_irrelevant` (any two histories of
       process / set_size / set_scrollback calls that differ only in their set_scrollback calls),
       `SEq.fields` / `SEq.live` / `SEq.same_view` (what the relation gives the user).
     The statement is true as it stands for every grid operation reachable from `perform`
     (`scrollUp` reads and writes the offset, but only the offset); the one hypothesis needed is
     the one on the callback (`cbResp_needed`, §7, is the counterexample without it).
  2. n-step closed form of recording (§5): `scrollUp_records`, `scrollUp_records_any_offset`.
  3. History frame (§6): `perform_keep_ok` (no history changes unless the action is printing,
     LF/VT/FF, SU or RIS), `perform_frame` (inactive grid untouched, active grid extended),
     `perform_region_keep` (nothing is recorded while a scroll region is active),
     `actions_ext` / `process_ext` (append-only along any input without RIS; capacity 0 records
     nothing), `ris_hist`.
-/
namespace Vt.C12
open Vt
set_option linter.unusedSimpArgs false
set_option linter.unusedVariables false

/-! ## 0. relating two runs of the `M` monad -/

/-- both runs panic at the same site, or both succeed with related results -/
def MRel {α β} (R : α → β → Prop) : M α → M β → Prop
  | .ok a, .ok b => R a b
  | .error e, .error e' => e = e'
  | _, _ => False

theorem MRel.pure {α β} {R : α → β → Prop} {a : α} {b : β} (h : R a b) :
    MRel R (pure a : M α) (pure b : M β) := h

theorem MRel.ok {α β} {R : α → β → Prop} {a : α} {b : β} (h : R a b) :
    MRel R (.ok a : M α) (.ok b : M β) := h

theorem MRel.bind {α β γ δ} {R : α → β → Prop} {S : γ → δ → Prop} {m1 : M α} {m2 : M β}
    {f1 : α → M γ} {f2 : β → M δ} (h : MRel R m1 m2) (hf : ∀ a b, R a b → MRel S (f1 a) (f2 b)) :
    MRel S (m1 >>= f1) (m2 >>= f2) := by
  cases m1 with
  | error e1 =>
    cases m2 with
    | error e2 => exact h
    | ok b => exact h.elim
  | ok a =>
    cases m2 with
    | error e2 => exact h.elim
    | ok b => exact hf a b h

theorem MRel.bind_same {α γ δ} {S : γ → δ → Prop} (m : M α)
    {f1 : α → M γ} {f2 : α → M δ} (hf : ∀ a, MRel S (f1 a) (f2 a)) :
    MRel S (m >>= f1) (m >>= f2) := by
  cases m with
  | error e => exact (rfl : e = e)
  | ok a => exact hf a

theorem MRel.refl {α} {R : α → α → Prop} (hR : ∀ a, R a a) (m : M α) : MRel R m m := by
  cases m with
  | error e => exact (rfl : e = e)
  | ok a => exact hR a

theorem MRel.ite {α β} {R : α → β → Prop} {c : Prop} [Decidable c] {a1 b1 : M α} {a2 b2 : M β}
    (h1 : c → MRel R a1 a2) (h2 : ¬c → MRel R b1 b2) :
    MRel R (if c then a1 else b1) (if c then a2 else b2) := by
  by_cases h : c
  · simp only [h, ↓reduceIte]; exact h1 h
  · simp only [h, ↓reduceIte]; exact h2 h

theorem MRel.mono {α β} {R S : α → β → Prop} (hRS : ∀ a b, R a b → S a b) {m1 : M α} {m2 : M β}
    (h : MRel R m1 m2) : MRel S m1 m2 := by
  cases m1 with
  | error e1 => cases m2 with
    | error e2 => exact h
    | ok b => exact h.elim
  | ok a => cases m2 with
    | error e2 => exact h.elim
    | ok b => exact hRS a b h

/-- for a relation "equal after applying `fo`", `MRel` is equality of the mapped results -/
theorem MRel.iff_map {α γ} (fo : α → γ) (m1 m2 : M α) :
    MRel (fun a b => fo a = fo b) m1 m2 ↔ m1.map fo = m2.map fo := by
  cases m1 with
  | error e1 => cases m2 with
    | error e2 => simp [MRel, Except.map]
    | ok b => simp [MRel, Except.map]
  | ok a => cases m2 with
    | error e2 => simp [MRel, Except.map]
    | ok b => simp [MRel, Except.map]

theorem MRel.eq_iff {α} (m1 m2 : M α) : MRel (fun a b => a = b) m1 m2 ↔ m1 = m2 := by
  cases m1 with
  | error e1 => cases m2 with
    | error e2 => simp [MRel]
    | ok b => simp [MRel]
  | ok a => cases m2 with
    | error e2 => simp [MRel]
    | ok b => simp [MRel]

theorem iterateM_rel {α β} {R : α → β → Prop} {f1 : α → M α} {f2 : β → M β}
    (hf : ∀ a b, R a b → MRel R (f1 a) (f2 b)) :
    ∀ (n : Nat) (a : α) (b : β), R a b → MRel R (iterateM n f1 a) (iterateM n f2 b) := by
  intro n
  induction n with
  | zero => intro a b h; exact h
  | succ n ih =>
    intro a b h
    simp only [iterateM]
    exact MRel.bind (hf a b h) (fun a' b' h' => ih a' b' h')

theorem foldlM_rel {α β ι} {R : α → β → Prop} {f1 : α → ι → M α} {f2 : β → ι → M β}
    (hf : ∀ i a b, R a b → MRel R (f1 a i) (f2 b i)) :
    ∀ (l : List ι) (a : α) (b : β), R a b → MRel R (l.foldlM f1 a) (l.foldlM f2 b) := by
  intro l
  induction l with
  | nil => intro a b h; exact h
  | cons i l ih =>
    intro a b h
    simp only [List.foldlM]
    exact MRel.bind (hf i a b h) (fun a' b' h' => ih a' b' h')

/-! ## 1. equality up to the scrollback offset: grids -/

/-- "equal after forgetting": the relations of this file all have this shape -/
abbrev Sim {α γ} (fo : α → γ) (a b : α) : Prop := fo a = fo b

theorem MRel.sim_iff {α γ} (fo : α → γ) (m1 m2 : M α) :
    MRel (Sim fo) m1 m2 ↔ m1.map fo = m2.map fo := MRel.iff_map fo m1 m2

def _root_.Vt.Grid.forgetOff (g : Grid) : Grid := { g with scrollbackOffset := 0 }

/-- equal up to the scrollback offset -/
abbrev GEq : Grid → Grid → Prop := Sim Grid.forgetOff

/-- `(grid, count)` results -/
abbrev PEq : Grid × Nat → Grid × Nat → Prop := Sim (fun p => (Grid.forgetOff p.1, p.2))

theorem GEq.elim {g1 g2 : Grid} (h : GEq g1 g2) : ∃ k, g1 = { g2 with scrollbackOffset := k } := by
  refine ⟨g1.scrollbackOffset, ?_⟩
  cases g1; cases g2
  simp only [GEq, Sim, Grid.forgetOff, Grid.mk.injEq] at h ⊢
  simp [h]

theorem PEq.elim {p q : Grid × Nat} (h : PEq p q) : GEq p.1 q.1 ∧ p.2 = q.2 := by
  simp only [PEq, Sim, Prod.mk.injEq] at h
  exact h

/-- the structural steps of a relational proof about two runs that are syntactically the same
program on grids differing in the offset only -/
syntax "mrel" : tactic
macro_rules
  | `(tactic| mrel) => `(tactic| repeat' (first
      | exact MRel.refl (fun _ => rfl) _
      | exact MRel.pure rfl
      | exact MRel.ok rfl
      | (apply MRel.bind_same; intro _)
      | (apply MRel.ite <;> intro _)
      | (apply MRel.pure; (split <;> rfl))))

section grid
variable {g1 g2 : Grid}

theorem colClamp_rel (h : GEq g1 g2) : MRel GEq g1.colClamp g2.colClamp := by
  obtain ⟨k, rfl⟩ := h.elim
  simp only [Grid.colClamp]
  mrel

theorem rowClamp_rel (h : GEq g1 g2) : MRel GEq g1.rowClamp g2.rowClamp := by
  obtain ⟨k, rfl⟩ := h.elim
  simp only [Grid.rowClamp]
  mrel

theorem rowClampTop_rel (h : GEq g1 g2) (l : Bool) : PEq (g1.rowClampTop l) (g2.rowClampTop l) := by
  obtain ⟨k, rfl⟩ := h.elim
  simp only [Grid.rowClampTop]
  split <;> rfl

theorem rowClampBottom_rel (h : GEq g1 g2) (l : Bool) :
    MRel PEq (g1.rowClampBottom l) (g2.rowClampBottom l) := by
  obtain ⟨k, rfl⟩ := h.elim
  simp only [Grid.rowClampBottom]
  mrel

@[simp] theorem rowClampTop_originMode (g : Grid) (l : Bool) :
    (g.rowClampTop l).1.originMode = g.originMode := by
  simp only [Grid.rowClampTop]; split <;> rfl

theorem setPos_rel (h : GEq g1 g2) (pos : Pos) : MRel GEq (g1.setPos pos) (g2.setPos pos) := by
  obtain ⟨k, rfl⟩ := h.elim
  simp only [Grid.setPos, rowClampTop_originMode]
  refine MRel.bind (rowClampBottom_rel (rowClampTop_rel (by rfl) _).elim.1 _) ?_
  intro a b hab
  exact colClamp_rel hab.elim.1

theorem insertLines_rel (h : GEq g1 g2) (n : Nat) : MRel GEq (g1.insertLines n) (g2.insertLines n) := by
  obtain ⟨k, rfl⟩ := h.elim
  simp only [Grid.insertLines]
  refine iterateM_rel ?_ _ _ _ rfl
  intro a b hab
  obtain ⟨k, rfl⟩ := hab.elim
  simp only [Grid.newRow]
  mrel

theorem deleteLines_rel (h : GEq g1 g2) (n : Nat) : MRel GEq (g1.deleteLines n) (g2.deleteLines n) := by
  obtain ⟨k, rfl⟩ := h.elim
  simp only [Grid.deleteLines]
  apply MRel.bind_same; intro d
  refine iterateM_rel ?_ _ _ _ rfl
  intro a b hab
  obtain ⟨k, rfl⟩ := hab.elim
  simp only [Grid.newRow]
  mrel

theorem scrollDown_rel (h : GEq g1 g2) (n : Nat) : MRel GEq (g1.scrollDown n) (g2.scrollDown n) := by
  obtain ⟨k, rfl⟩ := h.elim
  simp only [Grid.scrollDown]
  refine iterateM_rel ?_ _ _ _ rfl
  intro a b hab
  obtain ⟨k, rfl⟩ := hab.elim
  simp only [Grid.newRow]
  mrel

/-- one step of `scroll_up`: the only place where the offset is both read and written -/
theorem scrollUpStep_rel (h : GEq g1 g2) : MRel GEq (scrollUpStep g1) (scrollUpStep g2) := by
  obtain ⟨k, rfl⟩ := h.elim
  simp only [scrollUpStep, Grid.newRow, Grid.scrollRegionActive]
  mrel

theorem scrollUp_rel (h : GEq g1 g2) (n : Nat) : MRel GEq (g1.scrollUp n) (g2.scrollUp n) := by
  rw [scrollUp_eq_iterate, scrollUp_eq_iterate]
  obtain ⟨k, rfl⟩ := h.elim
  simp only
  apply MRel.bind_same; intro d
  exact iterateM_rel (fun a b hab => scrollUpStep_rel hab) _ _ _ rfl

theorem allocateRows_rel (h : GEq g1 g2) : GEq g1.allocateRows g2.allocateRows := by
  obtain ⟨k, rfl⟩ := h.elim
  simp only [Grid.allocateRows]
  split <;> rfl

theorem clear_rel (h : GEq g1 g2) : MRel GEq g1.clear g2.clear := by
  obtain ⟨k, rfl⟩ := h.elim
  simp only [Grid.clear]
  mrel

theorem saveCursor_rel (h : GEq g1 g2) : GEq g1.saveCursor g2.saveCursor := by
  obtain ⟨k, rfl⟩ := h.elim; rfl

theorem restoreCursor_rel (h : GEq g1 g2) : GEq g1.restoreCursor g2.restoreCursor := by
  obtain ⟨k, rfl⟩ := h.elim; rfl

/-- `set_scrollback` only writes the offset: whatever the two arguments are -/
theorem setScrollback_rel (h : GEq g1 g2) (r r' : Nat) : GEq (g1.setScrollback r) (g2.setScrollback r') := by
  obtain ⟨k, rfl⟩ := h.elim; rfl

theorem eraseAll_rel (h : GEq g1 g2) (a : Attrs) : GEq (g1.eraseAll a) (g2.eraseAll a) := by
  obtain ⟨k, rfl⟩ := h.elim; rfl

theorem modifyCurrentRow_rel (h : GEq g1 g2) (f : Row → M Row) :
    MRel GEq (g1.modifyCurrentRow f) (g2.modifyCurrentRow f) := by
  obtain ⟨k, rfl⟩ := h.elim
  simp only [Grid.modifyCurrentRow]
  mrel

theorem modifyCellM_rel (h : GEq g1 g2) (site : Nat) (pos : Pos) (f : Cell → M Cell) :
    MRel GEq (g1.modifyCellM site pos f) (g2.modifyCellM site pos f) := by
  obtain ⟨k, rfl⟩ := h.elim
  simp only [Grid.modifyCellM]
  mrel

theorem eraseRowForward_rel (h : GEq g1 g2) (a : Attrs) :
    MRel GEq (g1.eraseRowForward a) (g2.eraseRowForward a) := by
  obtain ⟨k, rfl⟩ := h.elim
  simp only [Grid.eraseRowForward, Grid.modifyCurrentRow]
  mrel

theorem eraseRowBackward_rel (h : GEq g1 g2) (a : Attrs) :
    MRel GEq (g1.eraseRowBackward a) (g2.eraseRowBackward a) := by
  obtain ⟨k, rfl⟩ := h.elim
  simp only [Grid.eraseRowBackward, Grid.modifyCurrentRow]
  mrel

theorem eraseAllForward_rel (h : GEq g1 g2) (a : Attrs) :
    MRel GEq (g1.eraseAllForward a) (g2.eraseAllForward a) := by
  obtain ⟨k, rfl⟩ := h.elim
  simp only [Grid.eraseAllForward, Grid.eraseRowForward, Grid.modifyCurrentRow]
  mrel

theorem eraseAllBackward_rel (h : GEq g1 g2) (a : Attrs) :
    MRel GEq (g1.eraseAllBackward a) (g2.eraseAllBackward a) := by
  obtain ⟨k, rfl⟩ := h.elim
  simp only [Grid.eraseAllBackward, Grid.eraseRowBackward, Grid.modifyCurrentRow]
  mrel

theorem eraseRow_rel (h : GEq g1 g2) (a : Attrs) : MRel GEq (g1.eraseRow a) (g2.eraseRow a) := by
  obtain ⟨k, rfl⟩ := h.elim
  simp only [Grid.eraseRow, Grid.modifyCurrentRow]
  mrel

theorem insertCells_rel (h : GEq g1 g2) (n : Nat) : MRel GEq (g1.insertCells n) (g2.insertCells n) := by
  obtain ⟨k, rfl⟩ := h.elim
  simp only [Grid.insertCells, Grid.modifyCurrentRow, Grid.drawingCellM, Grid.drawingCell, Grid.drawingRow]
  mrel

theorem deleteCells_rel (h : GEq g1 g2) (n : Nat) : MRel GEq (g1.deleteCells n) (g2.deleteCells n) := by
  obtain ⟨k, rfl⟩ := h.elim
  simp only [Grid.deleteCells, Grid.modifyCurrentRow]
  mrel

theorem eraseCells_rel (h : GEq g1 g2) (n : Nat) (a : Attrs) :
    MRel GEq (g1.eraseCells n a) (g2.eraseCells n a) := by
  obtain ⟨k, rfl⟩ := h.elim
  simp only [Grid.eraseCells, Grid.modifyCurrentRow]
  mrel

theorem setScrollRegion_rel (h : GEq g1 g2) (t b : Nat) :
    MRel GEq (g1.setScrollRegion t b) (g2.setScrollRegion t b) := by
  obtain ⟨k, rfl⟩ := h.elim
  simp only [Grid.setScrollRegion]
  mrel

theorem setOriginMode_rel (h : GEq g1 g2) (m : Bool) :
    MRel GEq (g1.setOriginMode m) (g2.setOriginMode m) := by
  obtain ⟨k, rfl⟩ := h.elim
  simp only [Grid.setOriginMode]
  exact setPos_rel (by rfl) _

theorem rowIncClamp_rel (h : GEq g1 g2) (n : Nat) : MRel GEq (g1.rowIncClamp n) (g2.rowIncClamp n) := by
  obtain ⟨k, rfl⟩ := h.elim
  simp only [Grid.rowIncClamp, Grid.inScrollRegion]
  refine MRel.bind (rowClampBottom_rel (by rfl) _) ?_
  intro a b hab
  exact MRel.pure hab.elim.1

theorem rowIncScroll_rel (h : GEq g1 g2) (n : Nat) : MRel PEq (g1.rowIncScroll n) (g2.rowIncScroll n) := by
  obtain ⟨k, rfl⟩ := h.elim
  simp only [Grid.rowIncScroll, Grid.inScrollRegion]
  refine MRel.bind (rowClampBottom_rel (by rfl) _) ?_
  intro a b hab
  obtain ⟨h1, h2⟩ := hab.elim
  rw [h2]
  apply MRel.ite <;> intro _
  · refine MRel.bind (scrollUp_rel h1 _) ?_
    intro a' b' hab'
    exact MRel.pure (congrArg (fun x => (x, b.2)) hab')
  · exact MRel.pure (congrArg (fun x => (x, 0)) h1)

theorem rowDecClamp_rel (h : GEq g1 g2) (n : Nat) : GEq (g1.rowDecClamp n) (g2.rowDecClamp n) := by
  obtain ⟨k, rfl⟩ := h.elim
  simp only [Grid.rowDecClamp, Grid.inScrollRegion]
  exact (rowClampTop_rel (by rfl) _).elim.1

theorem rowDecScroll_rel (h : GEq g1 g2) (n : Nat) : MRel GEq (g1.rowDecScroll n) (g2.rowDecScroll n) := by
  obtain ⟨k, rfl⟩ := h.elim
  simp only [Grid.rowDecScroll, Grid.inScrollRegion]
  refine (fun p q hpq => ?_ : ∀ p q : Grid × Nat, PEq p q →
    MRel GEq (p.1.scrollDown (p.2 + _)) (q.1.scrollDown (q.2 + _))) _ _ (rowClampTop_rel (by rfl) _)
  obtain ⟨h1, h2⟩ := hpq.elim
  rw [h2]
  exact scrollDown_rel h1 _

theorem rowSet_rel (h : GEq g1 g2) (i : Nat) : MRel GEq (g1.rowSet i) (g2.rowSet i) := by
  obtain ⟨k, rfl⟩ := h.elim
  simp only [Grid.rowSet, Grid.rowClamp]
  mrel

theorem colInc_rel (h : GEq g1 g2) (n : Nat) : GEq (g1.colInc n) (g2.colInc n) := by
  obtain ⟨k, rfl⟩ := h.elim; rfl

theorem colDec_rel (h : GEq g1 g2) (n : Nat) : GEq (g1.colDec n) (g2.colDec n) := by
  obtain ⟨k, rfl⟩ := h.elim; rfl

theorem colIncClamp_rel (h : GEq g1 g2) (n : Nat) : MRel GEq (g1.colIncClamp n) (g2.colIncClamp n) :=
  colClamp_rel (colInc_rel h n)

theorem colTab_rel (h : GEq g1 g2) : MRel GEq g1.colTab g2.colTab := by
  obtain ⟨k, rfl⟩ := h.elim
  simp only [Grid.colTab, Grid.colClamp]
  mrel

theorem colSet_rel (h : GEq g1 g2) (i : Nat) : MRel GEq (g1.colSet i) (g2.colSet i) := by
  obtain ⟨k, rfl⟩ := h.elim
  simp only [Grid.colSet, Grid.colClamp]
  mrel

theorem cnl_rel (h : GEq g1 g2) (n : Nat) : MRel GEq (g1.cnl n) (g2.cnl n) :=
  MRel.bind (colSet_rel h 0) (fun a b hab => rowIncClamp_rel hab n)

theorem cpl_rel (h : GEq g1 g2) (n : Nat) : MRel GEq (g1.cpl n) (g2.cpl n) :=
  MRel.bind (colSet_rel h 0) (fun a b hab => MRel.pure (rowDecClamp_rel hab n))

theorem colWrap_rel (h : GEq g1 g2) (w : Nat) (wr : Bool) : MRel GEq (g1.colWrap w wr) (g2.colWrap w wr) := by
  obtain ⟨k, rfl⟩ := h.elim
  simp only [Grid.colWrap]
  apply MRel.bind_same; intro lim
  apply MRel.ite <;> intro _
  · refine MRel.bind (rowIncScroll_rel (by rfl) 1) ?_
    intro a b hab
    obtain ⟨h1, h2⟩ := hab.elim
    obtain ⟨a1, a2⟩ := a
    obtain ⟨b1, b2⟩ := b
    simp only at h1 h2
    subst h2
    obtain ⟨k', rfl⟩ := h1.elim
    simp only
    mrel
  · mrel

theorem wrapDecision_eq (h : GEq g1 g2) (w : Nat) : g1.wrapDecision w = g2.wrapDecision w := by
  obtain ⟨k, rfl⟩ := h.elim
  rfl

theorem appendToPrev_rel (h : GEq g1 g2) (row col c : Nat) :
    MRel GEq (g1.appendToPrev row col c) (g2.appendToPrev row col c) := by
  obtain ⟨k, rfl⟩ := h.elim
  simp only [Grid.appendToPrev, Grid.modifyCellM, Grid.drawingCellM, Grid.drawingCell, Grid.drawingRow]
  mrel

theorem textZero_rel (h : GEq g1 g2) (c : Nat) : MRel GEq (g1.textZero c) (g2.textZero c) := by
  obtain ⟨k, rfl⟩ := h.elim
  simp only [Grid.textZero, Grid.drawingRow]
  apply MRel.ite <;> intro _
  · exact appendToPrev_rel (by rfl) _ _ _
  · apply MRel.ite <;> intro _
    · cases g2.rows[g2.pos.row - 1]? with
      | none => exact (rfl : Panic.at 523 = Panic.at 523)
      | some r =>
        simp only [pure_bind']
        apply MRel.ite <;> intro _
        · apply MRel.bind_same; intro c1
          exact appendToPrev_rel (by rfl) _ _ _
        · mrel
    · mrel

theorem textWide_rel (W : Nat → Option Nat) (h : GEq g1 g2) (a : Attrs) (c w : Nat) :
    MRel GEq (g1.textWide W a c w) (g2.textWide W a c w) := by
  obtain ⟨k, rfl⟩ := h.elim
  simp only [Grid.textWide]
  refine MRel.bind (modifyCurrentRow_rel (by rfl) _) ?_
  intro a' b' hab
  apply MRel.pure
  split
  · exact colInc_rel (colInc_rel hab 1) 1
  · exact colInc_rel hab 1

theorem text_rel (W : Nat → Option Nat) (h : GEq g1 g2) (a : Attrs) (c : Nat) :
    MRel GEq (g1.text W a c) (g2.text W a c) := by
  have hs : g1.size = g2.size := by obtain ⟨k, rfl⟩ := h.elim; rfl
  simp only [Grid.text, wrapDecision_eq h, hs]
  apply MRel.ite <;> intro _
  · exact MRel.pure h
  · apply MRel.ite <;> intro _
    · exact MRel.pure h
    · apply MRel.bind_same; intro wr
      refine MRel.bind (colWrap_rel h _ _) ?_
      intro a' b' hab
      apply MRel.ite <;> intro _
      · exact textZero_rel hab _
      · exact textWide_rel W hab _ _ _

theorem setSize_rel (h : GEq g1 g2) (sz : Size) : MRel GEq (g1.setSize sz) (g2.setSize sz) := by
  obtain ⟨k, rfl⟩ := h.elim
  simp only [Grid.setSize]
  apply MRel.bind_same; intro oldB
  apply MRel.ite <;> intro _ <;> (apply MRel.bind_same; intro sb1) <;> apply MRel.ite <;> intro _ <;>
    (apply MRel.bind_same; intro sb2) <;>
    (refine MRel.bind (rowClampBottom_rel (rowClampTop_rel (by rfl) _).elim.1 _) ?_
     intro a b hab
     refine MRel.bind (colClamp_rel hab.elim.1) ?_
     intro a b hab
     obtain ⟨k, rfl⟩ := hab.elim
     mrel)

end grid

/-! ## 2. screens -/

def _root_.Vt.Screen.forgetOff (s : Screen) : Screen :=
  { s with grid := Grid.forgetOff s.grid, altGrid := Grid.forgetOff s.altGrid }

/-- two screens equal up to the scrollback offsets of their two grids -/
abbrev SEq : Screen → Screen → Prop := Sim Screen.forgetOff

/-- `Option Screen` results (`none` = unhandled) -/
abbrev OSEq : Option Screen → Option Screen → Prop := Sim (Option.map Screen.forgetOff)

theorem SEq.elim {s1 s2 : Screen} (h : SEq s1 s2) : ∃ k k', s1 =
    { s2 with grid := { s2.grid with scrollbackOffset := k },
              altGrid := { s2.altGrid with scrollbackOffset := k' } } := by
  cases s1; cases s2
  simp only [SEq, Sim, Screen.forgetOff, Screen.mk.injEq] at h ⊢
  obtain ⟨hg, ha, h3, h4, h5, h6, h7, h8, h9, h10, h11⟩ := h
  obtain ⟨k, hk⟩ := GEq.elim hg
  obtain ⟨k', hk'⟩ := GEq.elim ha
  exact ⟨k, k', hk, hk', h3, h4, h5, h6, h7, h8, h9, h10, h11⟩

theorem SEq.intro {g g' a a' : Grid} (hg : GEq g g') (ha : GEq a a') {at' sat : Attrs}
    {b1 b2 b3 b4 b5 : Bool} {mm : MouseMode} {me : MouseEnc} :
    SEq ⟨g, a, at', sat, b1, b2, b3, b4, b5, mm, me⟩ ⟨g', a', at', sat, b1, b2, b3, b4, b5, mm, me⟩ := by
  show Screen.forgetOff _ = Screen.forgetOff _
  simp only [Screen.forgetOff]
  rw [hg, ha]

section screen
variable {s1 s2 : Screen}

theorem modifyGrid_rel (h : SEq s1 s2) {f1 f2 : Grid → M Grid}
    (hf : ∀ a b, GEq a b → MRel GEq (f1 a) (f2 b)) :
    MRel SEq (s1.modifyGrid f1) (s2.modifyGrid f2) := by
  obtain ⟨k, k', rfl⟩ := h.elim
  simp only [Screen.modifyGrid]
  apply MRel.ite <;> intro _
  · refine MRel.bind (hf _ _ (by rfl)) ?_
    intro a b hab
    exact MRel.pure (SEq.intro (by rfl) hab)
  · refine MRel.bind (hf _ _ (by rfl)) ?_
    intro a b hab
    exact MRel.pure (SEq.intro hab (by rfl))

theorem sSetSize_rel (h : SEq s1 s2) (r c : Nat) : MRel SEq (s1.setSize r c) (s2.setSize r c) := by
  obtain ⟨k, k', rfl⟩ := h.elim
  simp only [Screen.setSize]
  refine MRel.bind (setSize_rel (by rfl) _) ?_
  intro a b hab
  refine MRel.bind (setSize_rel (by rfl) _) ?_
  intro a' b' hab'
  exact MRel.pure (SEq.intro hab hab')

/-- `set_scrollback` on either side, with any two arguments -/
theorem sSetScrollback_rel (h : SEq s1 s2) (r r' : Nat) :
    MRel SEq (s1.setScrollback r) (s2.setScrollback r') :=
  modifyGrid_rel h (fun a b hab => MRel.pure (setScrollback_rel hab r r'))

theorem enterAlternateGrid_rel (h : SEq s1 s2) : MRel SEq s1.enterAlternateGrid s2.enterAlternateGrid := by
  simp only [Screen.enterAlternateGrid]
  refine MRel.bind (modifyGrid_rel h (fun a b hab => MRel.pure (setScrollback_rel hab 0 0))) ?_
  intro a b hab
  obtain ⟨k, k', rfl⟩ := hab.elim
  exact MRel.pure (SEq.intro (by rfl) (allocateRows_rel (by rfl)))

theorem exitAlternateGrid_rel (h : SEq s1 s2) : SEq s1.exitAlternateGrid s2.exitAlternateGrid := by
  obtain ⟨k, k', rfl⟩ := h.elim
  exact SEq.intro (by rfl) (by rfl)

theorem sSaveCursor_rel (h : SEq s1 s2) : MRel SEq s1.saveCursor s2.saveCursor := by
  simp only [Screen.saveCursor]
  refine MRel.bind (modifyGrid_rel h (fun a b hab => MRel.pure (saveCursor_rel hab))) ?_
  intro a b hab
  obtain ⟨k, k', rfl⟩ := hab.elim
  exact MRel.pure (SEq.intro (by rfl) (by rfl))

theorem sRestoreCursor_rel (h : SEq s1 s2) : MRel SEq s1.restoreCursor s2.restoreCursor := by
  simp only [Screen.restoreCursor]
  refine MRel.bind (modifyGrid_rel h (fun a b hab => MRel.pure (restoreCursor_rel hab))) ?_
  intro a b hab
  obtain ⟨k, k', rfl⟩ := hab.elim
  exact MRel.pure (SEq.intro (by rfl) (by rfl))

theorem ris_eq (h : SEq s1 s2) : s1.ris = s2.ris := by
  obtain ⟨k, k', rfl⟩ := h.elim
  rfl

theorem some_rel {m1 m2 : M Screen} (h : MRel SEq m1 m2) :
    MRel OSEq (do let s ← m1; pure (some s)) (do let s ← m2; pure (some s)) :=
  MRel.bind h (fun a b hab => MRel.pure (congrArg some hab))

theorem decsetOne_rel (h : SEq s1 s2) (p : List Nat) : MRel OSEq (s1.decsetOne p) (s2.decsetOne p) := by
  unfold Screen.decsetOne
  split
  all_goals first
    | exact MRel.pure rfl
    | (obtain ⟨k, k', rfl⟩ := h.elim; exact MRel.pure (congrArg some (SEq.intro (by rfl) (by rfl))))
    | skip
  · exact some_rel (modifyGrid_rel h (fun a b hab => setOriginMode_rel hab _))
  · exact some_rel (enterAlternateGrid_rel h)
  · refine MRel.bind (sSaveCursor_rel h) ?_
    intro a b hab
    obtain ⟨k, k', rfl⟩ := hab.elim
    simp only
    refine MRel.bind (clear_rel (by rfl)) ?_
    intro a' b' hab'
    exact some_rel (enterAlternateGrid_rel (SEq.intro (by rfl) hab'))

theorem clearMouseMode_rel (h : SEq s1 s2) (m : MouseMode) : SEq (s1.clearMouseMode m) (s2.clearMouseMode m) := by
  obtain ⟨k, k', rfl⟩ := h.elim
  simp only [Screen.clearMouseMode]
  split
  · exact SEq.intro (by rfl) (by rfl)
  · rfl

theorem clearMouseEnc_rel (h : SEq s1 s2) (m : MouseEnc) : SEq (s1.clearMouseEnc m) (s2.clearMouseEnc m) := by
  obtain ⟨k, k', rfl⟩ := h.elim
  simp only [Screen.clearMouseEnc]
  split
  · exact SEq.intro (by rfl) (by rfl)
  · rfl

theorem decrstOne_rel (h : SEq s1 s2) (p : List Nat) : MRel OSEq (s1.decrstOne p) (s2.decrstOne p) := by
  unfold Screen.decrstOne
  split
  all_goals first
    | exact MRel.pure rfl
    | exact MRel.pure (congrArg some (clearMouseMode_rel h _))
    | exact MRel.pure (congrArg some (clearMouseEnc_rel h _))
    | exact MRel.pure (congrArg some (exitAlternateGrid_rel h))
    | (obtain ⟨k, k', rfl⟩ := h.elim; exact MRel.pure (congrArg some (SEq.intro (by rfl) (by rfl))))
    | skip
  · exact some_rel (modifyGrid_rel h (fun a b hab => setOriginMode_rel hab _))

theorem SEq.attrs (h : SEq s1 s2) : s1.attrs = s2.attrs := by
  obtain ⟨k, k', rfl⟩ := h.elim; rfl

theorem SEq.cur (h : SEq s1 s2) : GEq s1.cur s2.cur := by
  obtain ⟨k, k', rfl⟩ := h.elim
  simp only [Screen.cur]
  split <;> rfl

theorem SEq.size (h : SEq s1 s2) : s1.size = s2.size := by
  have := h.cur
  obtain ⟨k, hk⟩ := this.elim
  simp only [Screen.size, hk]

theorem edMode_rel (h : SEq s1 s2) (m : Nat) : MRel OSEq (s1.edMode m) (s2.edMode m) := by
  unfold Screen.edMode
  rw [h.attrs]
  split
  · exact some_rel (modifyGrid_rel h (fun a b hab => eraseAllForward_rel hab _))
  · exact some_rel (modifyGrid_rel h (fun a b hab => eraseAllBackward_rel hab _))
  · exact some_rel (modifyGrid_rel h (fun a b hab => MRel.pure (eraseAll_rel hab _)))
  · exact MRel.pure rfl

theorem elMode_rel (h : SEq s1 s2) (m : Nat) : MRel OSEq (s1.elMode m) (s2.elMode m) := by
  unfold Screen.elMode
  rw [h.attrs]
  split
  · exact some_rel (modifyGrid_rel h (fun a b hab => eraseRowForward_rel hab _))
  · exact some_rel (modifyGrid_rel h (fun a b hab => eraseRowBackward_rel hab _))
  · exact some_rel (modifyGrid_rel h (fun a b hab => eraseRow_rel hab _))
  · exact MRel.pure rfl

end screen

/-! ## 3. the wrapped screen and `perform` -/

def _root_.Vt.WS.forgetOff (ws : WS) : WS := { ws with screen := Screen.forgetOff ws.screen }

/-- equal up to the scrollback offsets; in particular the same callback events -/
abbrev WEq : WS → WS → Prop := Sim WS.forgetOff

theorem WEq.elim {w1 w2 : WS} (h : WEq w1 w2) : SEq w1.screen w2.screen ∧ w1.events = w2.events := by
  cases w1; cases w2
  simp only [WEq, Sim, WS.forgetOff, WS.mk.injEq] at h
  exact h

theorem WEq.intro {s s' : Screen} (h : SEq s s') (ev : List Event) : WEq ⟨s, ev⟩ ⟨s', ev⟩ := by
  show WS.forgetOff _ = WS.forgetOff _
  simp only [WS.forgetOff]
  rw [h]

/-- a callback policy that cannot see the offsets (`Callbacks` gets `&mut Screen`; it could call
`screen.scrollback()`, which is the one public accessor that returns the offset) -/
def CbResp (cb : CbPolicy) : Prop := ∀ e s1 s2, SEq s1 s2 → MRel SEq (cb e s1) (cb e s2)

theorem cbNone_resp : CbResp cbNone := fun _ _ _ h => MRel.pure h

theorem cbResize_resp : CbResp cbResize := by
  intro e s1 s2 h
  cases e with
  | resize r c =>
    simp only [cbResize]
    apply MRel.ite <;> intro _
    · exact sSetSize_rel h r c
    · exact MRel.pure h
  | _ => exact MRel.pure h

/-- a step of the wrapped screen that respects equality up to the offsets -/
def WResp (f : WS → M WS) : Prop := ∀ w1 w2, WEq w1 w2 → MRel WEq (f w1) (f w2)

section ws
variable {cb : CbPolicy}

theorem emit_resp (hcb : CbResp cb) (e : Event) : WResp (emit cb e) := by
  intro w1 w2 h
  obtain ⟨hs, he⟩ := h.elim
  simp only [emit, he]
  refine MRel.bind (hcb e _ _ hs) ?_
  intro a b hab
  exact MRel.pure (WEq.intro hab _)

theorem onScreen_resp {f : Screen → M Screen} (hf : ∀ a b, SEq a b → MRel SEq (f a) (f b)) :
    WResp (fun ws => ws.onScreen f) := by
  intro w1 w2 h
  obtain ⟨hs, he⟩ := h.elim
  simp only [WS.onScreen, he]
  refine MRel.bind (hf _ _ hs) ?_
  intro a b hab
  exact MRel.pure (WEq.intro hab _)

theorem onGrid_resp {f : Screen → Grid → M Grid} (hs : ∀ a b, SEq a b → f a = f b)
    (hf : ∀ s a b, GEq a b → MRel GEq (f s a) (f s b)) :
    WResp (fun ws => ws.onScreen (fun s => s.modifyGrid (f s))) :=
  onScreen_resp (fun a b hab => by rw [hs a b hab]; exact modifyGrid_rel hab (hf b))

theorem arm_resp {unh : WS → M WS} (hunh : WResp unh) {arm : Screen → M (Option Screen)}
    (harm : ∀ a b, SEq a b → MRel OSEq (arm a) (arm b)) :
    WResp (fun ws => do
      match ← arm ws.screen with
      | some s => pure { ws with screen := s }
      | none => unh ws) := by
  intro w1 w2 h
  obtain ⟨hs, he⟩ := h.elim
  simp only
  refine MRel.bind (harm _ _ hs) ?_
  intro a b hab
  cases a with
  | none =>
    cases b with
    | none => exact hunh _ _ h
    | some b => simp [OSEq, Sim] at hab
  | some a =>
    cases b with
    | none => simp [OSEq, Sim] at hab
    | some b =>
      simp only [OSEq, Sim, Option.map_some, Option.some.injEq] at hab
      simp only [he]
      exact MRel.pure (WEq.intro hab _)

theorem fold_resp {α} {step : WS → α → M WS} (hstep : ∀ x, WResp (fun ws => step ws x)) (xs : List α) :
    WResp (fun ws => xs.foldlM step ws) :=
  fun w1 w2 h => foldlM_rel (fun x a b hab => hstep x a b hab) xs w1 w2 h

theorem modAttrs_rel {w1 w2 : WS} (h : WEq w1 w2) (f : Attrs → Attrs) : WEq (w1.modAttrs f) (w2.modAttrs f) := by
  obtain ⟨hs, he⟩ := h.elim
  obtain ⟨k, k', hk⟩ := hs.elim
  cases w1; cases w2
  simp only at hk he
  subst hk he
  exact WEq.intro (SEq.intro (by rfl) (by rfl)) _

theorem setFg_rel {w1 w2 : WS} (h : WEq w1 w2) (c : Color) : WEq (w1.setFg c) (w2.setFg c) := by
  obtain ⟨hs, he⟩ := h.elim
  obtain ⟨k, k', hk⟩ := hs.elim
  cases w1; cases w2
  simp only at hk he
  subst hk he
  exact WEq.intro (SEq.intro (by rfl) (by rfl)) _

theorem setBg_rel {w1 w2 : WS} (h : WEq w1 w2) (c : Color) : WEq (w1.setBg c) (w2.setBg c) := by
  obtain ⟨hs, he⟩ := h.elim
  obtain ⟨k, k', hk⟩ := hs.elim
  cases w1; cases w2
  simp only at hk he
  subst hk he
  exact WEq.intro (SEq.intro (by rfl) (by rfl)) _

/-- closes one branch of `sgrLoop`'s `match` (hypothesis names of `sgrLoop_resp`) -/
syntax "sgr_close" : tactic
set_option hygiene false in
macro_rules
  | `(tactic| sgr_close) => `(tactic| first
      | exact ih _ (by first | exact hr | (simp only [List.length_cons] at hr; omega)) _ _ (modAttrs_rel h _)
      | exact ih _ (by first | exact hr | (simp only [List.length_cons] at hr; omega)) _ _ (setFg_rel h _)
      | exact ih _ (by first | exact hr | (simp only [List.length_cons] at hr; omega)) _ _ (setBg_rel h _)
      | exact MRel.pure h
      | exact hunh _ _ h
      | exact MRel.bind (hunh _ _ h) (fun a b hab => ih _ hr _ _ hab)
      | (apply MRel.ite <;> intro _ <;> sgr_close)
      | (split <;> sgr_close))

theorem sgrLoop_resp {unh : WS → M WS} (hunh : WResp unh) (ps : List (List Nat)) :
    WResp (sgrLoop unh ps) := by
  have hgen : ∀ (n : Nat) (ps : List (List Nat)), ps.length ≤ n → WResp (sgrLoop unh ps) := by
    intro n
    induction n with
    | zero =>
      intro ps hl w1 w2 h
      have : ps = [] := List.eq_nil_of_length_eq_zero (by omega)
      subst this
      unfold sgrLoop
      exact MRel.pure h
    | succ n ih =>
      intro ps hl w1 w2 h
      unfold sgrLoop
      split
      · exact MRel.pure h
      · rename_i p rest
        simp only [List.length_cons] at hl
        have hr : rest.length ≤ n := by omega
        split
        all_goals sgr_close
  exact hgen _ ps (Nat.le_refl _)

theorem sgr_resp {unh : WS → M WS} (hunh : WResp unh) (ps : List (List Nat)) : WResp (sgr unh ps) := by
  intro w1 w2 h
  unfold sgr
  split
  · exact MRel.pure (modAttrs_rel h _)
  · exact sgrLoop_resp hunh ps w1 w2 h

theorem decset_resp {unh : WS → M WS} (hunh : WResp unh) (ps : List (List Nat)) : WResp (decset unh ps) :=
  fold_resp (fun p => arm_resp hunh (fun a b hab => decsetOne_rel hab p)) ps

theorem decrst_resp {unh : WS → M WS} (hunh : WResp unh) (ps : List (List Nat)) : WResp (decrst unh ps) :=
  fold_resp (fun p => arm_resp hunh (fun a b hab => decrstOne_rel hab p)) ps

theorem ed_resp {unh : WS → M WS} (hunh : WResp unh) (m : Nat) : WResp (ed unh m) :=
  arm_resp hunh (fun a b hab => edMode_rel hab m)

theorem el_resp {unh : WS → M WS} (hunh : WResp unh) (m : Nat) : WResp (el unh m) :=
  arm_resp hunh (fun a b hab => elMode_rel hab m)

theorem performExecute_resp (hcb : CbResp cb) (b : Nat) : WResp (fun ws => performExecute cb ws b) := by
  intro w1 w2 h
  simp only [performExecute]
  split
  all_goals first
    | exact emit_resp hcb _ w1 w2 h
    | exact MRel.pure h
    | exact onScreen_resp (f := Screen.bs)
        (fun a b hab => modifyGrid_rel hab (fun a b hab => MRel.pure (colDec_rel hab 1))) w1 w2 h
    | exact onScreen_resp (f := Screen.tab)
        (fun a b hab => modifyGrid_rel hab (fun a b hab => colTab_rel hab)) w1 w2 h
    | exact onScreen_resp (f := Screen.cr)
        (fun a b hab => modifyGrid_rel hab (fun a b hab => colSet_rel hab 0)) w1 w2 h
    | exact onScreen_resp (f := Screen.lf)
        (fun a b hab => modifyGrid_rel hab (fun a b hab =>
          MRel.bind (rowIncScroll_rel hab 1) (fun p q hpq => MRel.pure hpq.elim.1))) w1 w2 h

theorem performPrint_resp (W : Nat → Option Nat) (hcb : CbResp cb) (c : Nat) :
    WResp (fun ws => performPrint W cb ws c) := by
  intro w1 w2 h
  simp only [performPrint]
  apply MRel.ite <;> intro _
  · exact performExecute_resp hcb c w1 w2 h
  · apply MRel.ite <;> intro _
    · exact emit_resp hcb _ w1 w2 h
    · refine onScreen_resp (f := fun s => s.text W c) ?_ w1 w2 h
      intro a b hab
      simp only [Screen.text, hab.attrs]
      exact modifyGrid_rel hab (fun a b hab => text_rel W hab _ _)

theorem performEsc_resp (hcb : CbResp cb) (ints : List Nat) (b : Nat) :
    WResp (fun ws => performEsc cb ws ints b) := by
  intro w1 w2 h
  simp only [performEsc]
  split
  · exact emit_resp hcb _ w1 w2 h
  · split
    · exact onScreen_resp (f := Screen.decsc) (fun a b hab => sSaveCursor_rel hab) w1 w2 h
    · exact onScreen_resp (f := Screen.decrc) (fun a b hab => sRestoreCursor_rel hab) w1 w2 h
    · obtain ⟨hs, he⟩ := h.elim
      obtain ⟨k, k', hk⟩ := hs.elim
      rw [he, hk]
      exact MRel.pure (WEq.intro (SEq.intro (by rfl) (by rfl)) _)
    · obtain ⟨hs, he⟩ := h.elim
      obtain ⟨k, k', hk⟩ := hs.elim
      rw [he, hk]
      exact MRel.pure (WEq.intro (SEq.intro (by rfl) (by rfl)) _)
    · exact onScreen_resp (f := Screen.ri)
        (fun a b hab => modifyGrid_rel hab (fun a b hab => rowDecScroll_rel hab 1)) w1 w2 h
    · refine onScreen_resp (f := Screen.ris) ?_ w1 w2 h
      intro a b hab
      rw [ris_eq hab]
      exact MRel.refl (R := SEq) (fun _ => rfl) _
    · exact emit_resp hcb _ w1 w2 h
    · exact emit_resp hcb _ w1 w2 h

theorem performOsc_resp (hcb : CbResp cb) (params : List (List Nat)) :
    WResp (fun ws => performOsc cb ws params) := by
  intro w1 w2 h
  simp only [performOsc]
  split
  · exact MRel.bind (emit_resp hcb _ w1 w2 h) (fun a b hab => emit_resp hcb _ a b hab)
  all_goals exact emit_resp hcb _ w1 w2 h

theorem canon2_fst_eq (p : List (List Nat)) (a b b' : Nat) : (canon2 p a b).1 = (canon2 p a b').1 := rfl

theorem performCsi_resp (hcb : CbResp cb) (params : List (List Nat)) (ints : List Nat) (c : Nat) :
    WResp (fun ws => performCsi cb ws params ints c) := by
  intro w1 w2 h
  have hunh : ∀ e, WResp (emit cb e) := fun e => emit_resp hcb e
  simp only [performCsi]
  split
  · split
    · exact onScreen_resp (f := fun s => s.ich (canon1 params 1))
        (fun a b hab => modifyGrid_rel hab (fun a b hab => insertCells_rel hab _)) w1 w2 h
    · exact onScreen_resp (f := fun s => s.cuu (canon1 params 1))
        (fun a b hab => modifyGrid_rel hab (fun a b hab => MRel.pure (rowDecClamp_rel hab _))) w1 w2 h
    · exact onScreen_resp (f := fun s => s.cud (canon1 params 1))
        (fun a b hab => modifyGrid_rel hab (fun a b hab => rowIncClamp_rel hab _)) w1 w2 h
    · exact onScreen_resp (f := fun s => s.cuf (canon1 params 1))
        (fun a b hab => modifyGrid_rel hab (fun a b hab => colIncClamp_rel hab _)) w1 w2 h
    · exact onScreen_resp (f := fun s => s.cub (canon1 params 1))
        (fun a b hab => modifyGrid_rel hab (fun a b hab => MRel.pure (colDec_rel hab _))) w1 w2 h
    · exact onScreen_resp (f := fun s => s.cnl (canon1 params 1))
        (fun a b hab => modifyGrid_rel hab (fun a b hab => cnl_rel hab _)) w1 w2 h
    · exact onScreen_resp (f := fun s => s.cpl (canon1 params 1))
        (fun a b hab => modifyGrid_rel hab (fun a b hab => cpl_rel hab _)) w1 w2 h
    · refine onScreen_resp (f := fun s => s.cha (canon1 params 1)) ?_ w1 w2 h
      intro a b hab
      simp only [Screen.cha]
      apply MRel.bind_same; intro x
      exact modifyGrid_rel hab (fun a b hab => colSet_rel hab _)
    · refine onScreen_resp (f := fun s => s.cup (canon2 params 1 1).1 (canon2 params 1 1).2) ?_ w1 w2 h
      intro a b hab
      simp only [Screen.cup]
      apply MRel.bind_same; intro x
      apply MRel.bind_same; intro y
      exact modifyGrid_rel hab (fun a b hab => setPos_rel hab _)
    · exact ed_resp (hunh _) _ w1 w2 h
    · exact el_resp (hunh _) _ w1 w2 h
    · exact onScreen_resp (f := fun s => s.il (canon1 params 1))
        (fun a b hab => modifyGrid_rel hab (fun a b hab => insertLines_rel hab _)) w1 w2 h
    · exact onScreen_resp (f := fun s => s.dl (canon1 params 1))
        (fun a b hab => modifyGrid_rel hab (fun a b hab => deleteLines_rel hab _)) w1 w2 h
    · exact onScreen_resp (f := fun s => s.dch (canon1 params 1))
        (fun a b hab => modifyGrid_rel hab (fun a b hab => deleteCells_rel hab _)) w1 w2 h
    · exact onScreen_resp (f := fun s => s.su (canon1 params 1))
        (fun a b hab => modifyGrid_rel hab (fun a b hab => scrollUp_rel hab _)) w1 w2 h
    · exact onScreen_resp (f := fun s => s.sd (canon1 params 1))
        (fun a b hab => modifyGrid_rel hab (fun a b hab => scrollDown_rel hab _)) w1 w2 h
    · refine onScreen_resp (f := fun s => s.ech (canon1 params 1)) ?_ w1 w2 h
      intro a b hab
      simp only [Screen.ech, hab.attrs]
      exact modifyGrid_rel hab (fun a b hab => eraseCells_rel hab _ _)
    · refine onScreen_resp (f := fun s => s.vpa (canon1 params 1)) ?_ w1 w2 h
      intro a b hab
      simp only [Screen.vpa]
      apply MRel.bind_same; intro x
      exact modifyGrid_rel hab (fun a b hab => rowSet_rel hab _)
    · exact sgr_resp (hunh _) params w1 w2 h
    · refine onScreen_resp (f := fun s => s.decstbm (canon2 params 1 s.cur.size.rows).1
          (canon2 params 1 s.cur.size.rows).2) ?_ w1 w2 h
      intro a b hab
      have hsz : a.cur.size = b.cur.size := hab.size
      simp only [Screen.decstbm, hsz]
      apply MRel.bind_same; intro x
      apply MRel.bind_same; intro y
      exact modifyGrid_rel hab (fun a b hab => setScrollRegion_rel hab _ _)
    · have hsz : w1.screen.size = w2.screen.size := h.elim.1.size
      rw [hsz]
      apply MRel.ite <;> intro _
      · exact hunh _ w1 w2 h
      · exact hunh _ w1 w2 h
    · exact hunh _ w1 w2 h
  · split
    · exact ed_resp (hunh _) _ w1 w2 h
    · exact el_resp (hunh _) _ w1 w2 h
    · exact decset_resp (hunh _) params w1 w2 h
    · exact decrst_resp (hunh _) params w1 w2 h
    · exact hunh _ w1 w2 h
  · exact hunh _ w1 w2 h

/-- **offset irrelevance for one action of the state machine** -/
theorem perform_resp (W : Nat → Option Nat) (hcb : CbResp cb) (a : Action) :
    WResp (fun ws => perform W cb ws a) := by
  cases a with
  | print c => exact performPrint_resp W hcb c
  | execute b => exact performExecute_resp hcb b
  | hook _ _ _ _ => exact fun w1 w2 h => MRel.pure h
  | put _ => exact fun w1 w2 h => MRel.pure h
  | unhook => exact fun w1 w2 h => MRel.pure h
  | oscDispatch params _ => exact performOsc_resp hcb params
  | csiDispatch params ints _ c => exact performCsi_resp hcb params ints c
  | escDispatch ints _ b => exact performEsc_resp hcb ints b

end ws
/-! ## 4. the whole machine -/

def _root_.Vt.Parser.forgetOff (p : Parser) : Parser := { p with ws := WS.forgetOff p.ws }

/-- two parsers equal up to the scrollback offsets (same vte automaton state, same callback log) -/
abbrev ParEq : Parser → Parser → Prop := Sim Parser.forgetOff

theorem ParEq.elim {p1 p2 : Parser} (h : ParEq p1 p2) : p1.vte = p2.vte ∧ WEq p1.ws p2.ws := by
  cases p1; cases p2
  simp only [ParEq, Sim, Parser.forgetOff, Parser.mk.injEq] at h
  exact h

theorem ParEq.intro {w w' : WS} (h : WEq w w') (v : Vte) : ParEq ⟨v, w⟩ ⟨v, w'⟩ := by
  show Parser.forgetOff _ = Parser.forgetOff _
  simp only [Parser.forgetOff]
  rw [h]

section machine
variable (W : Nat → Option Nat) {cb : CbPolicy}

theorem actions_resp (hcb : CbResp cb) (acts : List Action) :
    WResp (fun ws => acts.foldlM (perform W cb) ws) :=
  fold_resp (fun a => perform_resp W hcb a) acts

theorem process_rel (hcb : CbResp cb) {p1 p2 : Parser} (h : ParEq p1 p2) (bytes : List Nat) :
    MRel ParEq (p1.process W cb bytes) (p2.process W cb bytes) := by
  obtain ⟨hv, hw⟩ := h.elim
  simp only [Parser.process, hv]
  refine MRel.bind (actions_resp W hcb _ _ _ hw) ?_
  intro a b hab
  exact MRel.pure (ParEq.intro hab _)

/-! ### the statements in `map forgetOff` form -/

/-- **C12, offset irrelevance, one action**: two wrapped screens that differ only in the scrollback
offsets give, for every action, the same result up to the offsets: the same panic if any, and
otherwise the same live rows, cursor, pen, modes, histories and the same callback events -/
theorem perform_offset_irrelevant (hcb : CbResp cb) (a : Action) (ws1 ws2 : WS)
    (h : ws1.forgetOff = ws2.forgetOff) :
    (perform W cb ws1 a).map WS.forgetOff = (perform W cb ws2 a).map WS.forgetOff :=
  (MRel.sim_iff _ _ _).mp (perform_resp W hcb a ws1 ws2 h)

/-- … every list of actions -/
theorem actions_offset_irrelevant (hcb : CbResp cb) (acts : List Action) (ws1 ws2 : WS)
    (h : ws1.forgetOff = ws2.forgetOff) :
    (acts.foldlM (perform W cb) ws1).map WS.forgetOff = (acts.foldlM (perform W cb) ws2).map WS.forgetOff :=
  (MRel.sim_iff _ _ _).mp (actions_resp W hcb acts ws1 ws2 h)

/-- … `Parser::process` on arbitrary bytes -/
theorem process_offset_irrelevant (hcb : CbResp cb) (p1 p2 : Parser) (h : p1.forgetOff = p2.forgetOff)
    (bytes : List Nat) :
    (p1.process W cb bytes).map Parser.forgetOff = (p2.process W cb bytes).map Parser.forgetOff :=
  (MRel.sim_iff _ _ _).mp (process_rel W hcb h bytes)

/-- … `Screen::set_size` -/
theorem setSize_offset_irrelevant (s1 s2 : Screen) (h : s1.forgetOff = s2.forgetOff) (r c : Nat) :
    (s1.setSize r c).map Screen.forgetOff = (s2.setSize r c).map Screen.forgetOff :=
  (MRel.sim_iff _ _ _).mp (sSetSize_rel h r c)

/-- `Screen::set_scrollback` never fails and changes nothing but an offset -/
theorem setScrollback_forgetOff (s : Screen) (k : Nat) :
    ∃ s', s.setScrollback k = .ok s' ∧ s'.forgetOff = s.forgetOff := by
  simp only [Screen.setScrollback, Screen.modifyGrid]
  by_cases ha : s.altScreen = true
  · simp only [ha, ↓reduceIte, pure_bind', pure_eq_ok]
    exact ⟨_, rfl, by simp [Screen.forgetOff, Grid.forgetOff, Grid.setScrollback, ha]⟩
  · simp only [ha, ↓reduceIte, pure_bind', pure_eq_ok]
    exact ⟨_, rfl, by simp [Screen.forgetOff, Grid.forgetOff, Grid.setScrollback, ha]⟩

/-! ### the public API: arbitrary interleavings of `process`, `set_size`, `set_scrollback` -/

open C13 in
theorem applyOp_rel (hcb : CbResp cb) {p1 p2 : Parser} (h : ParEq p1 p2) (op : Op) :
    MRel ParEq (applyOp W cb p1 op) (applyOp W cb p2 op) := by
  obtain ⟨hv, hw⟩ := h.elim
  obtain ⟨hs, he⟩ := hw.elim
  cases op with
  | process bytes => exact process_rel W hcb h bytes
  | setSize r c =>
    simp only [applyOp]
    refine MRel.bind (sSetSize_rel hs r c) ?_
    intro a b hab
    cases p1; cases p2
    simp only at hv he
    subst hv
    rw [he]
    exact MRel.pure (ParEq.intro (WEq.intro hab _) _)
  | setScrollback k =>
    simp only [applyOp]
    refine MRel.bind (sSetScrollback_rel hs k k) ?_
    intro a b hab
    cases p1; cases p2
    simp only at hv he
    subst hv
    rw [he]
    exact MRel.pure (ParEq.intro (WEq.intro hab _) _)

open C13 in
/-- a `set_scrollback` call never fails and leaves the parser unchanged up to the offsets -/
theorem applyOp_setScrollback (p : Parser) (k : Nat) :
    ∃ p', applyOp W cb p (.setScrollback k) = .ok p' ∧ ParEq p' p := by
  obtain ⟨s', e, hs'⟩ := setScrollback_forgetOff p.ws.screen k
  refine ⟨{ p with ws := { p.ws with screen := s' } }, by simp only [applyOp, e, ok_bind, pure_eq_ok], ?_⟩
  show Parser.forgetOff _ = Parser.forgetOff _
  simp only [Parser.forgetOff, WS.forgetOff, hs']

open C13 in
/-- the operations other than `set_scrollback` -/
def keepOp : Op → Bool
  | .setScrollback _ => false
  | _ => true

open C13 in
/-- erasing every `set_scrollback` call from a history of API calls changes the outcome only in
the offsets -/
theorem ops_erase_rel (hcb : CbResp cb) (ops : List Op) :
    ∀ p1 p2, ParEq p1 p2 →
      MRel ParEq (ops.foldlM (applyOp W cb) p1) ((ops.filter keepOp).foldlM (applyOp W cb) p2) := by
  induction ops with
  | nil => intro p1 p2 h; exact MRel.pure h
  | cons op rest ih =>
    intro p1 p2 h
    cases op with
    | setScrollback k =>
      obtain ⟨p', e, hp'⟩ := applyOp_setScrollback W (cb := cb) p1 k
      simp only [List.foldlM, e, ok_bind, keepOp, List.filter_cons_of_neg, Bool.false_eq_true,
        not_false_eq_true]
      exact ih p' p2 (Eq.trans hp' h)
    | process bytes =>
      simp only [List.foldlM, keepOp, List.filter_cons_of_pos]
      exact MRel.bind (applyOp_rel W hcb h _) (fun a b hab => ih a b hab)
    | setSize r c =>
      simp only [List.foldlM, keepOp, List.filter_cons_of_pos]
      exact MRel.bind (applyOp_rel W hcb h _) (fun a b hab => ih a b hab)

open C13 in
/-- **C12, "the offset is purely a view"**: take two parsers equal up to the offsets (e.g. the
same parser) and run two histories of `process` / `set_size` / `set_scrollback` calls that differ
only in their `set_scrollback` calls (inserted, removed, or with other arguments, anywhere).
Then either both runs panic at the same site or both succeed, and the two final parsers are
equal up to the offsets: same live rows, cursor, pen, modes, histories, same callback events, same
vte state. -/
theorem ops_offset_irrelevant (hcb : CbResp cb) (ops1 ops2 : List Op)
    (hops : ops1.filter keepOp = ops2.filter keepOp) (p1 p2 : Parser)
    (h : p1.forgetOff = p2.forgetOff) :
    (ops1.foldlM (applyOp W cb) p1).map Parser.forgetOff
      = (ops2.foldlM (applyOp W cb) p2).map Parser.forgetOff := by
  have e1 := (MRel.sim_iff _ _ _).mp (ops_erase_rel W hcb ops1 p1 p2 h)
  have e2 := (MRel.sim_iff _ _ _).mp (ops_erase_rel W hcb ops2 p2 p2 rfl)
  rw [e1, e2, hops]

end machine

/-! ### what "equal up to the offsets" gives the user -/

/-- screens equal up to the offsets agree on everything but the two offsets -/
theorem SEq.fields {s1 s2 : Screen} (h : s1.forgetOff = s2.forgetOff) :
    s1.grid = { s2.grid with scrollbackOffset := s1.grid.scrollbackOffset } ∧
    s1.altGrid = { s2.altGrid with scrollbackOffset := s1.altGrid.scrollbackOffset } ∧
    s1.attrs = s2.attrs ∧ s1.savedAttrs = s2.savedAttrs ∧ s1.appKeypad = s2.appKeypad ∧
    s1.appCursor = s2.appCursor ∧ s1.hideCursor = s2.hideCursor ∧ s1.altScreen = s2.altScreen ∧
    s1.bracketedPaste = s2.bracketedPaste ∧ s1.mouseMode = s2.mouseMode ∧ s1.mouseEnc = s2.mouseEnc := by
  obtain ⟨k, k', rfl⟩ := SEq.elim h
  exact ⟨rfl, rfl, rfl, rfl, rfl, rfl, rfl, rfl, rfl, rfl, rfl⟩

/-- … in particular on the live screen: rows, cursor, saved cursor, scroll region, origin mode,
size, and on the recorded history -/
theorem SEq.live {s1 s2 : Screen} (h : s1.forgetOff = s2.forgetOff) :
    s1.cur.rows = s2.cur.rows ∧ s1.cur.pos = s2.cur.pos ∧ s1.cur.savedPos = s2.cur.savedPos ∧
    s1.cur.size = s2.cur.size ∧ s1.cur.scrollTop = s2.cur.scrollTop ∧
    s1.cur.scrollBottom = s2.cur.scrollBottom ∧ s1.cur.originMode = s2.cur.originMode ∧
    s1.cur.scrollback = s2.cur.scrollback ∧ s1.cur.scrollbackLen = s2.cur.scrollbackLen := by
  obtain ⟨k, hk⟩ := GEq.elim (SEq.cur h)
  rw [hk]
  exact ⟨rfl, rfl, rfl, rfl, rfl, rfl, rfl, rfl, rfl⟩

/-- … so once both views are set to the same offset the screens show the same thing: the active
grids are equal, hence so is the output of every accessor and emitter (they read `cur`, the pen
and the modes only) -/
theorem SEq.same_view {s1 s2 s1' s2' : Screen} (h : s1.forgetOff = s2.forgetOff) (k : Nat)
    (h1 : s1.setScrollback k = .ok s1') (h2 : s2.setScrollback k = .ok s2') :
    s1'.cur = s2'.cur ∧ s1'.attrs = s2'.attrs ∧ s1'.hideCursor = s2'.hideCursor ∧
      s1'.forgetOff = s2'.forgetOff := by
  obtain ⟨k1, k2, rfl⟩ := SEq.elim h
  simp only [Screen.setScrollback, Screen.modifyGrid] at h1 h2
  by_cases ha : s2.altScreen = true
  · simp only [ha, Bool.false_eq_true, ↓reduceIte, pure_bind', pure_eq_ok, ok_bind, Except.ok.injEq] at h1 h2
    subst h1 h2
    simp [Screen.cur, ha, Grid.setScrollback, Screen.forgetOff, Grid.forgetOff]
  · simp only [ha, Bool.false_eq_true, ↓reduceIte, pure_bind', pure_eq_ok, ok_bind, Except.ok.injEq] at h1 h2
    subst h1 h2
    simp [Screen.cur, ha, Grid.setScrollback, Screen.forgetOff, Grid.forgetOff]
/-! ## 5. n-step closed form of recording -/

/-- the last `n` elements -/
def lastN {α} (n : Nat) (l : List α) : List α := l.drop (l.length - n)

theorem lastN_length {α} (n : Nat) (l : List α) : (lastN n l).length = min n l.length := by
  simp only [lastN, List.length_drop]; omega

theorem lastN_of_le {α} (n : Nat) (l : List α) (h : l.length ≤ n) : lastN n l = l := by
  have : l.length - n = 0 := by omega
  simp [lastN, this]

theorem lastN_lastN_append {α} (n : Nat) (a b : List α) :
    lastN n (lastN n a ++ b) = lastN n (a ++ b) := by
  by_cases h : a.length ≤ n
  · rw [lastN_of_le n a h]
  · have h1 : (lastN n a).length = n := by rw [lastN_length]; omega
    unfold lastN at h1 ⊢
    simp only [List.length_append, h1]
    have e1 : n + b.length - n = b.length := by omega
    have e2 : a.length + b.length - n = (a.length - n) + b.length := by omega
    rw [e1, e2, ← List.drop_drop, List.drop_append_of_le_length (l₁ := a) (l₂ := b) (i := a.length - n) (by omega)]

/-- the grid after one recorded line -/
def recordStep (g : Grid) (top : Row) (rest : List Row) : Grid :=
  { g with rows := rest ++ [g.newRow],
           scrollback := lastN g.scrollbackLen (g.scrollback ++ [top]),
           scrollbackOffset :=
             if g.scrollbackOffset > 0 then
               min (lastN g.scrollbackLen (g.scrollback ++ [top])).length (g.scrollbackOffset + 1)
             else 0 }

/-- one recording step, as an equation (so: it cannot fail) -/
theorem scrollUpStep_records (g : Grid) (top : Row) (rest : List Row) (hN : 0 < g.scrollbackLen)
    (ht : g.scrollTop = 0) (hb : g.scrollBottom = g.size.rows - 1)
    (hrows : g.rows = top :: rest) (hlen : g.rows.length = g.size.rows) :
    scrollUpStep g = .ok (recordStep g top rest) := by
  have hsz : g.size.rows = rest.length + 1 := by simp [hrows] at hlen; omega
  have hr : 1 ≤ g.size.rows := by omega
  have hb' : g.scrollBottom + 1 = rest.length + 1 := by omega
  have hb2 : g.scrollBottom = rest.length := by omega
  have e1 : List.take (rest.length + 1) (top :: rest) = top :: rest := by simp
  have e2 : List.drop (rest.length + 1) (top :: rest) = [] := by simp
  have h1 : 1 ≤ rest.length + 1 := by omega
  have hoff : ¬ g.scrollbackOffset > 0 → g.scrollbackOffset = 0 := by omega
  simp only [scrollUpStep, insertM, hrows, hb', List.length_cons, Nat.le_refl, ↓reduceIte,
    pure_bind', ok_bind, removeM, ht, Grid.scrollRegionActive, subM, hr, hN, pure_eq_ok,
    e1, e2, List.cons_append, List.getElem?_cons_zero, List.eraseIdx_cons_zero,
    hb2, hsz, Nat.add_sub_cancel, bne_self_eq_false, Bool.or_self, Bool.not_false, h1,
    recordStep, lastN, Except.ok.injEq, Grid.mk.injEq, List.nil_append, true_and, and_true]
  split
  · rfl
  · exact hoff ‹_›

/-- the grid after `n` recorded lines -/
def recordN (g : Grid) (n : Nat) : Grid :=
  { g with rows := g.rows.drop n ++ List.replicate n g.newRow,
           scrollback := lastN g.scrollbackLen (g.scrollback ++ g.rows.take n),
           scrollbackOffset :=
             if g.scrollbackOffset > 0 then
               min (min g.scrollbackLen (g.scrollback.length + n)) (g.scrollbackOffset + n)
             else 0 }

theorem iterate_records : ∀ (n : Nat) (g : Grid), 0 < g.scrollbackLen → g.scrollTop = 0 →
    g.scrollBottom = g.size.rows - 1 → g.rows.length = g.size.rows → n ≤ g.size.rows →
    g.scrollback.length ≤ g.scrollbackLen → g.scrollbackOffset ≤ g.scrollback.length →
    iterateM n scrollUpStep g = .ok (recordN g n) := by
  intro n
  induction n with
  | zero =>
    intro g hN ht hb hlen hn hsb hoff
    simp only [iterateM, pure_eq_ok, Except.ok.injEq, recordN, List.drop_zero, List.replicate_zero,
      List.append_nil, List.take_zero, Nat.add_zero]
    rw [lastN_of_le _ _ hsb]
    have : (if g.scrollbackOffset > 0 then min (min g.scrollbackLen g.scrollback.length) g.scrollbackOffset
        else 0) = g.scrollbackOffset := by split <;> omega
    rw [this]
  | succ n ih =>
    intro g hN ht hb hlen hn hsb hoff
    cases hrows : g.rows with
    | nil => rw [hrows] at hlen; simp at hlen; omega
    | cons top rest =>
      have hrl : rest.length + 1 = g.size.rows := by rw [hrows] at hlen; simpa using hlen
      simp only [iterateM, scrollUpStep_records g top rest hN ht hb hrows hlen, ok_bind]
      have hl1 : (lastN g.scrollbackLen (g.scrollback ++ [top])).length
          = min g.scrollbackLen (g.scrollback.length + 1) := by
        rw [lastN_length]; simp
      rw [ih (recordStep g top rest) hN ht hb (by simp [recordStep]; omega) (by simp [recordStep]; omega)
        (by simp only [recordStep, lastN_length]; omega)
        (by simp only [recordStep, hl1]; split <;> omega)]
      simp only [recordN, recordStep, Grid.newRow, hrows, Except.ok.injEq, Grid.mk.injEq, true_and, hl1]
      refine ⟨?_, ?_, ?_⟩
      · rw [List.drop_append_of_le_length (by omega), List.drop_succ_cons, List.replicate_succ]
        simp
      · rw [lastN_lastN_append, List.take_append_of_le_length (by omega), List.take_succ_cons]
        simp
      · split <;> split <;> omega

/-- **C12, n-step closed form of recording**: on a grid with a full-screen region and capacity
`N > 0`, `scroll_up(n)` for `n ≤ rows` cannot fail, appends the top `n` live lines, unmodified and
in order, to the history, which keeps the `N` most recent lines; the live rows move up by `n`
with `n` blank lines at the bottom; a non-zero offset follows (`+ n`, capped by the history
length), so the same lines stay in view; nothing else changes -/
theorem scrollUp_records (g : Grid) (n : Nat) (hN : 0 < g.scrollbackLen) (ht : g.scrollTop = 0)
    (hb : g.scrollBottom = g.size.rows - 1) (hlen : g.rows.length = g.size.rows)
    (hn : n ≤ g.size.rows) (hsb : g.scrollback.length ≤ g.scrollbackLen)
    (hoff : g.scrollbackOffset ≤ g.scrollback.length) :
    g.scrollUp n = .ok (recordN g n) := by
  rw [scrollUp_eq_iterate]
  simp only [ht, subM, Nat.zero_le, ↓reduceIte, pure_bind', Nat.sub_zero, Nat.min_eq_left hn]
  exact iterate_records n g hN ht hb hlen hn hsb hoff

/-- the same without any assumption on the offset (through offset irrelevance): the history and
the live rows after `scroll_up(n)` -/
theorem scrollUp_records_any_offset (g : Grid) (n : Nat) (hN : 0 < g.scrollbackLen)
    (ht : g.scrollTop = 0) (hb : g.scrollBottom = g.size.rows - 1)
    (hlen : g.rows.length = g.size.rows) (hn : n ≤ g.size.rows)
    (hsb : g.scrollback.length ≤ g.scrollbackLen) :
    ∃ g', g.scrollUp n = .ok g' ∧ g'.forgetOff = (recordN g n).forgetOff ∧
      g'.scrollback = lastN g.scrollbackLen (g.scrollback ++ g.rows.take n) ∧
      g'.rows = g.rows.drop n ++ List.replicate n g.newRow := by
  have h0 := scrollUp_records g.forgetOff n hN ht hb hlen hn hsb (Nat.zero_le _)
  have hr := scrollUp_rel (g1 := g) (g2 := g.forgetOff) rfl n
  rw [h0] at hr
  cases hg : g.scrollUp n with
  | error e => rw [hg] at hr; exact hr.elim
  | ok g' =>
    rw [hg] at hr
    have hr' : g'.forgetOff = (recordN g n).forgetOff := hr
    exact ⟨g', rfl, hr', congrArg Grid.scrollback hr', congrArg Grid.rows hr'⟩

/-! ## 6. history frame -/

/-- a property of the result of a run, if there is one -/
def MPred {α} (P : α → Prop) : M α → Prop
  | .ok a => P a
  | .error _ => True

theorem MPred.pure {α} {P : α → Prop} {a : α} (h : P a) : MPred P (pure a : M α) := h
theorem MPred.ok {α} {P : α → Prop} {a : α} (h : P a) : MPred P (.ok a : M α) := h

theorem MPred.bind {α β} {Q : α → Prop} {P : β → Prop} {m : M α} {f : α → M β}
    (h : MPred Q m) (hf : ∀ a, Q a → MPred P (f a)) : MPred P (m >>= f) := by
  cases m with
  | error e => exact True.intro
  | ok a => exact hf a h

theorem MPred.bind_any {α β} {P : β → Prop} (m : M α) {f : α → M β}
    (hf : ∀ a, MPred P (f a)) : MPred P (m >>= f) := by
  cases m with
  | error e => exact True.intro
  | ok a => exact hf a

theorem MPred.ite {α} {P : α → Prop} {c : Prop} [Decidable c] {a b : M α}
    (h1 : c → MPred P a) (h2 : ¬c → MPred P b) : MPred P (if c then a else b) := by
  by_cases h : c
  · simp only [h, ↓reduceIte]; exact h1 h
  · simp only [h, ↓reduceIte]; exact h2 h

theorem MPred.mono {α} {P Q : α → Prop} (hPQ : ∀ a, P a → Q a) {m : M α} (h : MPred P m) : MPred Q m := by
  cases m with
  | error e => exact True.intro
  | ok a => exact hPQ a h

theorem MPred.iff {α} {P : α → Prop} {m : M α} : MPred P m ↔ ∀ a, m = .ok a → P a := by
  cases m with
  | error e => simp [MPred]
  | ok a => simp [MPred]

theorem iterateM_pred {α} {P : α → Prop} {f : α → M α} (hf : ∀ a, P a → MPred P (f a)) :
    ∀ (n : Nat) (a : α), P a → MPred P (iterateM n f a) := by
  intro n
  induction n with
  | zero => intro a h; exact h
  | succ n ih => intro a h; simp only [iterateM]; exact MPred.bind (hf a h) (fun a' h' => ih a' h')

theorem foldlM_pred {α ι} {P : α → Prop} {f : α → ι → M α} (hf : ∀ i a, P a → MPred P (f a i)) :
    ∀ (l : List ι) (a : α), P a → MPred P (l.foldlM f a) := by
  intro l
  induction l with
  | nil => intro a h; exact h
  | cons i l ih => intro a h; simp only [List.foldlM]; exact MPred.bind (hf i a h) (fun a' h' => ih a' h')

/-- the recorded history of a grid: contents and capacity -/
def _root_.Vt.Grid.hist (g : Grid) : List Row × Nat := (g.scrollback, g.scrollbackLen)

/-- "the history is `h`" -/
abbrev GK (h : List Row × Nat) (g : Grid) : Prop := g.hist = h

syntax "mpred" : tactic
set_option hygiene false in
macro_rules
  | `(tactic| mpred) => `(tactic| repeat' (first
      | exact MPred.pure hg
      | exact MPred.ok hg
      | (apply MPred.bind_any; intro _)
      | (apply MPred.ite <;> intro _)
      | (apply MPred.pure; (split <;> exact hg))
      | exact modifyCurrentRow_keep hg _
      | exact modifyCellM_keep hg _ _ _
      | exact appendToPrev_keep hg _ _ _
      | split))

section keep
variable {h : List Row × Nat} {g : Grid}

theorem colClamp_keep (hg : GK h g) : MPred (GK h) g.colClamp := by
  simp only [Grid.colClamp]; mpred
theorem rowClamp_keep (hg : GK h g) : MPred (GK h) g.rowClamp := by
  simp only [Grid.rowClamp]; mpred
theorem rowClampTop_keep (hg : GK h g) (l : Bool) : GK h (g.rowClampTop l).1 := by
  simp only [Grid.rowClampTop]; split <;> exact hg
theorem rowClampBottom_keep (hg : GK h g) (l : Bool) : MPred (fun p => GK h p.1) (g.rowClampBottom l) := by
  simp only [Grid.rowClampBottom]; mpred
theorem setPos_keep (hg : GK h g) (pos : Pos) : MPred (GK h) (g.setPos pos) := by
  simp only [Grid.setPos]
  refine MPred.bind (rowClampBottom_keep (rowClampTop_keep (by exact hg) _) _) ?_
  intro a ha
  exact colClamp_keep ha
theorem insertLines_keep (hg : GK h g) (n : Nat) : MPred (GK h) (g.insertLines n) := by
  simp only [Grid.insertLines]
  refine iterateM_pred ?_ _ _ hg
  intro a hg
  mpred
theorem deleteLines_keep (hg : GK h g) (n : Nat) : MPred (GK h) (g.deleteLines n) := by
  simp only [Grid.deleteLines]
  apply MPred.bind_any; intro d
  refine iterateM_pred ?_ _ _ hg
  intro a hg
  mpred
theorem scrollDown_keep (hg : GK h g) (n : Nat) : MPred (GK h) (g.scrollDown n) := by
  simp only [Grid.scrollDown]
  refine iterateM_pred ?_ _ _ hg
  intro a hg
  mpred
theorem allocateRows_keep (hg : GK h g) : GK h g.allocateRows := by
  simp only [Grid.allocateRows]; split <;> exact hg
theorem clear_keep (hg : GK h g) : MPred (GK h) g.clear := by
  simp only [Grid.clear]; mpred
theorem saveCursor_keep (hg : GK h g) : GK h g.saveCursor := hg
theorem restoreCursor_keep (hg : GK h g) : GK h g.restoreCursor := hg
theorem setScrollback_keep (hg : GK h g) (r : Nat) : GK h (g.setScrollback r) := hg
theorem eraseAll_keep (hg : GK h g) (a : Attrs) : GK h (g.eraseAll a) := hg
theorem modifyCurrentRow_keep (hg : GK h g) (f : Row → M Row) : MPred (GK h) (g.modifyCurrentRow f) := by
  simp only [Grid.modifyCurrentRow]; mpred
theorem modifyCellM_keep (hg : GK h g) (site : Nat) (pos : Pos) (f : Cell → M Cell) :
    MPred (GK h) (g.modifyCellM site pos f) := by
  simp only [Grid.modifyCellM]; mpred
theorem eraseRowForward_keep (hg : GK h g) (a : Attrs) : MPred (GK h) (g.eraseRowForward a) :=
  modifyCurrentRow_keep hg _
theorem eraseRowBackward_keep (hg : GK h g) (a : Attrs) : MPred (GK h) (g.eraseRowBackward a) := by
  simp only [Grid.eraseRowBackward]
  apply MPred.bind_any; intro c1
  exact modifyCurrentRow_keep hg _
theorem eraseAllForward_keep (hg : GK h g) (a : Attrs) : MPred (GK h) (g.eraseAllForward a) := by
  simp only [Grid.eraseAllForward]
  exact eraseRowForward_keep (by exact hg) _
theorem eraseAllBackward_keep (hg : GK h g) (a : Attrs) : MPred (GK h) (g.eraseAllBackward a) := by
  simp only [Grid.eraseAllBackward]
  exact eraseRowBackward_keep (by exact hg) _
theorem eraseRow_keep (hg : GK h g) (a : Attrs) : MPred (GK h) (g.eraseRow a) :=
  modifyCurrentRow_keep hg _
theorem insertCells_keep (hg : GK h g) (n : Nat) : MPred (GK h) (g.insertCells n) := by
  simp only [Grid.insertCells]
  mpred
theorem deleteCells_keep (hg : GK h g) (n : Nat) : MPred (GK h) (g.deleteCells n) :=
  modifyCurrentRow_keep hg _
theorem eraseCells_keep (hg : GK h g) (n : Nat) (a : Attrs) : MPred (GK h) (g.eraseCells n a) :=
  modifyCurrentRow_keep hg _
theorem setScrollRegion_keep (hg : GK h g) (t b : Nat) : MPred (GK h) (g.setScrollRegion t b) := by
  simp only [Grid.setScrollRegion]
  apply MPred.bind_any; intro b'
  apply MPred.pure
  split <;> exact hg
theorem setOriginMode_keep (hg : GK h g) (m : Bool) : MPred (GK h) (g.setOriginMode m) := by
  simp only [Grid.setOriginMode]
  exact setPos_keep (by exact hg) _
theorem rowIncClamp_keep (hg : GK h g) (n : Nat) : MPred (GK h) (g.rowIncClamp n) := by
  simp only [Grid.rowIncClamp]
  refine MPred.bind (rowClampBottom_keep (by exact hg) _) ?_
  intro a ha
  exact MPred.pure ha
theorem rowDecClamp_keep (hg : GK h g) (n : Nat) : GK h (g.rowDecClamp n) := by
  simp only [Grid.rowDecClamp]
  exact rowClampTop_keep (by exact hg) _
theorem rowDecScroll_keep (hg : GK h g) (n : Nat) : MPred (GK h) (g.rowDecScroll n) := by
  simp only [Grid.rowDecScroll]
  exact scrollDown_keep (rowClampTop_keep (by exact hg) _) _
theorem rowSet_keep (hg : GK h g) (i : Nat) : MPred (GK h) (g.rowSet i) := by
  simp only [Grid.rowSet]
  exact rowClamp_keep (by exact hg)
theorem colInc_keep (hg : GK h g) (n : Nat) : GK h (g.colInc n) := hg
theorem colDec_keep (hg : GK h g) (n : Nat) : GK h (g.colDec n) := hg
theorem colIncClamp_keep (hg : GK h g) (n : Nat) : MPred (GK h) (g.colIncClamp n) :=
  colClamp_keep (colInc_keep hg n)
theorem colTab_keep (hg : GK h g) : MPred (GK h) g.colTab := by
  simp only [Grid.colTab]
  exact colClamp_keep (by exact hg)
theorem colSet_keep (hg : GK h g) (i : Nat) : MPred (GK h) (g.colSet i) := by
  simp only [Grid.colSet]
  exact colClamp_keep (by exact hg)
theorem cnl_keep (hg : GK h g) (n : Nat) : MPred (GK h) (g.cnl n) :=
  MPred.bind (colSet_keep hg 0) (fun a ha => rowIncClamp_keep ha n)
theorem cpl_keep (hg : GK h g) (n : Nat) : MPred (GK h) (g.cpl n) :=
  MPred.bind (colSet_keep hg 0) (fun a ha => MPred.pure (rowDecClamp_keep ha n))
theorem appendToPrev_keep (hg : GK h g) (row col c : Nat) : MPred (GK h) (g.appendToPrev row col c) := by
  simp only [Grid.appendToPrev]
  apply MPred.bind_any; intro pc
  apply MPred.ite <;> intro _
  · apply MPred.bind_any; intro c2
    exact modifyCellM_keep hg _ _ _
  · exact modifyCellM_keep hg _ _ _
theorem textZero_keep (hg : GK h g) (c : Nat) : MPred (GK h) (g.textZero c) := by
  simp only [Grid.textZero]
  mpred
theorem textWide_keep (W : Nat → Option Nat) (hg : GK h g) (a : Attrs) (c w : Nat) :
    MPred (GK h) (g.textWide W a c w) := by
  simp only [Grid.textWide]
  refine MPred.bind (modifyCurrentRow_keep hg _) ?_
  intro a' ha
  apply MPred.pure
  split
  · exact colInc_keep (colInc_keep ha 1) 1
  · exact colInc_keep ha 1
theorem setSize_keep (hg : GK h g) (sz : Size) : MPred (GK h) (g.setSize sz) := by
  simp only [Grid.setSize]
  apply MPred.bind_any; intro oldB
  apply MPred.ite <;> intro _ <;> (apply MPred.bind_any; intro sb1) <;> apply MPred.ite <;> intro _ <;>
    (apply MPred.bind_any; intro sb2) <;>
    (refine MPred.bind (rowClampBottom_keep (rowClampTop_keep (by exact hg) _) _) ?_
     intro a ha
     refine MPred.bind (colClamp_keep ha) ?_
     intro a' hg
     mpred)

end keep
/-- `h'` extends `h`: the capacity is the same, and the contents are those of `h` with lines
appended at the back and lines dropped at the front (order preserved, nothing modified) -/
def HExt (h h' : List Row × Nat) : Prop :=
  h'.2 = h.2 ∧ (h.2 = 0 → h'.1 = h.1) ∧ ∃ rec k, h'.1 = (h.1 ++ rec).drop k

theorem HExt.refl (h : List Row × Nat) : HExt h h := ⟨rfl, fun _ => rfl, [], 0, by simp⟩

theorem HExt.of_eq {h h' : List Row × Nat} (e : h' = h) : HExt h h' := by subst e; exact HExt.refl _

theorem drop_min_length {α} (l : List α) (k : Nat) : l.drop k = l.drop (min k l.length) := by
  by_cases hk : k ≤ l.length
  · rw [Nat.min_eq_left hk]
  · rw [Nat.min_eq_right (by omega), List.drop_length, List.drop_eq_nil_of_le (by omega)]

theorem HExt.trans {h h' h'' : List Row × Nat} (h1 : HExt h h') (h2 : HExt h' h'') : HExt h h'' := by
  obtain ⟨e1, z1, r1, k1, hr1⟩ := h1
  obtain ⟨e2, z2, r2, k2, hr2⟩ := h2
  refine ⟨e2.trans e1, fun hz => (z2 (e1.trans hz)).trans (z1 hz), r1 ++ r2,
    min k1 (h.1 ++ r1).length + k2, ?_⟩
  rw [hr2, hr1, drop_min_length (h.1 ++ r1) k1, ← List.drop_drop, ← List.append_assoc,
    List.drop_append_of_le_length (l₁ := h.1 ++ r1) (Nat.min_le_right _ _)]

/-- "the history extends `h`" -/
abbrev GE (h : List Row × Nat) (g : Grid) : Prop := HExt h g.hist

theorem GE.of_keep {h0 : List Row × Nat} {g : Grid} (hge : GE h0 g) {α} {m : M α} {π : α → Grid}
    (hk : MPred (fun a => GK g.hist (π a)) m) : MPred (fun a => GE h0 (π a)) m :=
  MPred.mono (fun a (ha : (π a).hist = g.hist) => by show HExt h0 (π a).hist; rw [ha]; exact hge) hk

section ext
variable {h0 : List Row × Nat} {g : Grid}

/-- one step of `scroll_up` extends the history (by the removed line, or not at all) -/
theorem scrollUpStep_ext (hg : GE h0 g) : MPred (GE h0) (scrollUpStep g) := by
  simp only [scrollUpStep]
  apply MPred.bind_any; intro rows1
  apply MPred.bind_any; intro p
  apply MPred.ite <;> intro _
  · rename_i hpos
    apply MPred.bind_any; intro act
    apply MPred.ite <;> intro _
    · apply MPred.pure
      refine HExt.trans hg ⟨rfl, fun hz => ?_, [p.1], _, rfl⟩
      simp only [Grid.hist] at hz hpos
      omega
    · exact MPred.pure hg
  · exact MPred.pure hg

theorem scrollUp_ext (hg : GE h0 g) (n : Nat) : MPred (GE h0) (g.scrollUp n) := by
  rw [scrollUp_eq_iterate]
  apply MPred.bind_any; intro d
  exact iterateM_pred (fun a ha => scrollUpStep_ext ha) _ _ hg

theorem rowIncScroll_ext (hg : GE h0 g) (n : Nat) : MPred (fun p => GE h0 p.1) (g.rowIncScroll n) := by
  simp only [Grid.rowIncScroll]
  refine MPred.bind (GE.of_keep (g := g) hg (π := fun p => p.1) (rowClampBottom_keep (by exact rfl) _)) ?_
  intro a ha
  apply MPred.ite <;> intro _
  · refine MPred.bind (scrollUp_ext ha _) ?_
    intro a' ha'
    exact MPred.pure ha'
  · exact MPred.pure ha

theorem colWrap_ext (hg : GE h0 g) (w : Nat) (wr : Bool) : MPred (GE h0) (g.colWrap w wr) := by
  simp only [Grid.colWrap]
  apply MPred.bind_any; intro lim
  apply MPred.ite <;> intro _
  · refine MPred.bind (rowIncScroll_ext (by exact hg) 1) ?_
    intro a ha
    apply MPred.ite <;> intro _
    · exact MPred.pure ha
    · apply MPred.bind_any; intro pr
      apply MPred.bind_any; intro rows
      exact MPred.pure ha
  · exact MPred.pure hg

theorem text_ext (W : Nat → Option Nat) (hg : GE h0 g) (a : Attrs) (c : Nat) :
    MPred (GE h0) (g.text W a c) := by
  simp only [Grid.text]
  apply MPred.ite <;> intro _
  · exact MPred.pure hg
  · apply MPred.ite <;> intro _
    · exact MPred.pure hg
    · apply MPred.bind_any; intro wr
      refine MPred.bind (colWrap_ext hg _ _) ?_
      intro a' ha
      apply MPred.ite <;> intro _
      · exact GE.of_keep ha (π := fun x => x) (textZero_keep rfl _)
      · exact GE.of_keep ha (π := fun x => x) (textWide_keep W rfl _ _ _)

end ext
/-! ### screens and actions -/

/-- "the two histories are `hg` (primary) and `ha` (alternate)" -/
abbrev SK (hg ha : List Row × Nat) (s : Screen) : Prop := s.grid.hist = hg ∧ s.altGrid.hist = ha

section skeep
variable {hg ha : List Row × Nat} {s : Screen}

theorem modifyGrid_keep {f : Grid → M Grid} (hf : ∀ h g, GK h g → MPred (GK h) (f g)) (hs : SK hg ha s) :
    MPred (SK hg ha) (s.modifyGrid f) := by
  simp only [Screen.modifyGrid]
  apply MPred.ite <;> intro _
  · refine MPred.bind (hf _ _ hs.2) ?_
    intro a h'
    exact MPred.pure ⟨hs.1, h'⟩
  · refine MPred.bind (hf _ _ hs.1) ?_
    intro a h'
    exact MPred.pure ⟨h', hs.2⟩

theorem sSetSize_keep (hs : SK hg ha s) (r c : Nat) : MPred (SK hg ha) (s.setSize r c) := by
  simp only [Screen.setSize]
  refine MPred.bind (setSize_keep hs.1 _) ?_
  intro a h1
  refine MPred.bind (setSize_keep hs.2 _) ?_
  intro b h2
  exact MPred.pure ⟨h1, h2⟩

theorem sSetScrollback_keep (hs : SK hg ha s) (r : Nat) : MPred (SK hg ha) (s.setScrollback r) :=
  modifyGrid_keep (fun h g hk => MPred.pure (setScrollback_keep hk r)) hs

theorem enterAlternateGrid_keep (hs : SK hg ha s) : MPred (SK hg ha) s.enterAlternateGrid := by
  simp only [Screen.enterAlternateGrid]
  refine MPred.bind (modifyGrid_keep (fun h g hk => MPred.pure (setScrollback_keep hk 0)) hs) ?_
  intro a h'
  exact MPred.pure ⟨h'.1, allocateRows_keep h'.2⟩

theorem exitAlternateGrid_keep (hs : SK hg ha s) : SK hg ha s.exitAlternateGrid := hs

theorem sSaveCursor_keep (hs : SK hg ha s) : MPred (SK hg ha) s.saveCursor := by
  simp only [Screen.saveCursor]
  refine MPred.bind (modifyGrid_keep (fun h g hk => MPred.pure (saveCursor_keep hk)) hs) ?_
  intro a h'
  exact MPred.pure h'

theorem sRestoreCursor_keep (hs : SK hg ha s) : MPred (SK hg ha) s.restoreCursor := by
  simp only [Screen.restoreCursor]
  refine MPred.bind (modifyGrid_keep (fun h g hk => MPred.pure (restoreCursor_keep hk)) hs) ?_
  intro a h'
  exact MPred.pure h'

/-- `Option Screen` results -/
abbrev OSK (hg ha : List Row × Nat) (o : Option Screen) : Prop := ∀ s', o = some s' → SK hg ha s'

theorem some_keep {m : M Screen} (h : MPred (SK hg ha) m) :
    MPred (OSK hg ha) (do let s ← m; pure (some s)) :=
  MPred.bind h (fun a h' => MPred.pure (fun s' e => by cases e; exact h'))

theorem decsetOne_keep (hs : SK hg ha s) (p : List Nat) : MPred (OSK hg ha) (s.decsetOne p) := by
  unfold Screen.decsetOne
  split
  all_goals first
    | (apply MPred.pure; intro s' e
       cases e <;> first
         | exact hs
         | (simp only [Screen.clearMouseMode, Screen.clearMouseEnc]; split <;> exact hs))
    | skip
  · exact some_keep (modifyGrid_keep (fun h g hk => setOriginMode_keep hk _) hs)
  · exact some_keep (enterAlternateGrid_keep hs)
  · refine MPred.bind (sSaveCursor_keep hs) ?_
    intro a h1
    refine MPred.bind (clear_keep h1.2) ?_
    intro ag h2
    exact some_keep (enterAlternateGrid_keep (s := { a with altGrid := ag }) ⟨h1.1, h2⟩)

theorem decrstOne_keep (hs : SK hg ha s) (p : List Nat) : MPred (OSK hg ha) (s.decrstOne p) := by
  unfold Screen.decrstOne
  split
  all_goals first
    | (apply MPred.pure; intro s' e
       cases e <;> first
         | exact hs
         | (simp only [Screen.clearMouseMode, Screen.clearMouseEnc]; split <;> exact hs))
    | skip
  · exact some_keep (modifyGrid_keep (fun h g hk => setOriginMode_keep hk _) hs)

theorem edMode_keep (hs : SK hg ha s) (m : Nat) : MPred (OSK hg ha) (s.edMode m) := by
  unfold Screen.edMode
  split
  · exact some_keep (modifyGrid_keep (fun h g hk => eraseAllForward_keep hk _) hs)
  · exact some_keep (modifyGrid_keep (fun h g hk => eraseAllBackward_keep hk _) hs)
  · exact some_keep (modifyGrid_keep (fun h g hk => MPred.pure (eraseAll_keep hk _)) hs)
  · exact MPred.pure (fun s' e => nomatch e)

theorem elMode_keep (hs : SK hg ha s) (m : Nat) : MPred (OSK hg ha) (s.elMode m) := by
  unfold Screen.elMode
  split
  · exact some_keep (modifyGrid_keep (fun h g hk => eraseRowForward_keep hk _) hs)
  · exact some_keep (modifyGrid_keep (fun h g hk => eraseRowBackward_keep hk _) hs)
  · exact some_keep (modifyGrid_keep (fun h g hk => eraseRow_keep hk _) hs)
  · exact MPred.pure (fun s' e => nomatch e)

end skeep
/-- a callback policy that leaves both histories alone (the public `Screen` API has no way to
edit them; `set_size` and `set_scrollback` qualify) -/
def CbKeeps (cb : CbPolicy) : Prop := ∀ e s hg ha, SK hg ha s → MPred (SK hg ha) (cb e s)

theorem cbNone_keeps : CbKeeps cbNone := fun _ _ _ _ hs => MPred.pure hs

theorem cbResize_keeps : CbKeeps cbResize := by
  intro e s hg ha hs
  cases e with
  | resize r c =>
    simp only [cbResize]
    apply MPred.ite <;> intro _
    · exact sSetSize_keep hs r c
    · exact MPred.pure hs
  | _ => exact MPred.pure hs

/-- a step of the wrapped screen that leaves both histories alone -/
def WK (f : WS → M WS) : Prop :=
  ∀ hg ha ws, SK hg ha ws.screen → MPred (fun ws' => SK hg ha ws'.screen) (f ws)

section wkeep
variable {cb : CbPolicy}

theorem emit_keep (hcb : CbKeeps cb) (e : Event) : WK (emit cb e) := by
  intro hg ha ws hs
  simp only [emit]
  refine MPred.bind (hcb e _ hg ha hs) ?_
  intro a h'
  exact MPred.pure h'

theorem onScreen_keep {f : Screen → M Screen} (hf : ∀ hg ha s, SK hg ha s → MPred (SK hg ha) (f s)) :
    WK (fun ws => ws.onScreen f) := by
  intro hg ha ws hs
  simp only [WS.onScreen]
  refine MPred.bind (hf hg ha _ hs) ?_
  intro a h'
  exact MPred.pure h'

theorem onGrid_keep {f : Screen → Grid → M Grid} (hf : ∀ s h g, GK h g → MPred (GK h) (f s g)) :
    WK (fun ws => ws.onScreen (fun s => s.modifyGrid (f s))) :=
  onScreen_keep (fun hg ha s hs => modifyGrid_keep (hf s) hs)

theorem arm_keep {unh : WS → M WS} (hunh : WK unh) {arm : Screen → M (Option Screen)}
    (harm : ∀ hg ha s, SK hg ha s → MPred (OSK hg ha) (arm s)) :
    WK (fun ws => do
      match ← arm ws.screen with
      | some s => pure { ws with screen := s }
      | none => unh ws) := by
  intro hg ha ws hs
  simp only
  refine MPred.bind (harm hg ha _ hs) ?_
  intro o ho
  cases o with
  | none => exact hunh hg ha ws hs
  | some s' => exact MPred.pure (ho s' rfl)

theorem fold_keep {α} {step : WS → α → M WS} (hstep : ∀ x, WK (fun ws => step ws x)) (xs : List α) :
    WK (fun ws => xs.foldlM step ws) :=
  fun hg ha ws hs => foldlM_pred (P := fun ws => SK hg ha ws.screen) (fun x a h' => hstep x hg ha a h') xs ws hs

theorem sgrLoop_keep {unh : WS → M WS} (hunh : WK unh) (ps : List (List Nat)) : WK (sgrLoop unh ps) := by
  intro hg ha ws
  fun_induction sgrLoop unh ps ws <;> intro hs
  all_goals first
    | exact MPred.pure hs
    | (rename_i ih; exact ih hs)
    | exact hunh hg ha _ hs
    | (rename_i ih; exact MPred.bind (hunh hg ha _ hs) (fun a h' => ih a h'))

theorem sgr_keep {unh : WS → M WS} (hunh : WK unh) (ps : List (List Nat)) : WK (sgr unh ps) := by
  intro hg ha ws hs
  unfold sgr
  split
  · exact MPred.pure hs
  · exact sgrLoop_keep hunh ps hg ha ws hs

/-- the actions through which a line can be recorded: printing (wrap at the bottom margin),
LF / VT / FF, and SU (`CSI n S`) -/
def mayRecord : Action → Bool
  | .print _ => true
  | .execute b => b == 10 || b == 11 || b == 12
  | .csiDispatch _ ints _ c => ints == [] && c == 83
  | _ => false

/-- RIS (`ESC c`), which replaces both grids by new ones -/
def isRis : Action → Bool
  | .escDispatch ints _ b => ints == [] && b == 99
  | _ => false

theorem performExecute_keep (hcb : CbKeeps cb) (b : Nat) (hrec : mayRecord (.execute b) = false) :
    WK (fun ws => performExecute cb ws b) := by
  intro hg ha ws hs
  simp only [performExecute]
  split
  all_goals first
    | exact emit_keep hcb _ hg ha ws hs
    | exact MPred.pure hs
    | exact onGrid_keep (f := fun _ g => pure (g.colDec 1)) (fun s h g hk => MPred.pure (colDec_keep hk 1)) hg ha ws hs
    | exact onGrid_keep (f := fun _ g => g.colTab) (fun s h g hk => colTab_keep hk) hg ha ws hs
    | exact onGrid_keep (f := fun _ g => g.colSet 0) (fun s h g hk => colSet_keep hk 0) hg ha ws hs
    | (simp [mayRecord] at hrec)

theorem perform_keep (W : Nat → Option Nat) (hcb : CbKeeps cb) (a : Action)
    (hrec : mayRecord a = false) (hris : isRis a = false) : WK (fun ws => perform W cb ws a) := by
  have hunh : ∀ e, WK (emit cb e) := fun e => emit_keep hcb e
  cases a with
  | print c => simp [mayRecord] at hrec
  | execute b => exact performExecute_keep hcb b hrec
  | hook _ _ _ _ => exact fun hg ha ws hs => MPred.pure hs
  | put _ => exact fun hg ha ws hs => MPred.pure hs
  | unhook => exact fun hg ha ws hs => MPred.pure hs
  | oscDispatch params _ =>
    intro hg ha ws hs
    simp only [perform, performOsc]
    split
    · exact MPred.bind (hunh _ hg ha ws hs) (fun a h' => hunh _ hg ha a h')
    all_goals exact hunh _ hg ha ws hs
  | escDispatch ints ig b =>
    intro hg ha ws hs
    simp only [perform, performEsc]
    split
    · exact hunh _ hg ha ws hs
    · split
      · exact onScreen_keep (f := Screen.decsc) (fun hg ha s hs => sSaveCursor_keep hs) hg ha ws hs
      · exact onScreen_keep (f := Screen.decrc) (fun hg ha s hs => sRestoreCursor_keep hs) hg ha ws hs
      · exact MPred.pure hs
      · exact MPred.pure hs
      · exact onGrid_keep (f := fun _ g => g.rowDecScroll 1) (fun s h g hk => rowDecScroll_keep hk 1) hg ha ws hs
      · simp [isRis] at hris
      · exact hunh _ hg ha ws hs
      · exact hunh _ hg ha ws hs
  | csiDispatch params ints ig c =>
    intro hg ha ws hs
    simp only [perform, performCsi]
    split
    · split
      · exact onGrid_keep (f := fun _ g => g.insertCells (canon1 params 1))
          (fun s h g hk => insertCells_keep hk _) hg ha ws hs
      · exact onGrid_keep (f := fun _ g => pure (g.rowDecClamp (canon1 params 1)))
          (fun s h g hk => MPred.pure (rowDecClamp_keep hk _)) hg ha ws hs
      · exact onGrid_keep (f := fun _ g => g.rowIncClamp (canon1 params 1))
          (fun s h g hk => rowIncClamp_keep hk _) hg ha ws hs
      · exact onGrid_keep (f := fun _ g => g.colIncClamp (canon1 params 1))
          (fun s h g hk => colIncClamp_keep hk _) hg ha ws hs
      · exact onGrid_keep (f := fun _ g => pure (g.colDec (canon1 params 1)))
          (fun s h g hk => MPred.pure (colDec_keep hk _)) hg ha ws hs
      · exact onGrid_keep (f := fun _ g => g.cnl (canon1 params 1))
          (fun s h g hk => cnl_keep hk _) hg ha ws hs
      · exact onGrid_keep (f := fun _ g => g.cpl (canon1 params 1))
          (fun s h g hk => cpl_keep hk _) hg ha ws hs
      · refine onScreen_keep (f := fun s => s.cha (canon1 params 1)) ?_ hg ha ws hs
        intro hg ha s hs
        simp only [Screen.cha]
        apply MPred.bind_any; intro x
        exact modifyGrid_keep (fun h g hk => colSet_keep hk _) hs
      · refine onScreen_keep (f := fun s => s.cup (canon2 params 1 1).1 (canon2 params 1 1).2) ?_ hg ha ws hs
        intro hg ha s hs
        simp only [Screen.cup]
        apply MPred.bind_any; intro x
        apply MPred.bind_any; intro y
        exact modifyGrid_keep (fun h g hk => setPos_keep hk _) hs
      · exact arm_keep (hunh _) (arm := fun s => s.edMode (canon1 params 0))
          (fun hg ha s hs => edMode_keep hs _) hg ha ws hs
      · exact arm_keep (hunh _) (arm := fun s => s.elMode (canon1 params 0))
          (fun hg ha s hs => elMode_keep hs _) hg ha ws hs
      · exact onGrid_keep (f := fun _ g => g.insertLines (canon1 params 1))
          (fun s h g hk => insertLines_keep hk _) hg ha ws hs
      · exact onGrid_keep (f := fun _ g => g.deleteLines (canon1 params 1))
          (fun s h g hk => deleteLines_keep hk _) hg ha ws hs
      · exact onGrid_keep (f := fun _ g => g.deleteCells (canon1 params 1))
          (fun s h g hk => deleteCells_keep hk _) hg ha ws hs
      · simp [mayRecord] at hrec
      · exact onGrid_keep (f := fun _ g => g.scrollDown (canon1 params 1))
          (fun s h g hk => scrollDown_keep hk _) hg ha ws hs
      · exact onGrid_keep (f := fun s g => g.eraseCells (canon1 params 1) s.attrs)
          (fun s h g hk => eraseCells_keep hk _ _) hg ha ws hs
      · refine onScreen_keep (f := fun s => s.vpa (canon1 params 1)) ?_ hg ha ws hs
        intro hg ha s hs
        simp only [Screen.vpa]
        apply MPred.bind_any; intro x
        exact modifyGrid_keep (fun h g hk => rowSet_keep hk _) hs
      · exact sgr_keep (hunh _) params hg ha ws hs
      · refine onScreen_keep (f := fun s => s.decstbm (canon2 params 1 s.cur.size.rows).1
            (canon2 params 1 s.cur.size.rows).2) ?_ hg ha ws hs
        intro hg ha s hs
        simp only [Screen.decstbm]
        apply MPred.bind_any; intro x
        apply MPred.bind_any; intro y
        exact modifyGrid_keep (fun h g hk => setScrollRegion_keep hk _ _) hs
      · apply MPred.ite <;> intro _
        · exact hunh _ hg ha ws hs
        · exact hunh _ hg ha ws hs
      · exact hunh _ hg ha ws hs
    · split
      · exact arm_keep (hunh _) (arm := fun s => s.edMode (canon1 params 0))
          (fun hg ha s hs => edMode_keep hs _) hg ha ws hs
      · exact arm_keep (hunh _) (arm := fun s => s.elMode (canon1 params 0))
          (fun hg ha s hs => elMode_keep hs _) hg ha ws hs
      · exact fold_keep (fun p => arm_keep (hunh _) (arm := fun s => s.decsetOne p)
          (fun hg ha s hs => decsetOne_keep hs p)) params hg ha ws hs
      · exact fold_keep (fun p => arm_keep (hunh _) (arm := fun s => s.decrstOne p)
          (fun hg ha s hs => decrstOne_keep hs p)) params hg ha ws hs
      · exact hunh _ hg ha ws hs
    · exact hunh _ hg ha ws hs

end wkeep
/-- **history frame of one action**: the history of the grid that is not active when the action
starts is unchanged; the history of the active grid is extended (lines appended at the back,
lines dropped at the front, capacity unchanged, nothing at all when the capacity is 0) -/
def SFrame (s s' : Screen) : Prop :=
  if s.altScreen then s'.grid.hist = s.grid.hist ∧ HExt s.altGrid.hist s'.altGrid.hist
  else s'.altGrid.hist = s.altGrid.hist ∧ HExt s.grid.hist s'.grid.hist

theorem SFrame.of_keep {s s' : Screen} (h : SK s.grid.hist s.altGrid.hist s') : SFrame s s' := by
  unfold SFrame
  split
  · exact ⟨h.1, HExt.of_eq h.2⟩
  · exact ⟨h.2, HExt.of_eq h.1⟩

theorem modifyGrid_frame {f : Grid → M Grid} (hf : ∀ h0 g, GE h0 g → MPred (GE h0) (f g)) (s : Screen) :
    MPred (SFrame s) (s.modifyGrid f) := by
  simp only [Screen.modifyGrid]
  by_cases ha : s.altScreen = true
  · simp only [ha, ↓reduceIte]
    refine MPred.bind (hf _ _ (HExt.refl _)) ?_
    intro a h'
    apply MPred.pure
    rw [SFrame, if_pos ha]
    exact ⟨rfl, h'⟩
  · simp only [ha, ↓reduceIte]
    refine MPred.bind (hf _ _ (HExt.refl _)) ?_
    intro a h'
    apply MPred.pure
    rw [SFrame, if_neg ha]
    exact ⟨rfl, h'⟩

section frame
variable {cb : CbPolicy}

theorem onScreen_frame {f : Screen → M Screen} (hf : ∀ s, MPred (SFrame s) (f s)) (ws : WS) :
    MPred (fun ws' => SFrame ws.screen ws'.screen) (ws.onScreen f) := by
  simp only [WS.onScreen]
  refine MPred.bind (hf ws.screen) ?_
  intro a h'
  exact MPred.pure h'

/-- **C12, history frame, one action** (every action but RIS) -/
theorem perform_frame (W : Nat → Option Nat) (hcb : CbKeeps cb) (a : Action) (hris : isRis a = false)
    (ws : WS) : MPred (fun ws' => SFrame ws.screen ws'.screen) (perform W cb ws a) := by
  have hkeep : ∀ a', mayRecord a' = false → isRis a' = false →
      MPred (fun ws' => SFrame ws.screen ws'.screen) (perform W cb ws a') := fun a' h1 h2 =>
    MPred.mono (fun ws' h' => SFrame.of_keep h') (perform_keep W hcb a' h1 h2 _ _ ws ⟨rfl, rfl⟩)
  by_cases hrec : mayRecord a = false
  · exact hkeep a hrec hris
  · cases a with
    | print c =>
      simp only [perform, performPrint]
      apply MPred.ite <;> intro hc
      · refine hkeep (.execute c) ?_ rfl
        simp only [Bool.and_eq_true, decide_eq_true_eq] at hc
        have h1 : c ≠ 10 := by omega
        have h2 : c ≠ 11 := by omega
        have h3 : c ≠ 12 := by omega
        simp [mayRecord, h1, h2, h3]
      · apply MPred.ite <;> intro _
        · exact MPred.mono (fun ws' h' => SFrame.of_keep h') (emit_keep hcb _ _ _ ws ⟨rfl, rfl⟩)
        · exact onScreen_frame (f := fun s => s.text W c)
            (fun s => modifyGrid_frame (fun h0 g hg => text_ext W hg _ _) s) ws
    | execute b =>
      have hb : b = 10 ∨ b = 11 ∨ b = 12 := by
        simp only [mayRecord, Bool.or_eq_false_iff, beq_eq_false_iff_ne, not_and] at hrec
        omega
      have hlf : MPred (fun ws' => SFrame ws.screen ws'.screen) (ws.onScreen Screen.lf) :=
        onScreen_frame (f := Screen.lf) (fun s => modifyGrid_frame (fun h0 g hg =>
          MPred.bind (rowIncScroll_ext hg 1) (fun p hp => MPred.pure hp)) s) ws
      rcases hb with rfl | rfl | rfl <;> exact hlf
    | csiDispatch params ints ig c =>
      have hc : ints = [] ∧ c = 83 := by
        simp only [mayRecord, Bool.and_eq_false_iff, not_or, beq_eq_false_iff_ne, ne_eq,
          Decidable.not_not] at hrec
        exact hrec
      obtain ⟨rfl, rfl⟩ := hc
      simp only [perform, performCsi]
      exact onScreen_frame (f := fun s => s.su (canon1 params 1))
        (fun s => modifyGrid_frame (fun h0 g hg => scrollUp_ext hg _) s) ws
    | hook _ _ _ _ => exact absurd rfl hrec
    | put _ => exact absurd rfl hrec
    | unhook => exact absurd rfl hrec
    | oscDispatch _ _ => exact absurd rfl hrec
    | escDispatch _ _ _ => exact absurd rfl hrec

/-- the same, unfolded -/
theorem perform_frame_ok (W : Nat → Option Nat) (hcb : CbKeeps cb) (a : Action) (hris : isRis a = false)
    (ws ws' : WS) (h : perform W cb ws a = .ok ws') : SFrame ws.screen ws'.screen :=
  MPred.iff.mp (perform_frame W hcb a hris ws) ws' h

/-- **C12, history frame**: an action that is not printing, LF / VT / FF, SU or RIS changes no
history at all -/
theorem perform_keep_ok (W : Nat → Option Nat) (hcb : CbKeeps cb) (a : Action)
    (hrec : mayRecord a = false) (hris : isRis a = false) (ws ws' : WS)
    (h : perform W cb ws a = .ok ws') :
    ws'.screen.grid.hist = ws.screen.grid.hist ∧ ws'.screen.altGrid.hist = ws.screen.altGrid.hist :=
  MPred.iff.mp (perform_keep W hcb a hrec hris _ _ ws ⟨rfl, rfl⟩) ws' h

/-- RIS starts two empty histories, the primary one with the old capacity -/
theorem ris_hist (s : Screen) :
    MPred (fun s' => s'.grid.hist = ([], s.grid.scrollbackLen) ∧ s'.altGrid.hist = ([], 0)) s.ris := by
  have hnew : ∀ sz n, MPred (fun g => g.hist = ([], n)) (Grid.new sz n) := by
    intro sz n
    simp only [Grid.new]
    apply MPred.bind_any; intro b
    exact MPred.pure rfl
  simp only [Screen.ris, Screen.new]
  refine MPred.bind (hnew _ _) ?_
  intro g hg
  refine MPred.bind (hnew _ _) ?_
  intro ag hag
  exact MPred.pure ⟨allocateRows_keep hg, hag⟩

/-- both histories extend given ones -/
abbrev XInv (hg ha : List Row × Nat) (s : Screen) : Prop := HExt hg s.grid.hist ∧ HExt ha s.altGrid.hist

theorem SFrame.xinv {hg ha : List Row × Nat} {s s' : Screen} (hf : SFrame s s') (hx : XInv hg ha s) :
    XInv hg ha s' := by
  unfold SFrame at hf
  split at hf
  · exact ⟨HExt.trans hx.1 (HExt.of_eq hf.1), HExt.trans hx.2 hf.2⟩
  · exact ⟨HExt.trans hx.1 hf.2, HExt.trans hx.2 (HExt.of_eq hf.1)⟩

/-- **C12, history frame, any input without RIS**: both histories are only ever extended -
lines are appended at the back, in order and unmodified once recorded, and dropped at the
front; the capacities never change; a history of capacity 0 stays as it is -/
theorem actions_ext (W : Nat → Option Nat) (hcb : CbKeeps cb) {hg ha : List Row × Nat} :
    ∀ (acts : List Action), (∀ a ∈ acts, isRis a = false) → ∀ ws, XInv hg ha ws.screen →
      MPred (fun ws' => XInv hg ha ws'.screen) (acts.foldlM (perform W cb) ws) := by
  intro acts
  induction acts with
  | nil => intro _ ws hx; exact MPred.pure hx
  | cons a rest ih =>
    intro hr ws hx
    simp only [List.foldlM]
    refine MPred.bind (perform_frame W hcb a (hr a List.mem_cons_self) ws) ?_
    intro ws1 h1
    exact ih (fun x hx => hr x (List.mem_cons_of_mem _ hx)) ws1 (h1.xinv hx)

theorem process_ext (W : Nat → Option Nat) (hcb : CbKeeps cb) (p : Parser) (bytes : List Nat)
    (hr : ∀ a ∈ (p.vte.advance bytes).2, isRis a = false) (p' : Parser)
    (h : p.process W cb bytes = .ok p') :
    HExt p.ws.screen.grid.hist p'.ws.screen.grid.hist ∧
      HExt p.ws.screen.altGrid.hist p'.ws.screen.altGrid.hist := by
  have := actions_ext W hcb (p.vte.advance bytes).2 hr p.ws ⟨HExt.refl _, HExt.refl _⟩
  simp only [Parser.process] at h
  obtain ⟨ws', e1, e2⟩ := bind_eq_ok.mp h
  simp only [pure_eq_ok, Except.ok.injEq] at e2
  subst e2
  exact MPred.iff.mp this ws' e1

end frame
/-! ### lines scrolled inside a scroll region are not recorded -/

/-- a scroll region is active (`Grid::scroll_region_active`) -/
def RegionActive (g : Grid) : Prop := g.scrollTop ≠ 0 ∨ g.scrollBottom ≠ g.size.rows - 1

/-- "the history is `h` and a scroll region is active" -/
abbrev GR (h : List Row × Nat) (g : Grid) : Prop := g.hist = h ∧ RegionActive g

syntax "mpredr" : tactic
set_option hygiene false in
macro_rules
  | `(tactic| mpredr) => `(tactic| repeat' (first
      | exact MPred.pure hg
      | exact MPred.ok hg
      | (apply MPred.bind_any; intro _)
      | (apply MPred.ite <;> intro _)
      | (apply MPred.pure; (split <;> exact hg))
      | exact modifyCurrentRow_reg hg _
      | exact modifyCellM_reg hg _ _ _
      | exact appendToPrev_reg hg _ _ _
      | split))

section region
variable {h : List Row × Nat} {g : Grid}

theorem rowClampBottom_reg (hg : GR h g) (l : Bool) : MPred (fun p => GR h p.1) (g.rowClampBottom l) := by
  simp only [Grid.rowClampBottom]; mpredr
theorem modifyCurrentRow_reg (hg : GR h g) (f : Row → M Row) : MPred (GR h) (g.modifyCurrentRow f) := by
  simp only [Grid.modifyCurrentRow]; mpredr
theorem modifyCellM_reg (hg : GR h g) (site : Nat) (pos : Pos) (f : Cell → M Cell) :
    MPred (GR h) (g.modifyCellM site pos f) := by
  simp only [Grid.modifyCellM]; mpredr
theorem appendToPrev_reg (hg : GR h g) (row col c : Nat) : MPred (GR h) (g.appendToPrev row col c) := by
  simp only [Grid.appendToPrev]; mpredr
theorem textZero_reg (hg : GR h g) (c : Nat) : MPred (GR h) (g.textZero c) := by
  simp only [Grid.textZero]; mpredr
theorem textWide_reg (W : Nat → Option Nat) (hg : GR h g) (a : Attrs) (c w : Nat) :
    MPred (GR h) (g.textWide W a c w) := by
  simp only [Grid.textWide]
  refine MPred.bind (modifyCurrentRow_reg hg _) ?_
  intro a' ha
  apply MPred.pure
  split
  · exact ha
  · exact ha

theorem scrollUpStep_reg (hg : GR h g) : MPred (GR h) (scrollUpStep g) := by
  have hact : (g.scrollTop != 0 || g.scrollBottom != g.size.rows - 1) = true := by
    rcases hg.2 with h1 | h1 <;> simp [h1]
  simp only [scrollUpStep, Grid.scrollRegionActive, subM]
  apply MPred.bind_any; intro rows1
  apply MPred.bind_any; intro p
  apply MPred.ite <;> intro _
  · by_cases h1 : 1 ≤ g.size.rows
    · simp only [h1, ↓reduceIte, pure_bind', hact, Bool.not_true, Bool.false_eq_true]
      exact MPred.pure hg
    · simp only [h1, ↓reduceIte, panic, error_bind]
      exact True.intro
  · exact MPred.pure hg

theorem scrollUp_reg (hg : GR h g) (n : Nat) : MPred (GR h) (g.scrollUp n) := by
  rw [scrollUp_eq_iterate]
  apply MPred.bind_any; intro d
  exact iterateM_pred (fun a ha => scrollUpStep_reg ha) _ _ hg

theorem rowIncScroll_reg (hg : GR h g) (n : Nat) : MPred (fun p => GR h p.1) (g.rowIncScroll n) := by
  simp only [Grid.rowIncScroll]
  refine MPred.bind (rowClampBottom_reg (by exact hg) _) ?_
  intro a ha
  apply MPred.ite <;> intro _
  · refine MPred.bind (scrollUp_reg ha _) ?_
    intro a' ha'
    exact MPred.pure ha'
  · exact MPred.pure ha

theorem colWrap_reg (hg : GR h g) (w : Nat) (wr : Bool) : MPred (GR h) (g.colWrap w wr) := by
  simp only [Grid.colWrap]
  apply MPred.bind_any; intro lim
  apply MPred.ite <;> intro _
  · refine MPred.bind (rowIncScroll_reg (by exact hg) 1) ?_
    intro a ha
    apply MPred.ite <;> intro _
    · exact MPred.pure ha
    · apply MPred.bind_any; intro pr
      apply MPred.bind_any; intro rows
      exact MPred.pure ha
  · exact MPred.pure hg

theorem text_reg (W : Nat → Option Nat) (hg : GR h g) (a : Attrs) (c : Nat) :
    MPred (GR h) (g.text W a c) := by
  simp only [Grid.text]
  apply MPred.ite <;> intro _
  · exact MPred.pure hg
  · apply MPred.ite <;> intro _
    · exact MPred.pure hg
    · apply MPred.bind_any; intro wr
      refine MPred.bind (colWrap_reg hg _ _) ?_
      intro a' ha
      apply MPred.ite <;> intro _
      · exact textZero_reg ha _
      · exact textWide_reg W ha _ _ _

end region

theorem modifyGrid_reg {f : Grid → M Grid} (hf : ∀ h g, GR h g → MPred (GR h) (f g)) (s : Screen)
    (hreg : RegionActive s.cur) : MPred (SK s.grid.hist s.altGrid.hist) (s.modifyGrid f) := by
  simp only [Screen.modifyGrid]
  simp only [Screen.cur] at hreg
  by_cases ha : s.altScreen = true
  · simp only [ha, ↓reduceIte] at hreg ⊢
    refine MPred.bind (hf _ _ ⟨rfl, hreg⟩) ?_
    intro a h'
    exact MPred.pure ⟨rfl, h'.1⟩
  · simp only [ha, Bool.false_eq_true, ↓reduceIte] at hreg ⊢
    refine MPred.bind (hf _ _ ⟨rfl, hreg⟩) ?_
    intro a h'
    exact MPred.pure ⟨h'.1, rfl⟩

/-- **C12, "lines scrolled inside a region are not recorded"**, for the whole machine: while a
scroll region is active on the active grid, no action but RIS changes any history -/
theorem perform_region_keep (W : Nat → Option Nat) {cb : CbPolicy} (hcb : CbKeeps cb) (a : Action)
    (hris : isRis a = false) (ws ws' : WS) (hreg : RegionActive ws.screen.cur)
    (h : perform W cb ws a = .ok ws') :
    ws'.screen.grid.hist = ws.screen.grid.hist ∧ ws'.screen.altGrid.hist = ws.screen.altGrid.hist := by
  by_cases hrec : mayRecord a = false
  · exact perform_keep_ok W hcb a hrec hris ws ws' h
  · have hon : ∀ f : Screen → M Screen, MPred (SK ws.screen.grid.hist ws.screen.altGrid.hist) (f ws.screen) →
        MPred (fun ws' => SK ws.screen.grid.hist ws.screen.altGrid.hist ws'.screen) (ws.onScreen f) := by
      intro f hf
      simp only [WS.onScreen]
      exact MPred.bind hf (fun a h' => MPred.pure h')
    refine (MPred.iff (P := fun ws' => SK ws.screen.grid.hist ws.screen.altGrid.hist ws'.screen)).mp ?_ ws' h
    cases a with
    | print c =>
      simp only [perform, performPrint]
      apply MPred.ite <;> intro hc
      · refine perform_keep W hcb (.execute c) ?_ rfl _ _ ws ⟨rfl, rfl⟩
        simp only [Bool.and_eq_true, decide_eq_true_eq] at hc
        have h1 : c ≠ 10 := by omega
        have h2 : c ≠ 11 := by omega
        have h3 : c ≠ 12 := by omega
        simp [mayRecord, h1, h2, h3]
      · apply MPred.ite <;> intro _
        · exact emit_keep hcb _ _ _ ws ⟨rfl, rfl⟩
        · exact hon (fun s => s.text W c) (modifyGrid_reg (fun h0 g hg => text_reg W hg _ _) _ hreg)
    | execute b =>
      have hb : b = 10 ∨ b = 11 ∨ b = 12 := by
        simp only [mayRecord, Bool.or_eq_false_iff, beq_eq_false_iff_ne, not_and] at hrec
        omega
      have hlf := hon Screen.lf (modifyGrid_reg (fun h0 g hg =>
          MPred.bind (rowIncScroll_reg hg 1) (fun p hp => MPred.pure hp)) _ hreg)
      rcases hb with rfl | rfl | rfl <;> exact hlf
    | csiDispatch params ints ig c =>
      have hc : ints = [] ∧ c = 83 := by
        simp only [mayRecord, Bool.and_eq_false_iff, not_or, beq_eq_false_iff_ne, ne_eq,
          Decidable.not_not] at hrec
        exact hrec
      obtain ⟨rfl, rfl⟩ := hc
      simp only [perform, performCsi]
      exact hon (fun s => s.su (canon1 params 1)) (modifyGrid_reg (fun h0 g hg => scrollUp_reg hg _) _ hreg)
    | hook _ _ _ _ => exact absurd rfl hrec
    | put _ => exact absurd rfl hrec
    | unhook => exact absurd rfl hrec
    | oscDispatch _ _ => exact absurd rfl hrec
    | escDispatch _ _ _ => exact absurd rfl hrec

/-! ## 7. the hypothesis on the callback policy is needed -/

/-- a callback that looks at the offset (`Screen::scrollback()` is a public accessor) -/
def cbPeek : CbPolicy := fun _ s =>
  if s.grid.scrollbackOffset = 0 then pure s else pure { s with hideCursor := true }

def cexGrid (off : Nat) : Grid :=
  { size := ⟨1, 1⟩, pos := ⟨0, 0⟩, savedPos := ⟨0, 0⟩, rows := [Row.new 1], scrollTop := 0,
    scrollBottom := 0, originMode := false, savedOriginMode := false, scrollback := [Row.new 1],
    scrollbackLen := 1, scrollbackOffset := off }

def cexWS (off : Nat) : WS :=
  { screen := { grid := cexGrid off, altGrid := cexGrid 0, attrs := Attrs.default,
                savedAttrs := Attrs.default, appKeypad := false, appCursor := false,
                hideCursor := false, altScreen := false, bracketedPaste := false,
                mouseMode := .none, mouseEnc := .default },
    events := [] }

/-- without `CbResp` the statement fails: BEL with a callback that inspects the offset -/
theorem cbResp_needed (W : Nat → Option Nat) :
    (cexWS 0).forgetOff = (cexWS 1).forgetOff ∧
    (perform W cbPeek (cexWS 0) (.execute 7)).map WS.forgetOff
      ≠ (perform W cbPeek (cexWS 1) (.execute 7)).map WS.forgetOff := by
  refine ⟨rfl, ?_⟩
  intro h
  have e : ∀ ws, perform W cbPeek ws (.execute 7) = performExecute cbPeek ws 7 := fun _ => rfl
  rw [e, e] at h
  have := congrArg (fun r => match r with | .ok w => w.screen.hideCursor | .error _ => false) h
  exact absurd this (by decide)

end Vt.C12

/-
#print axioms Vt.C12.perform_offset_irrelevant
#print axioms Vt.C12.actions_offset_irrelevant
#print axioms Vt.C12.process_offset_irrelevant
#print axioms Vt.C12.setSize_offset_irrelevant
#print axioms Vt.C12.ops_offset_irrelevant
#print axioms Vt.C12.cbNone_resp
#print axioms Vt.C12.cbResize_resp
#print axioms Vt.C12.SEq.same_view
#print axioms Vt.C12.scrollUp_records
#print axioms Vt.C12.scrollUp_records_any_offset
#print axioms Vt.C12.perform_frame
#print axioms Vt.C12.perform_keep_ok
#print axioms Vt.C12.perform_region_keep
#print axioms Vt.C12.actions_ext
#print axioms Vt.C12.process_ext
#print axioms Vt.C12.ris_hist
#print axioms Vt.C12.cbResize_keeps
#print axioms Vt.C12.cbResp_needed
-/
