/-
  Scratch.C15win — C15, the clause about column windows: drawing row `i` of `rows_formatted(start, width)`
  at `(i, start)` on a blank line reproduces the cells inside the window, when the window's edges do not
  split a wide character.

  The proof re-uses the full-width simulation of `Vt.Props.RowDraw` unchanged, on a MASKED source line
  (`mask src s` = blank default cells on `[0, s)`, then the source's cells from `s` on): for it the
  full-width invariant `Line (mask src s) es Ri` says "agrees with the source on `[s, es)`, blank
  elsewhere", the loop is entered at column `s` instead of `0` and left at `s + width` instead of `cols`.
-/
import Vt.Props.RowDraw
import Vt.Props.DiffRow
namespace Vt.C15win
open Vt Vt.Recv Vt.C19 Vt.C09 Vt.C03 Vt.RowDraw Vt.DiffRow Vt.Bytes
set_option linter.unusedSimpArgs false
set_option linter.unusedVariables false

variable {W : Nat → Option Nat} {cb : CbPolicy}

/-! ### the masked source line -/

/-- blank default cells on `[0, s)`, then the cells of `src` from `s` on -/
def mask (src : List Cell) (s : Nat) : List Cell := List.replicate s Cell.new ++ src.drop s

theorem mask_length (src : List Cell) (s : Nat) (hs : s ≤ src.length) : (mask src s).length = src.length := by
  simp [mask]; omega

theorem mask_get_lt (src : List Cell) (s k : Nat) (hk : k < s) : (mask src s)[k]? = some Cell.new := by
  unfold mask
  rw [List.getElem?_append_left (by simp; exact hk)]
  simp [List.getElem?_replicate, hk]

theorem mask_get_ge (src : List Cell) (s k : Nat) (hk : s ≤ k) : (mask src s)[k]? = src[k]? := by
  unfold mask
  rw [List.getElem?_append_right (by simp; exact hk)]
  simp only [List.length_replicate, List.getElem?_drop]
  rw [show s + (k - s) = k by omega]

theorem mask_drop (src : List Cell) (s : Nat) : (mask src s).drop s = src.drop s := by
  unfold mask
  rw [List.drop_append_of_le_length (by simp)]
  simp

theorem mask_getElem_ge (src : List Cell) (s k : Nat) (hk : s ≤ k) (h1 : k < (mask src s).length)
    (h2 : k < src.length) : (mask src s)[k] = src[k] := by
  have := mask_get_ge src s k hk
  rw [List.getElem?_eq_getElem h1, List.getElem?_eq_getElem h2] at this
  exact Option.some.inj this

theorem mask_getElem_lt (src : List Cell) (s k : Nat) (hk : k < s) (h1 : k < (mask src s).length) :
    (mask src s)[k] = Cell.new := by
  have := mask_get_lt src s k hk
  rw [List.getElem?_eq_getElem h1] at this
  exact Option.some.inj this

theorem mem_mask {src : List Cell} {s : Nat} {c : Cell} (h : c ∈ mask src s) : c = Cell.new ∨ c ∈ src := by
  simp only [mask, List.mem_append, List.mem_replicate] at h
  rcases h with h | h
  · exact Or.inl h.2
  · exact Or.inr (List.mem_of_mem_drop h)

theorem pairThrough_replicate_new : ∀ s : Nat, pairThrough false (List.replicate s Cell.new) = some false
  | 0 => rfl
  | s + 1 => by
    rw [List.replicate_succ, pairThrough]
    simp only [Cell.new, beq_self_eq_true, ↓reduceIte]
    exact pairThrough_replicate_new s

theorem cellOk_new (W : Nat → Option Nat) : cellOk W Cell.new = true := by
  simp [cellOk, Cell.new, Utf8.fromUtf8]

/-- the masked line is as well-formed as the source, when the mask's edge does not split a wide character -/
theorem srcOk_mask {src : List Cell} (hS : SrcOk W src) (s : Nat) (hs : s < src.length)
    (hL : src[s].cont = false) : SrcOk W (mask src s) := by
  have hml := mask_length src s (Nat.le_of_lt hs)
  refine ⟨?_, ?_, ?_, ?_⟩
  · intro c hc
    rcases mem_mask hc with rfl | hc
    · exact cellOk_new W
    · exact hS.cells_ok c hc
  · unfold mask
    rw [pairThrough_append, pairThrough_replicate_new]
    simp only [Option.bind_some]
    obtain ⟨p, _, e2, e3⟩ := pairThrough_split (List.getElem?_eq_getElem hs) hS.paired
    rw [List.drop_eq_getElem_cons hs, pairThrough, hL]
    simp only [beq_self_eq_true, ↓reduceIte]
    exact e3
  · intro j hj
    rw [hml]
    by_cases hjs : j < s
    · rw [mask_getElem_lt src s j hjs hj]
      simp [cellEmitOk, Cell.new, attrsOk, Attrs.default, colorOk]
    · rw [mask_getElem_ge src s j (by omega) hj (by omega)]
      exact hS.emit_ok j (by omega)
  · intro c hc hcc
    rcases mem_mask hc with rfl | hc
    · rfl
    · exact hS.cont_default c hc hcc

/-! ### the loop over the cells `j, …, j + n - 1` -/

theorem fold_win (K : Ctx W cb) (hW : WOk W) (hS : SrcOk W K.src) (w : Bool) : ∀ (n j : Nat) (st : Row.FmtSt),
    j + n ≤ K.src.length → J K w j st →
    ∃ st', (C14.enumFrom j ((K.src.drop j).take n)).foldlM (Row.fmtStep K.src.length K.i w) st = .ok st' ∧
      J K w (j + n) st'
  | 0, j, st, _, h => ⟨st, by simp [C14.enumFrom, pure, Except.pure], h⟩
  | n + 1, j, st, hjl, h => by
    have hj : j < K.src.length := by omega
    obtain ⟨st1, e1, h1⟩ := fmtStep_inv K hW hS hj w h
    obtain ⟨st', e2, h2⟩ := fold_win K hW hS w n (j + 1) st1 (by omega) h1
    refine ⟨st', ?_, by rw [show j + (n + 1) = j + 1 + n by omega]; exact h2⟩
    have : C14.enumFrom j ((K.src.drop j).take (n + 1)) =
        (j, K.src[j]) :: C14.enumFrom (j + 1) ((K.src.drop (j + 1)).take n) := by
      rw [List.drop_eq_getElem_cons hj, List.take_succ_cons]
      simp [C14.enumFrom, List.zipIdx_cons]
    rw [this, List.foldlM_cons, e1]
    exact e2

/-! ### the end of the window -/

/-- what the receiving line looks like once the window `[s, e)` of `src` has been drawn: the columns
`< e` show the (masked) source, the columns from `e` on are blank with some attributes `a`
(`Attrs.default`, unless the window ends inside a run of empty cells with attributes, which the emitter
erases with an `EL` that runs to the end of the line) -/
structure Shown (src : List Cell) (e : Nat) (Ri : Row) : Prop where
  unwrapped : Ri.wrapped = false
  length : Ri.cells.length = src.length
  len22 : ∀ c ∈ Ri.cells, c.contents.length = 22
  agree : ∀ k (hk : k < src.length), k < e → (Ri.cells.map view)[k]? = some (view src[k])
  rest : ∃ a, ∀ k, e ≤ k → k < src.length → (Ri.cells.map view)[k]? = some (blankA a)

theorem line_take_congr {src src' : List Cell} {es : Nat} {Ri : Row} (h : Line src es Ri)
    (hl : src'.length = src.length) (ht : src'.take es = src.take es) : Line src' es Ri :=
  ⟨h.unwrapped, by rw [h.views, hl, ht], h.len22⟩

theorem finish_win (K : Ctx W cb) (hS : SrcOk W K.src) {e : Nat} (he0 : 0 < e) (hel : e ≤ K.src.length)
    (hR : (K.src[e - 1]'(by omega)).wide = false) {st : Row.FmtSt} (w : Bool) (h : J K w e st) :
    ∃ Ri, Emitted W cb K.p0 (Row.fmtFinish K.src.length K.i w st).out
        (shape K.r0 K.i Ri (Row.fmtFinish K.src.length K.i w st).prevPos
          (Row.fmtFinish K.src.length K.i w st).prevAttrs) ∧ Shown K.src e Ri ∧
      (((K.src[e - 1]'(by omega)).hasContents = true ∨ (K.src[e - 1]'(by omega)).cont = true) →
        (Row.fmtFinish K.src.length K.i w st).prevPos = ⟨K.i, e⟩ ∧
        ∀ k, e ≤ k → k < K.src.length → (Ri.cells.map view)[k]? = some blankV) := by
  have hpw : st.prevWasWide = false := by rw [h.ww he0 hel]; exact hR
  have hB := h.B hpw
  unfold Row.fmtFinish
  cases he : st.erase with
  | none =>
    have hd := hB.drawn
    simp only [esK, he] at hd
    obtain ⟨Ri, hem, hline⟩ := hd
    have hx := hline.toX hel
    refine ⟨Ri, hem, ⟨hline.unwrapped, hx.length, hline.len22, hx.agree, Attrs.default, hx.blank⟩, fun hocc => ⟨?_, hx.blank⟩⟩
    have := (h.pp he0 hel hocc).2
    rw [hpw] at this
    simpa using this
  | some pa =>
    obtain ⟨e0, a⟩ := pa
    obtain ⟨hej, hel0, hwf, hvs⟩ := hB.er e0 a he
    have hd : Drawn K e0 st := by have := hB.drawn; simpa [esK, he] using this
    obtain ⟨hd', hp', ha', _, _⟩ := eraseMove_drawn K hd (Nat.le_of_lt hel0) e0 a hel0 hwf w h.prow
    obtain ⟨Ri, hem, hline⟩ := hd'
    rw [hp', ha'] at hem
    -- past the window the line is about to be blanked with `a`: describe that by another source line
    let src2 : List Cell := K.src.take e ++ List.replicate (K.src.length - e) (Cell.new.clear a)
    have hl2 : src2.length = K.src.length := by
      simp only [src2, List.length_append, List.length_take, List.length_replicate]; omega
    have hget2 : ∀ k (hk : k < K.src.length), src2[k]? = some (if k < e then K.src[k] else Cell.new.clear a) := by
      intro k hk
      by_cases hke : k < e
      · simp only [src2]
        rw [List.getElem?_append_left (by simp [List.length_take]; omega)]
        simp [hke, List.getElem?_take, List.getElem?_eq_getElem hk]
      · simp only [src2]
        rw [List.getElem?_append_right (by simp [List.length_take]; omega)]
        simp only [List.length_take, Nat.min_eq_left hel, List.getElem?_replicate, hke, ↓reduceIte]
        rw [if_pos (by omega)]
    have hline2 : Line src2 e0 Ri := by
      refine line_take_congr hline hl2 ?_
      simp only [src2]
      rw [List.take_append_of_le_length (by simp [List.length_take]; omega), List.take_take,
        Nat.min_eq_left hej]
    have hv2 : ∀ k (hk : k < src2.length), e0 ≤ k → view src2[k] = blankA a := by
      intro k hk hk0
      have hk' : k < K.src.length := by omega
      have hg := hget2 k hk'
      rw [List.getElem?_eq_getElem hk] at hg
      rw [Option.some.inj hg]
      by_cases hke : k < e
      · rw [if_pos hke]; exact hvs k hk' hk0 hke
      · rw [if_neg hke]; exact view_clear _ _
    obtain ⟨Ri', e1, hline'⟩ := shape_el K.canvas K.hi (hl2.trans K.hsrc) hline2 a (by omega) hv2
    have hem' := emitted_step W cb K.ready hem (step_clearRowForward W cb)
      (r' := shape K.r0 K.i Ri' ⟨K.i, e0⟩ a) (by
        have : (shape K.r0 K.i Ri ⟨K.i, e0⟩ a).pen = a := rfl
        rw [this, e1]; rfl)
    refine ⟨Ri', ?_, ?_, fun hocc => ?_⟩
    rotate_left 2
    · have := (h.pp he0 hel hocc).1
      rw [he] at this; simp at this
    · simp only [hp', ha']; exact hem'
    · obtain ⟨hviews, hunw⟩ := Line.full hline'
      have hlen' : Ri'.cells.length = K.src.length := by
        have := congrArg List.length hviews
        simpa [hl2] using this
      refine ⟨hunw, hlen', hline'.len22, ?_, a, ?_⟩
      · intro k hk hke
        rw [hviews, List.getElem?_map, hget2 k hk, if_pos hke]; rfl
      · intro k hke hk
        rw [hviews, List.getElem?_map, hget2 k hk, if_neg (by omega)]
        simp [view_clear]

/-! ### the window theorem -/

/-- a blank line shows the first `s` columns of a line masked up to `s` -/
theorem blank_mask {src : List Cell} {Ri0 : Row} (h : Line src 0 Ri0) (s : Nat) (hs : s ≤ src.length) :
    Line (mask src s) s Ri0 := by
  refine ⟨h.unwrapped, ?_, h.len22⟩
  rw [h.views, mask_length src s hs]
  simp only [List.take_zero, List.map_nil, List.nil_append, Nat.sub_zero]
  have : (mask src s).take s = List.replicate s Cell.new := by
    unfold mask
    rw [List.take_append_of_le_length (by simp)]
    simp
  rw [this, List.map_replicate, view_new, List.replicate_append_replicate]
  congr 1; omega

/-- **one line of `rows_formatted(start, width)`** (never wrap-through: `rows_formatted` passes
`wrapping = false` for a proper window): for a window `[start, start + width)` whose edges do not split a
wide character of the source line, processing the bytes of `write_contents_formatted` on a receiver whose
line `i` is blank, whose cursor is at `(i, start)` and whose pen is the default one, makes the window of
line `i` show the source cell for cell, leaves the columns left of the window blank, leaves the line
unwrapped; the columns right of the window are blank cells all with the same attributes (not necessarily
the default ones: a run of empty cells with attributes that reaches the right edge of the window is flushed
as `EL`, which runs to the end of the LINE); cursor and pen end at the `prev_pos` / `prev_attrs` the emitter
returns; everything else on the receiver is as before -/
theorem row_window_draws (hW : WOk W) (p0 : Parser) (hr : Ready p0) (hcv : Canvas (rsOf p0.ws).g)
    (i : Nat) (hi : i < (rsOf p0.ws).g.size.rows) (sr : Row) (hlen : sr.cells.length = (rsOf p0.ws).g.size.cols)
    (hS : SrcOk W sr.cells) (start width : Nat) (hwd : 0 < width) (hfit : start + width ≤ sr.cells.length)
    (hL : start = 0 ∨ ∀ c, sr.cells[start]? = some c → c.cont = false)
    (hR : start + width = sr.cells.length ∨ ∀ c, sr.cells[start + width]? = some c → c.cont = false)
    (Ri0 : Row) (hrow : (rsOf p0.ws).g.rows[i]? = some Ri0) (hblank : Line sr.cells 0 Ri0)
    (hpos : (rsOf p0.ws).g.pos = ⟨i, start⟩) (hpen : (rsOf p0.ws).pen = Attrs.default) :
    ∃ out np na, sr.writeContentsFormatted start width i false none none = .ok (out, np, na) ∧
      ∃ Ri, Emitted W cb p0 out (shape (rsOf p0.ws) i Ri np na) ∧
        (∀ k, start ≤ k → k < start + width → (Ri.cells[k]?).map view = (sr.cells[k]?).map view) ∧
        (∀ k, k < start → (Ri.cells[k]?).map view = some blankV) ∧
        (∃ a, ∀ k, start + width ≤ k → k < sr.cells.length → (Ri.cells[k]?).map view = some (blankA a)) ∧
        Ri.wrapped = false ∧ Ri.cells.length = sr.cells.length ∧ (∀ c ∈ Ri.cells, c.contents.length = 22) ∧
        (((sr.cells[start + width - 1]'(by omega)).hasContents = true ∨
            (sr.cells[start + width - 1]'(by omega)).cont = true) →
          np = ⟨i, start + width⟩ ∧
          ∀ k, start + width ≤ k → k < sr.cells.length → (Ri.cells[k]?).map view = some blankV) := by
  have hs : start < sr.cells.length := by omega
  -- the left edge
  have hL' : sr.cells[start].cont = false := by
    rcases hL with h0 | h
    · rw [hS.cont_iff start hs, if_pos h0]
    · exact h _ (List.getElem?_eq_getElem hs)
  -- the right edge
  have hR' : (sr.cells[start + width - 1]'(by omega)).wide = false := by
    rcases hR with h | h
    · by_cases hw : (sr.cells[start + width - 1]'(by omega)).wide = true
      · obtain ⟨hj', _⟩ := hS.wide_next (start + width - 1) (by omega) hw
        omega
      · simpa using hw
    · by_cases hlt : start + width < sr.cells.length
      · have := h _ (List.getElem?_eq_getElem hlt)
        rw [hS.cont_iff (start + width) hlt, if_neg (by omega)] at this
        exact this
      · by_cases hw : (sr.cells[start + width - 1]'(by omega)).wide = true
        · obtain ⟨hj', _⟩ := hS.wide_next (start + width - 1) (by omega) hw
          omega
        · simpa using hw
  have hml := mask_length sr.cells start (Nat.le_of_lt hs)
  have hSm := srcOk_mask hS start hs hL'
  let K : Ctx W cb := ⟨p0, hr, rsOf p0.ws, hcv, i, hi, mask sr.cells start, hml.trans hlen⟩
  have hKl : K.src.length = sr.cells.length := hml
  -- the loop is entered at column `start`
  have hJ0 : J K false start (RowDraw.start ⟨i, start⟩ Attrs.default) := by
    refine ⟨fun h => by simp at h, ?_, fun _ => rfl, fun h => by simp [RowDraw.start] at h, fun _ => ⟨?_, ?_⟩, ?_⟩
    · intro h0 hl
      show false = (K.src[start - 1]'(by omega)).wide
      have : (K.src[start - 1]'(by omega)) = Cell.new := mask_getElem_lt sr.cells start (start - 1) (by omega) _
      rw [this]; rfl
    · refine ⟨Ri0, ?_, blank_mask hblank start (Nat.le_of_lt hs)⟩
      show Emitted W cb p0 [] (shape (rsOf p0.ws) i Ri0 ⟨i, start⟩ Attrs.default)
      rw [← hpos, ← hpen, shape_self _ _ _ hrow]
      exact emitted_nil W cb p0 hr
    · intro e a h; simp [RowDraw.start] at h
    · intro h0 hl hocc
      have : (K.src[start - 1]'(by omega)) = Cell.new := mask_getElem_lt sr.cells start (start - 1) (by omega) _
      rw [this] at hocc
      simp [Cell.new, Cell.hasContents] at hocc
  obtain ⟨st', e, hJ⟩ := fold_win K hW hSm false width start _ (by rw [hKl]; exact hfit) hJ0
  have hRK : (K.src[start + width - 1]'(by omega)).wide = false := by
    have : (K.src[start + width - 1]'(by omega)) = sr.cells[start + width - 1]'(by omega) :=
      mask_getElem_ge sr.cells start (start + width - 1) (by omega) _ _
    rw [this]; exact hR'
  obtain ⟨Ri, hem, hsh, hocc⟩ := finish_win K hSm (e := start + width) (by omega) (by rw [hKl]; exact hfit) hRK false hJ
  -- the emitter
  unfold Row.writeContentsFormatted
  simp only [pure_bind', Option.getD_none, Bool.false_and, Bool.false_eq_true, ↓reduceIte]
  have hwin : Row.window sr.cells start width = C14.enumFrom start ((sr.cells.drop start).take width) := by
    rw [C03.window_eq, C14.windowFrom_eq]; simp
  rw [hwin]
  have e' : (C14.enumFrom start (((mask sr.cells start).drop start).take width)).foldlM
      (Row.fmtStep (mask sr.cells start).length i false) (RowDraw.start ⟨i, start⟩ Attrs.default) = .ok st' := e
  rw [mask_drop, hml] at e'
  simp only [RowDraw.start] at e'
  simp only [Row.cols, e', ok_bind, pure_eq_ok]
  have hem' : Emitted W cb p0 (Row.fmtFinish sr.cells.length i false st').out
      (shape (rsOf p0.ws) i Ri (Row.fmtFinish sr.cells.length i false st').prevPos
        (Row.fmtFinish sr.cells.length i false st').prevAttrs) := by
    have := hem
    rw [hKl] at this
    exact this
  refine ⟨_, _, _, rfl, Ri, hem', ?_, ?_, ?_, hsh.unwrapped, hsh.length.trans hKl, hsh.len22, ?_⟩
  rotate_left 3
  · intro ho
    have hc : (K.src[start + width - 1]'(by omega)) = sr.cells[start + width - 1]'(by omega) :=
      mask_getElem_ge sr.cells start (start + width - 1) (by omega) _ _
    obtain ⟨h1, h2⟩ := hocc (by rw [hc]; exact ho)
    rw [hKl] at h1
    refine ⟨h1, fun k hk1 hk2 => ?_⟩
    have := h2 k hk1 (by rw [hKl]; exact hk2)
    rw [List.getElem?_map] at this
    exact this
  · intro k hk1 hk2
    have hkl : k < K.src.length := by rw [hKl]; omega
    have := hsh.agree k hkl hk2
    rw [List.getElem?_map] at this
    rw [this, List.getElem?_eq_getElem (show k < sr.cells.length by omega)]
    simp only [Option.map_some]
    congr 2
    exact mask_getElem_ge sr.cells start k hk1 _ _
  · intro k hk
    have hkl : k < K.src.length := by rw [hKl]; omega
    have := hsh.agree k hkl (by omega)
    rw [List.getElem?_map] at this
    rw [this]
    have hc : K.src[k] = Cell.new := mask_getElem_lt sr.cells start k hk _
    rw [hc, view_new]
  · obtain ⟨a, ha⟩ := hsh.rest
    refine ⟨a, fun k hk1 hk2 => ?_⟩
    have := ha k hk1 (by rw [hKl]; exact hk2)
    rw [List.getElem?_map] at this
    exact this

/-! ## the diff on a window (`rows_diff(prev, start, width)`)

The same device: the loop of `DiffRow` runs on the source line masked with the PREVIOUS line on `[0, s)`, so
that "shows the masked source on columns `< e`" is "shows the previous line left of the window and the
current line inside it". -/

/-- the cells of `pre` on `[0, s)`, then the cells of `src` from `s` on -/
def maskP (pre src : List Cell) (s : Nat) : List Cell := pre.take s ++ src.drop s

theorem maskP_length (pre src : List Cell) (s : Nat) (hp : s ≤ pre.length) (hs : s ≤ src.length) :
    (maskP pre src s).length = src.length := by
  simp [maskP, List.length_take]; omega

theorem maskP_get_lt (pre src : List Cell) (s k : Nat) (hp : s ≤ pre.length) (hk : k < s) :
    (maskP pre src s)[k]? = pre[k]? := by
  unfold maskP
  rw [List.getElem?_append_left (by simp [List.length_take]; omega)]
  simp [List.getElem?_take, hk]

theorem maskP_get_ge (pre src : List Cell) (s k : Nat) (hp : s ≤ pre.length) (hk : s ≤ k) :
    (maskP pre src s)[k]? = src[k]? := by
  unfold maskP
  have hl : (pre.take s).length = s := by simp [List.length_take]; omega
  rw [List.getElem?_append_right (by rw [hl]; exact hk), hl]
  simp only [List.getElem?_drop]
  rw [show s + (k - s) = k by omega]

theorem maskP_drop (pre src : List Cell) (s : Nat) (hp : s ≤ pre.length) : (maskP pre src s).drop s = src.drop s := by
  unfold maskP
  have hl : (pre.take s).length = s := by simp [List.length_take]; omega
  rw [List.drop_append_of_le_length (by omega)]
  rw [List.drop_of_length_le (by omega)]
  simp

theorem maskP_getElem_ge (pre src : List Cell) (s k : Nat) (hp : s ≤ pre.length) (hk : s ≤ k)
    (h1 : k < (maskP pre src s).length) (h2 : k < src.length) : (maskP pre src s)[k] = src[k] := by
  have := maskP_get_ge pre src s k hp hk
  rw [List.getElem?_eq_getElem h1, List.getElem?_eq_getElem h2] at this
  exact Option.some.inj this

theorem maskP_getElem_lt (pre src : List Cell) (s k : Nat) (hp : s ≤ pre.length) (hk : k < s)
    (h1 : k < (maskP pre src s).length) (h2 : k < pre.length) : (maskP pre src s)[k] = pre[k] := by
  have := maskP_get_lt pre src s k hp hk
  rw [List.getElem?_eq_getElem h1, List.getElem?_eq_getElem h2] at this
  exact Option.some.inj this

theorem mem_maskP {pre src : List Cell} {s : Nat} {c : Cell} (h : c ∈ maskP pre src s) : c ∈ pre ∨ c ∈ src := by
  simp only [maskP, List.mem_append] at h
  rcases h with h | h
  · exact Or.inl (List.mem_of_mem_take h)
  · exact Or.inr (List.mem_of_mem_drop h)

/-- the line that shows `pre` left of column `s` and `src` from `s` on is well formed, when column `s` does
not split a wide character of either -/
theorem srcOk_maskP {pre src : List Cell} (hP : SrcOk W pre) (hS : SrcOk W src) (hpl : pre.length = src.length)
    (s : Nat) (hs : s < src.length) (hLp : (pre[s]'(by omega)).cont = false) (hL : src[s].cont = false) :
    SrcOk W (maskP pre src s) := by
  have hml := maskP_length pre src s (by omega) (Nat.le_of_lt hs)
  refine ⟨?_, ?_, ?_, ?_⟩
  · intro c hc
    rcases mem_maskP hc with hc | hc
    · exact hP.cells_ok c hc
    · exact hS.cells_ok c hc
  · unfold maskP
    rw [pairThrough_append]
    obtain ⟨p, e1, e2, _⟩ := pairThrough_split (List.getElem?_eq_getElem (show s < pre.length by omega)) hP.paired
    rw [e1, ← e2, hLp]
    simp only [Option.bind_some]
    obtain ⟨_, _, _, e3⟩ := pairThrough_split (List.getElem?_eq_getElem hs) hS.paired
    rw [List.drop_eq_getElem_cons hs, pairThrough, hL]
    simp only [beq_self_eq_true, ↓reduceIte]
    exact e3
  · intro j hj
    rw [hml]
    by_cases hjs : j < s
    · rw [maskP_getElem_lt pre src s j (by omega) hjs hj (by omega), ← hpl]
      exact hP.emit_ok j (by omega)
    · rw [maskP_getElem_ge pre src s j (by omega) (by omega) hj (by omega)]
      exact hS.emit_ok j (by omega)
  · intro c hc hcc
    rcases mem_maskP hc with hc | hc
    · exact hP.cont_default c hc hcc
    · exact hS.cont_default c hc hcc

/-- the loop over the cells `j, …, j + n - 1` of the two lines -/
theorem fold_winD (K : Ctx W cb) (D : DCtx K) (hW : WOk W) (hS : SrcOk W K.src) : ∀ (n j : Nat) (st : Row.FmtSt),
    j + n ≤ K.src.length → JD K D j st →
    ∃ st', (C14.enumFrom j (((K.src.zip D.prv).drop j).take n)).foldlM (Row.diffStep K.src.length K.i false) st = .ok st' ∧
      JD K D (j + n) st'
  | 0, j, st, _, h => ⟨st, by simp [C14.enumFrom, pure, Except.pure], h⟩
  | n + 1, j, st, hjl, h => by
    have hj : j < K.src.length := by omega
    have hjz : j < (K.src.zip D.prv).length := by simp [List.length_zip, D.hprv]; exact hj
    obtain ⟨st1, e1, h1⟩ := diffStep_inv K D hW hS hj h
    obtain ⟨st', e2, h2⟩ := fold_winD K D hW hS n (j + 1) st1 (by omega) h1
    refine ⟨st', ?_, by rw [show j + (n + 1) = j + 1 + n by omega]; exact h2⟩
    have : C14.enumFrom j (((K.src.zip D.prv).drop j).take (n + 1)) =
        (j, (K.src[j], D.prv[j]'(by rw [D.hprv]; exact hj))) ::
          C14.enumFrom (j + 1) (((K.src.zip D.prv).drop (j + 1)).take n) := by
      rw [List.drop_eq_getElem_cons hjz, List.take_succ_cons]
      simp [C14.enumFrom, List.zipIdx_cons, List.getElem_zip]
    rw [this, List.foldlM_cons, e1]
    exact e2

/-- `EL` from column `e0` of a line that is `e0` columns into a diff whose window ends at `e ≥ e0`, the source
being blank (attributes `a`) on `[e0, e)`: the columns `< e` show the source, the columns from `e0` on are blank -/
theorem mid_erase_tail {S P : List Cell} (hS : SrcOk W S) {e0 e : Nat} {Ri : Row} (h : Mid S P e0 Ri)
    (h0e : e0 ≤ e) (hel : e ≤ S.length) (he0l : e0 < S.length) (a : Attrs)
    (hrun : ∀ k (hk : k < S.length), e0 ≤ k → k < e → view S[k] = blankA a)
    (hR : ∀ (h0 : 0 < e), (S[e - 1]'(by omega)).wide = false) :
    (C07.erasedRow Ri.cells Ri.wrapped e0 S.length a).wrapped = false ∧
    (C07.erasedRow Ri.cells Ri.wrapped e0 S.length a).cells.length = S.length ∧
    (∀ k (hk : k < S.length), k < e →
      ((C07.erasedRow Ri.cells Ri.wrapped e0 S.length a).cells.map view)[k]? = some (view S[k])) ∧
    (∀ k, e0 ≤ k → k < S.length →
      ((C07.erasedRow Ri.cells Ri.wrapped e0 S.length a).cells.map view)[k]? = some (blankA a)) := by
  have hse : S[e0].cont = false := by
    by_cases hlt : e0 < e
    · have := hrun e0 he0l (Nat.le_refl _) hlt
      simp only [view, blankA, View.mk.injEq] at this
      exact this.2.2.1
    · have hee : e0 = e := by omega
      rw [hS.cont_iff e0 he0l]
      by_cases h0 : e0 = 0
      · rw [if_pos h0]
      · rw [if_neg h0]
        have := hR (by omega)
        subst hee
        exact this
  have hget : ∀ k (hk : k < S.length), ((C07.erasedRow Ri.cells Ri.wrapped e0 S.length a).cells.map view)[k]? =
      some (view (C07.rangeCell e0 S.length a k (Ri.cells[k]'(by rw [h.len]; exact hk)))) := by
    intro k hk
    have hkR : k < Ri.cells.length := by rw [h.len]; exact hk
    simp [C07.erasedRow, C07.eraseRange, List.getElem?_mapIdx, List.getElem?_eq_getElem hkR]
  refine ⟨?_, by simp [C07.erasedRow, C07.eraseRange_length, h.len], ?_, ?_⟩
  · simp only [C07.erasedRow]
    split
    · rfl
    · exact h.unwrapped
  · intro k hk hke
    rw [hget k hk]
    congr 1
    have hkR : k < Ri.cells.length := by rw [h.len]; exact hk
    by_cases hin : e0 ≤ k
    · have : C07.rangeCell e0 S.length a k Ri.cells[k] = Ri.cells[k].clear a := by
        unfold C07.rangeCell; rw [if_pos ⟨hin, hk⟩]
      rw [this, view_clear, hrun k hk hin hke]
    · have hke0 : k < e0 := by omega
      have hun : C07.rangeCell e0 S.length a k Ri.cells[k] = Ri.cells[k] := by
        unfold C07.rangeCell
        rw [if_neg (by omega)]
        by_cases hk1 : k + 1 = e0
        · have hnw : Ri.cells[k].wide = false := by
            cases hw : Ri.cells[k].wide
            · rfl
            · exfalso
              have hsw : S[k].wide = true := by rw [← view_wide (h.lo k hk hke0)]; exact hw
              obtain ⟨hk1', hc⟩ := hS.wide_next k hk hsw
              have : S[e0].cont = true := by
                subst hk1; exact hc
              rw [hse] at this; exact absurd this (by simp)
          rw [if_neg (by rw [hnw]; simp), if_neg (by omega)]
        · rw [if_neg (by omega), if_neg (by omega)]
      rw [hun]; exact h.lo k hk hke0
  · intro k hk0 hk
    rw [hget k hk]
    have : C07.rangeCell e0 S.length a k (Ri.cells[k]'(by rw [h.len]; exact hk)) =
        (Ri.cells[k]'(by rw [h.len]; exact hk)).clear a := by
      unfold C07.rangeCell; rw [if_pos ⟨hk0, hk⟩]
    rw [this, view_clear]

/-- what the receiving line looks like once the window `[s, e)` has been diffed: the columns `< e` show the
masked source (previous line left of the window, current line inside); the columns from `e` on either still
show the previous line (if the window's right edge does not split a wide character of it), or are all blank
with the same attributes (the window ended inside a run of changed empty cells, flushed as `EL`) -/
structure ShownD (S P : List Cell) (e : Nat) (Ri : Row) : Prop where
  unwrapped : Ri.wrapped = false
  length : Ri.cells.length = S.length
  agree : ∀ k (hk : k < S.length), k < e → (Ri.cells.map view)[k]? = some (view S[k])
  rest : (∀ c, P[e]? = some c → c.cont = false) →
    (∀ k, e ≤ k → k < S.length → (Ri.cells.map view)[k]? = P[k]?.map view) ∨
    (∃ a, ∀ k, e ≤ k → k < S.length → (Ri.cells.map view)[k]? = some (blankA a))

theorem finish_winD (K : Ctx W cb) (D : DCtx K) (hW : WOk W) (hS : SrcOk W K.src) {e : Nat} (he0 : 0 < e)
    (hel : e ≤ K.src.length) (hR : (K.src[e - 1]'(by omega)).wide = false) {st : Row.FmtSt} (h : JD K D e st) :
    ∃ Ri, Emitted W cb K.p0 (Row.fmtFinish K.src.length K.i false st).out
        (shape K.r0 K.i Ri (Row.fmtFinish K.src.length K.i false st).prevPos
          (Row.fmtFinish K.src.length K.i false st).prevAttrs) ∧ ShownD K.src D.prv e Ri ∧
      Bytes (Row.fmtFinish K.src.length K.i false st).out ∧
      (Row.fmtFinish K.src.length K.i false st).prevPos.col ≤ K.src.length ∧
      (Attrs.wf K.r0.pen → Attrs.wf (Row.fmtFinish K.src.length K.i false st).prevAttrs) := by
  have hpw : st.prevWasWide = false := by rw [h.ww he0 hel]; exact hR
  have hB := h.B hpw
  unfold Row.fmtFinish
  cases he : st.erase with
  | none =>
    have hd := hB.drawn
    simp only [esK, he] at hd
    obtain ⟨Ri, hem, hmid, hb, hc⟩ := hd
    refine ⟨Ri, hem, ⟨hmid.unwrapped, hmid.len, ?_, ?_⟩, hb, hc.1, hc.2⟩
    · intro k hk hke
      have hkR : k < Ri.cells.length := by rw [hmid.len]; exact hk
      rw [List.getElem?_map, List.getElem?_eq_getElem hkR]
      simp only [Option.map_some, Option.some.injEq]
      exact hmid.lo k hk hke
    · intro hPc
      refine Or.inl (fun k hke hk => ?_)
      have hkR : k < Ri.cells.length := by rw [hmid.len]; exact hk
      have hkP : k < D.prv.length := by rw [D.hprv]; exact hk
      rw [List.getElem?_map, List.getElem?_eq_getElem hkR, List.getElem?_eq_getElem hkP]
      simp only [Option.map_some, Option.some.injEq]
      by_cases hkk : e < k
      · exact hmid.hi k hk hkk
      · have : k = e := by omega
        subst this
        rcases hmid.mid hk with h1 | ⟨h2, _⟩
        · exact h1
        · have := hPc _ (List.getElem?_eq_getElem hkP)
          rw [h2] at this; exact absurd this (by simp)
  | some pa =>
    obtain ⟨e0, a⟩ := pa
    obtain ⟨hej, hel0, hwf, hvs⟩ := hB.er e0 a he
    have hd : DrawnD K D e0 st := by have := hB.drawn; simpa [esK, he] using this
    obtain ⟨hd', hp', ha', _, _⟩ := eraseMove_drawnD K D hd e0 a hel0 hwf
    obtain ⟨Ri, hem, hmid, hb, hc⟩ := hd'
    rw [hp', ha'] at hem
    have hl : Ri.cells.length = K.r0.g.size.cols := by rw [hmid.len, K.hsrc]
    have hci := cells_of_emitted hW.space K D hb hem
    have e1 := shape_elD K hl hci e0 (by rw [← K.hsrc]; omega) a
    have hem' := emitted_step W cb K.ready hem (step_clearRowForward W cb)
      (r' := shape K.r0 K.i (C07.erasedRow Ri.cells Ri.wrapped e0 K.r0.g.size.cols a) ⟨K.i, e0⟩ a) (by
        have : (shape K.r0 K.i Ri ⟨K.i, e0⟩ a).pen = a := rfl
        rw [this, e1]; rfl)
    obtain ⟨t1, t2, t3, t4⟩ := mid_erase_tail hS hmid hej hel hel0 a hvs (fun _ => hR)
    rw [← K.hsrc] at hem'
    refine ⟨C07.erasedRow Ri.cells Ri.wrapped e0 K.src.length a, ?_, ⟨t1, t2, t3, ?_⟩,
      Bytes.append hb clearRowForward_bytes, hc.1, hc.2⟩
    · simp only [hp', ha']; exact hem'
    · intro _
      exact Or.inr ⟨a, fun k hke hk => t4 k (by omega) hk⟩

/-- **one line of `rows_diff(prev, start, width)`** (unwrapped lines): for a window `[start, start + width)` whose
left edge splits a wide character of neither line and whose right edge does not split one of the current line,
on a receiver (a parser satisfying the invariant) whose line `i` shows the previous line `pr`, processing the bytes
of `sr.write_contents_diff(pr, start, width, …)` makes the window of line `i` show the current line `sr` cell for
cell and leaves the columns left of the window as they were; the columns right of the window either are as they
were (given the right edge does not split a wide character of `pr`) or have all been blanked with the same
attributes (the window ends inside a run of changed empty cells, which is flushed as `EL` — that runs to the end
of the LINE, not of the window) -/
theorem row_window_diff_draws (hW : WOk W) (hcb : C13.CbInv W cb) (p0 : Parser) (hr : Ready p0) (hpi : C13.ParserInv W p0)
    (hcv : Canvas (rsOf p0.ws).g) (i : Nat) (hi : i < (rsOf p0.ws).g.size.rows) (sr pr : Row)
    (hlen : sr.cells.length = (rsOf p0.ws).g.size.cols) (hplen : pr.cells.length = (rsOf p0.ws).g.size.cols)
    (hS : SrcOk W sr.cells) (hP : SrcOk W pr.cells) (hsu : sr.wrapped = false) (hpu : pr.wrapped = false)
    (start width : Nat) (hwd : 0 < width) (hfit : start + width ≤ sr.cells.length)
    (hL : start = 0 ∨ ∀ c, sr.cells[start]? = some c → c.cont = false)
    (hLp : start = 0 ∨ ∀ c, pr.cells[start]? = some c → c.cont = false)
    (hR : start + width = sr.cells.length ∨ ∀ c, sr.cells[start + width]? = some c → c.cont = false)
    (Ri0 : Row) (hrow : (rsOf p0.ws).g.rows[i]? = some Ri0) (hshow : Ri0.cells.map view = pr.cells.map view)
    (hRu : Ri0.wrapped = false) (hpc : (rsOf p0.ws).g.pos.col ≤ (rsOf p0.ws).g.size.cols) (pw : Bool) :
    ∃ out np na, sr.writeContentsDiff pr start width i false pw (rsOf p0.ws).g.pos (rsOf p0.ws).pen = .ok (out, np, na) ∧
      (∃ Ri, Emitted W cb p0 out (shape (rsOf p0.ws) i Ri np na) ∧
        (∀ k, start ≤ k → k < start + width → (Ri.cells[k]?).map view = (sr.cells[k]?).map view) ∧
        (∀ k, k < start → (Ri.cells[k]?).map view = (pr.cells[k]?).map view) ∧
        ((∀ c, pr.cells[start + width]? = some c → c.cont = false) →
          (∀ k, start + width ≤ k → k < sr.cells.length → (Ri.cells[k]?).map view = (pr.cells[k]?).map view) ∨
          (∃ a, ∀ k, start + width ≤ k → k < sr.cells.length → (Ri.cells[k]?).map view = some (blankA a))) ∧
        Ri.wrapped = false ∧ Ri.cells.length = sr.cells.length) ∧
      Bytes out ∧ np.col ≤ (rsOf p0.ws).g.size.cols ∧ (Attrs.wf (rsOf p0.ws).pen → Attrs.wf na) := by
  have hs : start < sr.cells.length := by omega
  have hpl : pr.cells.length = sr.cells.length := by rw [hplen, hlen]
  have hsp : start < pr.cells.length := by omega
  have hL' : sr.cells[start].cont = false := by
    rcases hL with h0 | h
    · rw [hS.cont_iff start hs, if_pos h0]
    · exact h _ (List.getElem?_eq_getElem hs)
  have hLp' : pr.cells[start].cont = false := by
    rcases hLp with h0 | h
    · rw [hP.cont_iff start hsp, if_pos h0]
    · exact h _ (List.getElem?_eq_getElem hsp)
  have hR' : (sr.cells[start + width - 1]'(by omega)).wide = false := by
    by_cases hlt : start + width < sr.cells.length
    · rcases hR with h | h
      · omega
      · have := h _ (List.getElem?_eq_getElem hlt)
        rw [hS.cont_iff (start + width) hlt, if_neg (by omega)] at this
        exact this
    · by_cases hw : (sr.cells[start + width - 1]'(by omega)).wide = true
      · obtain ⟨hj', _⟩ := hS.wide_next (start + width - 1) (by omega) hw
        omega
      · simpa using hw
  have hml := maskP_length pr.cells sr.cells start (Nat.le_of_lt hsp) (Nat.le_of_lt hs)
  have hSm := srcOk_maskP hP hS hpl start hs hLp' hL'
  let K : Ctx W cb := ⟨p0, hr, rsOf p0.ws, hcv, i, hi, maskP pr.cells sr.cells start, hml.trans hlen⟩
  let D : DCtx K := ⟨pr.cells, hpl.trans hml.symm, hP, hpi, hcb⟩
  have hKl : K.src.length = sr.cells.length := hml
  have hget : ∀ k (hk : k < K.src.length), K.src[k] =
      if k < start then pr.cells[k]'(by rw [hpl, ← hKl]; exact hk) else sr.cells[k]'(by rw [← hKl]; exact hk) := by
    intro k hk
    by_cases hks : k < start
    · rw [if_pos hks]; exact maskP_getElem_lt pr.cells sr.cells start k (Nat.le_of_lt hsp) hks _ _
    · rw [if_neg hks]; exact maskP_getElem_ge pr.cells sr.cells start k (Nat.le_of_lt hsp) (by omega) _ _
  -- the receiving line is `start` columns into the diff of the masked line
  have hmid0 : Mid K.src D.prv start Ri0 := by
    have hz := mid_zero (S := K.src) hRu D.hprv hshow
    have hall : ∀ k (hk : k < K.src.length), view (Ri0.cells[k]'(by rw [hz.len]; exact hk)) =
        view (D.prv[k]'(by rw [D.hprv]; exact hk)) := by
      intro k hk
      have := congrArg (fun l => l[k]?) hshow
      simp only [List.getElem?_map, List.getElem?_eq_getElem (show k < Ri0.cells.length by rw [hz.len]; exact hk),
        List.getElem?_eq_getElem (show k < pr.cells.length by rw [hpl, ← hKl]; exact hk), Option.map_some,
        Option.some.injEq] at this
      exact this
    refine ⟨hRu, hz.len, hz.plen, ?_, fun k hk _ => hall k hk, fun hk => Or.inl (hall start hk)⟩
    intro k hk hks
    rw [hall k hk, hget k hk, if_pos hks]
  have hJ0 : JD K D start (RowDraw.start (rsOf p0.ws).g.pos (rsOf p0.ws).pen) := by
    refine ⟨?_, fun _ => rfl, fun h => by simp [RowDraw.start] at h, fun _ => ⟨?_, ?_⟩⟩
    · intro h0 hl
      show false = (K.src[start - 1]'(by omega)).wide
      rw [hget (start - 1) (by omega), if_pos (by omega)]
      have := hP.cont_iff start hsp
      rw [if_neg (by omega), hLp'] at this
      exact this
    · refine ⟨Ri0, ?_, hmid0, Bytes.nil, ?_⟩
      · show Emitted W cb p0 [] (shape (rsOf p0.ws) i Ri0 (rsOf p0.ws).g.pos (rsOf p0.ws).pen)
        rw [shape_self _ _ _ hrow]
        exact emitted_nil W cb p0 hr
      · refine ⟨?_, fun h => h⟩
        show (rsOf p0.ws).g.pos.col ≤ K.src.length
        rw [hKl, hlen]; exact hpc
    · intro e a h; simp [RowDraw.start] at h
  obtain ⟨st', e, hJ⟩ := fold_winD K D hW hSm width start _ (by rw [hKl]; exact hfit) hJ0
  have hRK : (K.src[start + width - 1]'(by omega)).wide = false := by
    rw [hget (start + width - 1) (by omega), if_neg (by omega)]; exact hR'
  obtain ⟨Ri, hem, hsh, hb, hc1, hc2⟩ := finish_winD K D hW hSm (e := start + width) (by omega)
    (by rw [hKl]; exact hfit) hRK hJ
  -- the emitter
  unfold Row.writeContentsDiff
  have hst : Row.diffStart sr pr start i false pw (rsOf p0.ws).g.pos (rsOf p0.ws).pen =
      .ok (RowDraw.start (rsOf p0.ws).g.pos (rsOf p0.ws).pen) := by
    unfold Row.diffStart
    cases sr.cells[start]? <;> cases pr.cells[start]? <;> simp [RowDraw.start]
  have hwin : Row.window (sr.cells.zip pr.cells) start width =
      C14.enumFrom start (((sr.cells.zip pr.cells).drop start).take width) := by
    rw [C03.window_eq, C14.windowFrom_eq]; simp
  have hzip : ((maskP pr.cells sr.cells start).zip pr.cells).drop start = (sr.cells.zip pr.cells).drop start := by
    simp only [List.zip, List.drop_zipWith]
    rw [maskP_drop _ _ _ (Nat.le_of_lt hsp)]
  have e' : (C14.enumFrom start ((((maskP pr.cells sr.cells start).zip pr.cells).drop start).take width)).foldlM
      (Row.diffStep (maskP pr.cells sr.cells start).length i false)
      (RowDraw.start (rsOf p0.ws).g.pos (rsOf p0.ws).pen) = .ok st' := e
  rw [hzip, hml] at e'
  have hend : Row.diffEnd sr pr i (Row.fmtFinish sr.cells.length i false st') =
      .ok ((Row.fmtFinish sr.cells.length i false st').out, (Row.fmtFinish sr.cells.length i false st').prevPos,
        (Row.fmtFinish sr.cells.length i false st').prevAttrs) := by
    unfold Row.diffEnd
    simp [hsu, hpu]
  rw [hst]
  simp only [ok_bind, hwin, Row.cols, e', hend]
  rw [hKl] at hem hb hc1 hc2
  refine ⟨_, _, _, rfl, ⟨Ri, hem, ?_, ?_, ?_, hsh.unwrapped, hsh.length.trans hKl⟩, hb, by rw [← hlen]; exact hc1, hc2⟩
  · intro k hk1 hk2
    have hkl : k < K.src.length := by rw [hKl]; omega
    have := hsh.agree k hkl hk2
    rw [List.getElem?_map] at this
    rw [this, List.getElem?_eq_getElem (show k < sr.cells.length by omega), hget k hkl, if_neg (by omega)]
    rfl
  · intro k hk
    have hkl : k < K.src.length := by rw [hKl]; omega
    have := hsh.agree k hkl (by omega)
    rw [List.getElem?_map] at this
    rw [this, List.getElem?_eq_getElem (show k < pr.cells.length by omega), hget k hkl, if_pos hk]
    rfl
  · intro hPc
    rcases hsh.rest hPc with h1 | ⟨a, h2⟩
    · refine Or.inl (fun k hk1 hk2 => ?_)
      have := h1 k hk1 (by rw [hKl]; exact hk2)
      rw [List.getElem?_map] at this
      exact this
    · refine Or.inr ⟨a, fun k hk1 hk2 => ?_⟩
      have := h2 k hk1 (by rw [hKl]; exact hk2)
      rw [List.getElem?_map] at this
      exact this

end Vt.C15win

/-
#print axioms Vt.C15win.row_window_draws
#print axioms Vt.C15win.row_window_diff_draws
-- both: [propext, Classical.choice, Quot.sound]
-/
