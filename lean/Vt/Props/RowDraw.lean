/-
  Vt.Props.RowDraw — one line of a redraw (no wrap-through): processing the bytes
  `Row::write_contents_formatted` emits for a source line, on a receiver whose line `i` is blank, makes
  line `i` of the receiver look like the source line; the cursor and the pen end where the emitter
  says they do; nothing else on the receiver changes.

  The proof is a simulation: `Drawn x st` says that the bytes emitted so far (`st.out`) have been
  processed and the receiver's line agrees with the source on columns `< x`, is blank from `x` on, and
  its cursor and pen are the emitter's `prev_pos` / `prev_attrs`.
-/
import Vt.Lemmas.RowSim
import Vt.Props.C03b
import Vt.Props.C14b
namespace Vt.RowDraw
open Vt Vt.Recv Vt.C19 Vt.C09 Vt.C03
set_option linter.unusedSimpArgs false

theorem attrs_wf_of_ok {a : Attrs} (h : attrsOk a = true) : Attrs.wf a := by
  simp only [attrsOk, Bool.and_eq_true] at h
  have col : ∀ c : Color, colorOk c = true → Color.wf c := by
    intro c hc
    cases c with
    | default => trivial
    | idx i => simpa [colorOk, Color.wf] using hc
    | rgb r g b => simpa [colorOk, Color.wf, and_assoc] using hc
  exact ⟨col _ h.1, col _ h.2⟩

/-- the fixed data of one line of a redraw -/
structure Ctx (W : Nat → Option Nat) (cb : CbPolicy) where
  p0 : Parser
  ready : Ready p0
  r0 : RS
  canvas : Canvas r0.g
  i : Nat
  hi : i < r0.g.size.rows
  src : List Cell
  hsrc : src.length = r0.g.size.cols

variable {W : Nat → Option Nat} {cb : CbPolicy}

/-- the bytes emitted so far have been processed; the receiver's line `i` shows columns `< x` of the source -/
def Drawn (K : Ctx W cb) (x : Nat) (st : Row.FmtSt) : Prop :=
  ∃ Ri, Emitted W cb K.p0 st.out (shape K.r0 K.i Ri st.prevPos st.prevAttrs) ∧ Line K.src x Ri

/-- the emitter's cursor move and pen change before an erase run is flushed (no wrap-through) -/
theorem eraseMove_drawn (K : Ctx W cb) {x : Nat} {st : Row.FmtSt} (h : Drawn K x st) (hx : x ≤ K.src.length)
    (e : Nat) (a : Attrs) (he : e < K.src.length) (hwf : Attrs.wf a) (w : Bool)
    (hrow : w = true → st.prevPos.row = K.i) :
    let st' := Row.eraseMove K.src.length K.i w st e a
    Drawn K x st' ∧ st'.prevPos = ⟨K.i, e⟩ ∧ st'.prevAttrs = a ∧ st'.erase = st.erase ∧
      st'.prevWasWide = st.prevWasWide := by
  obtain ⟨Ri, hem, hline⟩ := h
  have hl : Ri.cells.length = K.r0.g.size.cols := by rw [hline.length hx, K.hsrc]
  have hu := K.canvas.cols_u16
  have hru := K.canvas.rows_u16
  have hi := K.hi
  -- the move
  have h1 := emitted_step W cb K.ready hem
    (step_moveFromTo W cb st.prevPos ⟨K.i, e⟩ (by simp only; omega) (by simp only; rw [← K.hsrc] at hu; omega))
    (shape_goto K.canvas hl st.prevPos ⟨K.i, e⟩ st.prevAttrs K.hi (by rw [← K.hsrc]; exact he))
  have hcw : (w && st.prevPos.row + 1 == ({ row := K.i, col := e } : Pos).row &&
      decide (st.prevPos.col ≥ K.src.length)) = false := by
    cases w
    · simp
    · simp [hrow rfl]
  simp only [Row.eraseMove, hcw, Bool.false_eq_true, ↓reduceIte]
  by_cases hp : (st.prevAttrs != a) = true
  · simp only [hp, ↓reduceIte]
    have h2 := emitted_step W cb K.ready h1 (step_pen W cb a st.prevAttrs hwf)
      (r' := shape K.r0 K.i Ri ⟨K.i, e⟩ a) (by simp [shape])
    exact ⟨⟨Ri, by simpa [List.append_assoc] using h2, hline⟩, (by first | rfl | trivial), (by first | rfl | trivial), (by first | rfl | trivial), (by first | rfl | trivial)⟩
  · have hpa : st.prevAttrs = a := by simpa using hp
    simp only [hp, Bool.false_eq_true, ↓reduceIte, List.append_nil]
    exact ⟨⟨Ri, by rw [hpa] at h1 ⊢; exact h1, hline⟩, (by first | rfl | trivial), (by first | exact hpa | trivial), (by first | rfl | trivial), (by first | rfl | trivial)⟩

/-- what is assumed of the source line (all of it follows from `Inv`, `Inv⁺` and `emitInv`) -/
structure SrcOk (W : Nat → Option Nat) (src : List Cell) : Prop where
  cells_ok : ∀ c ∈ src, cellOk W c = true
  paired : pairThrough false src = some false
  emit_ok : ∀ j (hj : j < src.length), cellEmitOk W src.length j src[j] = true
  cont_default : ∀ c ∈ src, c.cont = true → c.attrs = Attrs.default

theorem SrcOk.wf {src : List Cell} (h : SrcOk W src) (j : Nat) (hj : j < src.length) : Attrs.wf src[j].attrs := by
  have := h.emit_ok j hj
  simp only [cellEmitOk, Bool.and_eq_true] at this
  exact attrs_wf_of_ok this.1

/-- a cell without text: its view -/
theorem SrcOk.blank_view {src : List Cell} (h : SrcOk W src) (j : Nat) (hj : j < src.length)
    (hh : src[j].hasContents = false) : view src[j] = ⟨0, false, src[j].cont, src[j].attrs, []⟩ := by
  have hok := h.cells_ok _ (List.getElem_mem hj)
  have hlen : src[j].len = 0 := by simpa [Cell.hasContents] using hh
  simp only [cellOk, Bool.and_eq_true, hlen, List.take_zero] at hok
  have hw : src[j].wide = false := by simpa [Utf8.fromUtf8] using hok.2.2
  simp [view, hlen, hw]

theorem SrcOk.cont_view {src : List Cell} (h : SrcOk W src) (j : Nat) (hj : j < src.length)
    (hc : src[j].cont = true) : view src[j] = contV := by
  have hok := h.cells_ok _ (List.getElem_mem hj)
  obtain ⟨hw, hlen⟩ := cellOk_cont W _ hok hc
  simp [view, contV, hlen, hw, hc, h.cont_default _ (List.getElem_mem hj) hc]

theorem SrcOk.wide_next {src : List Cell} (h : SrcOk W src) (j : Nat) (hj : j < src.length)
    (hw : src[j].wide = true) : ∃ hj' : j + 1 < src.length, src[j + 1].cont = true := by
  obtain ⟨d, hd, hdc⟩ := paired_wide_next (List.getElem?_eq_getElem hj) h.paired hw
  have hl := getElem?_lt hd
  refine ⟨hl, ?_⟩
  rw [List.getElem?_eq_getElem hl] at hd
  rw [Option.some.inj hd]; exact hdc

/-- the continuation flag of cell `j` is the width flag of cell `j - 1` -/
theorem SrcOk.cont_iff {src : List Cell} (h : SrcOk W src) (j : Nat) (hj : j < src.length) :
    src[j].cont = (if j = 0 then false else src[j - 1].wide) := by
  by_cases hj0 : j = 0
  · subst hj0
    simp only [↓reduceIte]
    obtain ⟨p, e1, e2, _⟩ := pairThrough_split (List.getElem?_eq_getElem hj) h.paired
    simp [pairThrough] at e1
    rw [e2, ← e1]
  · simp only [hj0, ↓reduceIte]
    have hj1 : j - 1 < src.length := by omega
    have := C07.paired_adjacent h.paired (List.getElem?_eq_getElem hj1)
      (by rw [show j - 1 + 1 = j by omega]; exact List.getElem?_eq_getElem hj)
    exact this

def esK (j : Nat) (st : Row.FmtSt) : Nat :=
  match st.erase with
  | some (e, _) => e
  | none => j

/-- the simulation invariant between cells (not in the middle of a wide character) -/
structure Inv1 (K : Ctx W cb) (j : Nat) (st : Row.FmtSt) : Prop where
  drawn : Drawn K (esK j st) st
  er : ∀ e a, st.erase = some (e, a) → e ≤ j ∧ e < K.src.length ∧ Attrs.wf a ∧
    ∀ k (hk : k < K.src.length), e ≤ k → k < j → view K.src[k] = blankA a

/-- the first half of the per-cell body: a pending erase run is flushed exactly when cell `j` ends it -/
theorem flush_inv (K : Ctx W cb) {j : Nat} (hj : j < K.src.length) {st : Row.FmtSt} (h : Inv1 K j st) (w : Bool)
    (hrow : w = true → st.prevPos.row = K.i) :
    ∃ st2, C03.flush K.src.length K.i w st j K.src[j] = .ok st2 ∧ Inv1 K j st2 ∧
      st2.prevWasWide = st.prevWasWide ∧ (w = true → st2.prevPos.row = K.i) ∧
      (st2.erase = none ∨ ∃ e a, st2.erase = some (e, a) ∧ K.src[j].hasContents = false ∧ K.src[j].attrs = a) := by
  unfold C03.flush
  cases he : st.erase with
  | none => exact ⟨st, rfl, h, rfl, hrow, Or.inl he⟩
  | some pa =>
    obtain ⟨e, a⟩ := pa
    obtain ⟨hej, hel, hwf, hvs⟩ := h.er e a he
    simp only
    by_cases hcond : (K.src[j].hasContents || K.src[j].attrs != a) = true
    · simp only [hcond, ↓reduceIte, subM_ok hej, pure_bind', ok_bind]
      have hd : Drawn K e st := by have := h.drawn; simpa [esK, he] using this
      obtain ⟨hd', hp', ha', he', hw'⟩ := eraseMove_drawn K hd (Nat.le_of_lt hel) e a hel hwf w hrow
      refine ⟨_, rfl, ⟨?_, ?_⟩, hw', fun _ => by simp only [hp'], Or.inl rfl⟩
      · -- the ECH
        show Drawn K j _
        obtain ⟨Ri, hem, hline⟩ := hd'
        rw [hp', ha'] at hem
        by_cases hn : j - e = 0
        · have hje : e = j := by omega
          refine ⟨Ri, ?_, hje ▸ hline⟩
          simp only [hp', ha']
          have := emitted_step W cb K.ready hem (step_eraseChar W cb (j - e) (by have := K.canvas.cols_u16; rw [← K.hsrc] at this; omega))
            (r' := shape K.r0 K.i Ri ⟨K.i, e⟩ a) (by simp [hn])
          exact this
        · obtain ⟨Ri', e1, hline'⟩ := shape_ech K.canvas K.hi K.hsrc hline (j - e) a (by omega)
            (fun k hk h1 h2 => hvs k hk h1 (by omega))
          have := emitted_step W cb K.ready hem (step_eraseChar W cb (j - e) (by have := K.canvas.cols_u16; rw [← K.hsrc] at this; omega))
            (r' := shape K.r0 K.i Ri' ⟨K.i, e⟩ a) (by
              simp only [hn, ↓reduceIte]
              have : (shape K.r0 K.i Ri ⟨K.i, e⟩ a).pen = a := rfl
              rw [this, e1]
              rfl)
          refine ⟨Ri', ?_, ?_⟩
          · simp only [hp', ha']; exact this
          · rw [show e + (j - e) = j by omega] at hline'; exact hline'
      · intro e' a' h'; simp at h'
    · simp only [hcond, Bool.false_eq_true, ↓reduceIte]
      simp only [Bool.or_eq_true, bne_iff_ne, ne_eq, not_or, Bool.not_eq_true, Decidable.not_not] at hcond
      exact ⟨st, rfl, h, rfl, hrow, Or.inr ⟨e, a, he, hcond.1, hcond.2⟩⟩

theorem drawn_congr (K : Ctx W cb) {x : Nat} {st st' : Row.FmtSt} (h : Drawn K x st) (ho : st'.out = st.out)
    (hp : st'.prevPos = st.prevPos) (ha : st'.prevAttrs = st.prevAttrs) : Drawn K x st' := by
  obtain ⟨Ri, hem, hl⟩ := h
  exact ⟨Ri, by rw [ho, hp, ha]; exact hem, hl⟩

/-- the emitter state after a cell with text has been written (no wrap-through) -/
def afterText (i j : Nat) (st : Row.FmtSt) (c : Cell) : Row.FmtSt :=
  { prevWasWide := st.prevWasWide
    prevPos := ⟨i, j + (if c.isWide then 2 else 1)⟩
    prevAttrs := c.attrs
    erase := st.erase
    out := ((if (({ row := i, col := j } : Pos) != st.prevPos) = true then
              st.out ++ Term.moveFromTo st.prevPos ⟨i, j⟩ else st.out) ++
            (if (st.prevAttrs != c.attrs) = true then c.attrs.writeEscapeCodeDiff st.prevAttrs else [])) ++
           c.contents.take c.len }

theorem emit_text_eq (n i j : Nat) (st : Row.FmtSt) (c : Cell) (hh : c.hasContents = true) (hf : CellFine c)
    (w : Bool) (hrow : w = true → st.prevPos.row = i) :
    C03.emit n i w st j c true = .ok (afterText i j st c) := by
  unfold C03.emit
  have hmv : (!w || st.prevPos.row + 1 != ({ row := i, col := j } : Pos).row ||
      decide (st.prevPos.col < n - if c.isWide = true then 1 else 0) ||
      ({ row := i, col := j } : Pos).col != 0) = true := by
    cases w
    · simp
    · simp [hrow rfl]
  simp only [↓reduceIte, hh, contentsBytes_ok hf, hmv]
  by_cases h1 : (({ row := i, col := j } : Pos) != st.prevPos) = true <;>
    by_cases h2 : (st.prevAttrs != c.attrs) = true <;>
    simp [afterText, h1, h2]
  · have : st.prevAttrs = c.attrs := by simpa using h2
    exact this
  · have h1' : st.prevPos = ⟨i, j⟩ := by
      have := h1; simp only [bne_iff_ne, ne_eq, Decidable.not_not] at this; exact this.symm
    simp [h1']
  · have h1' : st.prevPos = ⟨i, j⟩ := by
      have := h1; simp only [bne_iff_ne, ne_eq, Decidable.not_not] at this; exact this.symm
    have : st.prevAttrs = c.attrs := by simpa using h2
    simp [h1', this]

/-- a cell with text: move there if need be, set the pen if need be, type it -/
theorem draw_text (K : Ctx W cb) (hW : WOk W) (hS : SrcOk W K.src) {j : Nat} (hj : j < K.src.length)
    {st : Row.FmtSt} (hd : Drawn K j st) (hh : K.src[j].hasContents = true) (w : Bool)
    (hrow : w = true → st.prevPos.row = K.i) :
    C03.emit K.src.length K.i w st j K.src[j] true = .ok (afterText K.i j st K.src[j]) ∧
      Drawn K (j + (if K.src[j].wide then 2 else 1)) (afterText K.i j st K.src[j]) := by
  have hok := hS.cells_ok _ (List.getElem_mem hj)
  obtain ⟨f, zs, ht⟩ := textCell_of hW hok (hS.emit_ok j hj) hh
  have hu := K.canvas.cols_u16
  have hru := K.canvas.rows_u16
  have hi := K.hi
  have hfine : CellFine K.src[j] := cellFine_of_ok hok
  refine ⟨emit_text_eq _ _ _ _ _ hh hfine w hrow, ?_⟩
  -- the move
  obtain ⟨Ri, hem, hline⟩ := hd
  have hl : Ri.cells.length = K.r0.g.size.cols := by rw [hline.length (Nat.le_of_lt hj), K.hsrc]
  have h1 : Emitted W cb K.p0 (if (({ row := K.i, col := j } : Pos) != st.prevPos) = true then
        st.out ++ Term.moveFromTo st.prevPos ⟨K.i, j⟩ else st.out) (shape K.r0 K.i Ri ⟨K.i, j⟩ st.prevAttrs) := by
    by_cases hne : (({ row := K.i, col := j } : Pos) != st.prevPos) = true
    · simp only [hne, ↓reduceIte]
      exact emitted_step W cb K.ready hem
        (step_moveFromTo W cb st.prevPos ⟨K.i, j⟩ (by simp only; omega) (by simp only; rw [← K.hsrc] at hu; omega))
        (shape_goto K.canvas hl st.prevPos ⟨K.i, j⟩ st.prevAttrs K.hi (by rw [← K.hsrc]; exact hj))
    · simp only [hne, Bool.false_eq_true, ↓reduceIte]
      have : st.prevPos = ⟨K.i, j⟩ := by
        have := hne; simp only [bne_iff_ne, ne_eq, Decidable.not_not] at this; exact this.symm
      rw [← this]; exact hem
  -- the pen
  have h2 : Emitted W cb K.p0 ((if (({ row := K.i, col := j } : Pos) != st.prevPos) = true then
        st.out ++ Term.moveFromTo st.prevPos ⟨K.i, j⟩ else st.out) ++
        (if (st.prevAttrs != K.src[j].attrs) = true then K.src[j].attrs.writeEscapeCodeDiff st.prevAttrs else []))
      (shape K.r0 K.i Ri ⟨K.i, j⟩ K.src[j].attrs) := by
    by_cases hp : (st.prevAttrs != K.src[j].attrs) = true
    · simp only [hp, ↓reduceIte]
      exact emitted_step W cb K.ready h1 (step_pen W cb K.src[j].attrs st.prevAttrs (hS.wf j hj))
        (r' := shape K.r0 K.i Ri ⟨K.i, j⟩ K.src[j].attrs) (by simp [shape])
    · have hpa : st.prevAttrs = K.src[j].attrs := by simpa using hp
      simp only [hp, Bool.false_eq_true, ↓reduceIte, List.append_nil]
      rw [← hpa]; exact h1
  -- the text
  have hstep := step_text W cb (K.src[j].contents.take K.src[j].len) ht.valid
    (by rw [ht.chars]; exact ht.plain) ht.noesc
  rw [ht.chars] at hstep
  by_cases hwide : K.src[j].wide = true
  · -- two columns
    have hw2 : 2 ≤ (W f).getD 1 := by
      have := ht.wide; rw [hwide] at this
      have h' : 1 < (W f).getD 1 := by simpa using this.symm
      omega
    obtain ⟨hj1, hc1⟩ := hS.wide_next j hj hwide
    obtain ⟨Ri', e, hline'⟩ := shape_type_wide W K.canvas K.hi K.hsrc hline hj1 ht hw2 (hS.cont_view (j + 1) hj1 hc1)
    have h3 := emitted_step W cb K.ready h2 hstep (r' := shape K.r0 K.i Ri' ⟨K.i, j + 2⟩ K.src[j].attrs) (by
      have : (shape K.r0 K.i Ri ⟨K.i, j⟩ K.src[j].attrs).pen = K.src[j].attrs := rfl
      rw [this, e]; rfl)
    simp only [hwide, ↓reduceIte]
    refine ⟨Ri', ?_, hline'⟩
    simpa [afterText, Cell.isWide, hwide] using h3
  · -- one column
    have hwide' : K.src[j].wide = false := by simpa using hwide
    have hw1 : (W f).getD 1 = 1 := by
      have := ht.wide; rw [hwide'] at this
      have h' : ¬ 1 < (W f).getD 1 := by simpa using this.symm
      have := ht.width
      omega
    obtain ⟨Ri', e, hline'⟩ := shape_type_narrow W K.canvas K.hi K.hsrc hline hj ht hw1
    have h3 := emitted_step W cb K.ready h2 hstep (r' := shape K.r0 K.i Ri' ⟨K.i, j + 1⟩ K.src[j].attrs) (by
      have : (shape K.r0 K.i Ri ⟨K.i, j⟩ K.src[j].attrs).pen = K.src[j].attrs := rfl
      rw [this, e]; rfl)
    simp only [hwide', Bool.false_eq_true, ↓reduceIte]
    refine ⟨Ri', ?_, hline'⟩
    simpa [afterText, Cell.isWide, hwide'] using h3

theorem blank_not_occ {c : Cell} (h : view c = blankV) : c.hasContents = false ∧ c.cont = false := by
  simp only [view, blankV, blankA, View.mk.injEq] at h
  exact ⟨by simp [Cell.hasContents, h.1], h.2.2.1⟩

theorem wide_has_contents {c : Cell} (hok : cellOk W c = true) (hw : c.wide = true) : c.hasContents = true := by
  by_cases hl : c.len = 0
  · simp only [cellOk, Bool.and_eq_true, hl, List.take_zero] at hok
    have : c.wide = false := by simpa [Utf8.fromUtf8] using hok.2.2
    rw [hw] at this; simp at this
  · simp [Cell.hasContents]; omega

/-- the invariant of the cell loop -/
structure J (K : Ctx W cb) (w : Bool) (j : Nat) (st : Row.FmtSt) : Prop where
  prow : w = true → st.prevPos.row = K.i
  ww : ∀ (_ : 0 < j) (hl : j ≤ K.src.length), st.prevWasWide = (K.src[j - 1]'(by omega)).wide
  w0 : j = 0 → st.prevWasWide = false
  A : st.prevWasWide = true → st.erase = none ∧ Drawn K (j + 1) st
  B : st.prevWasWide = false → Inv1 K j st
  pp : ∀ (_ : 0 < j) (hl : j ≤ K.src.length),
    ((K.src[j - 1]'(by omega)).hasContents = true ∨ (K.src[j - 1]'(by omega)).cont = true) →
    st.erase = none ∧ st.prevPos = ⟨K.i, if st.prevWasWide then j + 1 else j⟩

theorem inv1_congr (K : Ctx W cb) {j : Nat} {st st' : Row.FmtSt} (h : Inv1 K j st) (ho : st'.out = st.out)
    (hp : st'.prevPos = st.prevPos) (ha : st'.prevAttrs = st.prevAttrs) (he : st'.erase = st.erase) : Inv1 K j st' := by
  refine ⟨?_, ?_⟩
  · have := h.drawn
    have e : esK j st' = esK j st := by simp [esK, he]
    rw [e]; exact drawn_congr K this ho hp ha
  · intro e a h'; rw [he] at h'; exact h.er e a h'

/-- the second half of the per-cell body, from a state in which any finished erase run has been flushed -/
theorem emit_inv (K : Ctx W cb) (hW : WOk W) (hS : SrcOk W K.src) {j : Nat} (hj : j < K.src.length) (w : Bool)
    (hnc : K.src[j].cont = false) {st2 : Row.FmtSt} (hI2 : Inv1 K j st2) (hw2' : st2.prevWasWide = K.src[j].wide)
    (hrow2 : w = true → st2.prevPos.row = K.i)
    (hdisj : st2.erase = none ∨ ∃ e a, st2.erase = some (e, a) ∧ K.src[j].hasContents = false ∧ K.src[j].attrs = a) :
    ∃ st', C03.emit K.src.length K.i w st2 j K.src[j] (!(K.src[j].eq Cell.new)) = .ok st' ∧ J K w (j + 1) st' := by
  have hok := hS.cells_ok _ (List.getElem_mem hj)
  by_cases hd : K.src[j].eq Cell.new = true
  · -- the blank default cell: nothing is written
    have hv : view K.src[j] = blankV := (eq_new_iff _).mp hd
    have hnw : K.src[j].wide = false := (view_plain hv).1
    have hat : K.src[j].attrs = Attrs.default := by
      simp only [view, blankV, blankA, View.mk.injEq] at hv; exact hv.2.2.2.1
    simp only [hd, Bool.not_true, C03.emit, Bool.false_eq_true, ↓reduceIte, pure_eq_ok]
    refine ⟨st2, rfl, ⟨hrow2, ?_, ?_, ?_, ?_, ?_⟩⟩
    rotate_left 4
    · intro _ _ hc
      have := blank_not_occ hv
      simp only [Nat.add_sub_cancel] at hc
      rcases hc with hc | hc
      · rw [this.1] at hc; simp at hc
      · rw [this.2] at hc; simp at hc
    · intro _ _; simp [hw2', hnw]
    · intro h0; omega
    · intro h'; rw [hw2', hnw] at h'; simp at h'
    · intro _
      rcases hdisj with hnone | ⟨e, a, hea, _, haa⟩
      · refine ⟨?_, fun e a h' => by rw [hnone] at h'; simp at h'⟩
        have := hI2.drawn
        simp only [esK, hnone] at this ⊢
        obtain ⟨Ri, hem, hl⟩ := this
        exact ⟨Ri, hem, hl.skip hj hv⟩
      · obtain ⟨h1, h2, h3, h4⟩ := hI2.er e a hea
        refine ⟨?_, ?_⟩
        · have := hI2.drawn; simp only [esK, hea] at this ⊢; exact this
        · intro e' a' h'
          rw [hea] at h'
          simp only [Option.some.injEq, Prod.mk.injEq] at h'
          obtain ⟨rfl, rfl⟩ := h'
          refine ⟨by omega, h2, h3, ?_⟩
          intro k hk hk1 hk2
          by_cases hkj : k = j
          · subst hkj; rw [hv, ← haa, hat]; rfl
          · exact h4 k hk hk1 (by omega)
  · have hd' : (!(K.src[j].eq Cell.new)) = true := by simpa using hd
    rw [hd']
    by_cases hh : K.src[j].hasContents = true
    · -- text
      have hnone : st2.erase = none := by
        rcases hdisj with h1 | ⟨_, _, _, h2, _⟩
        · exact h1
        · rw [hh] at h2; simp at h2
      have hdj : Drawn K j st2 := by have := hI2.drawn; simpa [esK, hnone] using this
      obtain ⟨e3, hd3⟩ := draw_text K hW hS hj hdj hh w hrow2
      refine ⟨_, e3, ⟨fun _ => rfl, ?_, ?_, ?_, ?_, ?_⟩⟩
      rotate_left 4
      · intro _ _ _
        refine ⟨by simpa [afterText] using hnone, ?_⟩
        simp only [afterText, hw2', Cell.isWide]
        by_cases hwd : K.src[j].wide = true <;> simp [hwd]
      · intro _ _; simp [afterText, hw2']
      · intro h0; omega
      · intro h'
        have hwide : K.src[j].wide = true := by simpa [afterText, hw2'] using h'
        refine ⟨by simpa [afterText] using hnone, ?_⟩
        simpa [hwide] using hd3
      · intro h'
        have hwide : K.src[j].wide = false := by simpa [afterText, hw2'] using h'
        refine ⟨?_, fun e a h'' => by simp [afterText, hnone] at h''⟩
        have : esK (j + 1) (afterText K.i j st2 K.src[j]) = j + 1 := by simp [esK, afterText, hnone]
        rw [this]
        simpa [hwide] using hd3
    · -- a blank cell with attributes: an erase run starts or goes on
      have hh' : K.src[j].hasContents = false := by simpa using hh
      have hbv := hS.blank_view j hj hh'
      rw [hnc] at hbv
      have hnw : K.src[j].wide = false := by
        simp only [view, View.mk.injEq] at hbv; exact hbv.2.1
      simp only [C03.emit, ↓reduceIte, hh', Bool.false_eq_true]
      rcases hdisj with hnone | ⟨e, a, hea, _, haa⟩
      · simp only [hnone, Option.isNone_none, ↓reduceIte, pure_eq_ok]
        have hdj : Drawn K j st2 := by have := hI2.drawn; simpa [esK, hnone] using this
        refine ⟨_, rfl, ⟨fun hw => hrow2 hw, ?_, ?_, ?_, ?_, ?_⟩⟩
        rotate_left 4
        · intro _ _ hc
          simp only [Nat.add_sub_cancel] at hc
          rcases hc with hc | hc
          · rw [hh'] at hc; simp at hc
          · rw [hnc] at hc; simp at hc
        · intro _ _; simp [hw2', hnw]
        · intro h0; omega
        · intro h'; simp only at h'; rw [hw2', hnw] at h'; simp at h'
        · intro _
          refine ⟨?_, ?_⟩
          · simp only [esK]; exact drawn_congr K hdj rfl rfl rfl
          · intro e' a' h'
            simp only [Option.some.injEq, Prod.mk.injEq] at h'
            obtain ⟨rfl, rfl⟩ := h'
            refine ⟨by omega, hj, hS.wf j hj, ?_⟩
            intro k hk hk1 hk2
            have : k = j := by omega
            subst this
            rw [hbv]; rfl
      · simp only [hea, Option.isNone_some, Bool.false_eq_true, ↓reduceIte, pure_eq_ok]
        obtain ⟨h1, h2, h3, h4⟩ := hI2.er e a hea
        refine ⟨st2, rfl, ⟨hrow2, ?_, ?_, ?_, ?_, ?_⟩⟩
        rotate_left 4
        · intro _ _ hc
          simp only [Nat.add_sub_cancel] at hc
          rcases hc with hc | hc
          · rw [hh'] at hc; simp at hc
          · rw [hnc] at hc; simp at hc
        · intro _ _; simp [hw2', hnw]
        · intro h0; omega
        · intro h'; rw [hw2', hnw] at h'; simp at h'
        · intro _
          refine ⟨?_, ?_⟩
          · have := hI2.drawn; simp only [esK, hea] at this ⊢; exact this
          · intro e' a' h'
            rw [hea] at h'
            simp only [Option.some.injEq, Prod.mk.injEq] at h'
            obtain ⟨rfl, rfl⟩ := h'
            refine ⟨by omega, h2, h3, ?_⟩
            intro k hk hk1 hk2
            by_cases hkj : k = j
            · subst hkj; rw [hbv, haa]; rfl
            · exact h4 k hk hk1 (by omega)


/-- **one cell of the loop** -/
theorem fmtStep_inv (K : Ctx W cb) (hW : WOk W) (hS : SrcOk W K.src) {j : Nat} (hj : j < K.src.length)
    {st : Row.FmtSt} (w : Bool) (h : J K w j st) :
    ∃ st', Row.fmtStep K.src.length K.i w st (j, K.src[j]) = .ok st' ∧ J K w (j + 1) st' := by
  have hok := hS.cells_ok _ (List.getElem_mem hj)
  unfold Row.fmtStep
  simp only
  by_cases hpw : st.prevWasWide = true
  · -- the second half of a wide character: skipped
    simp only [hpw, ↓reduceIte]
    obtain ⟨he, hd⟩ := h.A hpw
    have hj0 : 0 < j := by
      rcases Nat.eq_zero_or_pos j with h0 | h0
      · have := h.w0 h0; rw [hpw] at this; simp at this
      · exact h0
    have hprev := h.ww hj0 (Nat.le_of_lt hj)
    have hcont : K.src[j].cont = true := by
      rw [hS.cont_iff j hj, if_neg (by omega), ← hprev, hpw]
    have hnw : K.src[j].wide = false := (cellOk_cont W _ hok hcont).1
    refine ⟨_, rfl, ⟨fun hw => h.prow hw, ?_, ?_, ?_, ?_, ?_⟩⟩
    rotate_left 4
    · intro _ _ _
      have hwprev : K.src[j - 1].wide = true := by rw [← hprev]; exact hpw
      have := h.pp hj0 (Nat.le_of_lt hj) (Or.inl (wide_has_contents (hS.cells_ok _ (List.getElem_mem (by omega))) hwprev))
      refine ⟨he, ?_⟩
      rw [this.2, hpw]; simp
    · intro _ _; simp [hnw]
    · intro h0; omega
    · intro h'; simp at h'
    · intro _
      refine ⟨?_, ?_⟩
      · simp only [esK, he]; exact drawn_congr K hd rfl rfl rfl
      · intro e a h'; simp only at h'; rw [he] at h'; simp at h'
  · have hpw' : st.prevWasWide = false := by simpa using hpw
    simp only [hpw', Bool.false_eq_true, ↓reduceIte]
    have hnc : K.src[j].cont = false := by
      rw [hS.cont_iff j hj]
      by_cases h0 : j = 0
      · simp [h0]
      · rw [if_neg h0, ← h.ww (by omega) (Nat.le_of_lt hj)]; exact hpw'
    have hB := h.B hpw'
    rw [C03.fmtCellStep_eq]
    have hB1 : Inv1 K j { st with prevWasWide := K.src[j].isWide } := inv1_congr K hB rfl rfl rfl rfl
    obtain ⟨st2, e2, hI2, hw2, hrow2, hdisj⟩ := flush_inv K hj hB1 w (fun hw => h.prow hw)
    rw [e2]
    simp only [ok_bind]
    have hw2' : st2.prevWasWide = K.src[j].wide := hw2
    exact emit_inv K hW hS hj w hnc hI2 hw2' hrow2 hdisj

/-- the loop over the cells `j, j+1, …` of the line -/
theorem fold_inv (K : Ctx W cb) (hW : WOk W) (hS : SrcOk W K.src) (w : Bool) : ∀ (cs : List Cell) (j : Nat) (st : Row.FmtSt),
    K.src.drop j = cs → j ≤ K.src.length → J K w j st →
    ∃ st', (C14.enumFrom j cs).foldlM (Row.fmtStep K.src.length K.i w) st = .ok st' ∧ J K w K.src.length st'
  | [], j, st, hcs, hjl, h => by
    have : j = K.src.length := by
      have := congrArg List.length hcs
      simp only [List.length_drop, List.length_nil] at this
      omega
    subst this
    exact ⟨st, rfl, h⟩
  | c :: cs, j, st, hcs, hjl, h => by
    have hj : j < K.src.length := by
      have := congrArg List.length hcs
      simp only [List.length_drop, List.length_cons] at this
      omega
    have hc : K.src[j] = c := by
      have := congrArg (fun l => l[0]?) hcs
      simp only [List.getElem?_drop, Nat.add_zero, List.getElem?_eq_getElem hj, List.getElem?_cons_zero,
        Option.some.injEq] at this
      exact this
    have hcs' : K.src.drop (j + 1) = cs := by
      have := congrArg List.tail hcs
      simpa [List.tail_drop] using this
    obtain ⟨st1, e1, h1⟩ := fmtStep_inv K hW hS hj w h
    obtain ⟨st', e2, h2⟩ := fold_inv K hW hS w cs (j + 1) st1 hcs' (by omega) h1
    refine ⟨st', ?_, h2⟩
    have : C14.enumFrom j (c :: cs) = (j, c) :: C14.enumFrom (j + 1) cs := by
      simp [C14.enumFrom, List.zipIdx_cons]
    rw [this, List.foldlM_cons, ← hc, e1]
    exact e2

/-- the end of the line: a pending erase run becomes an EL -/
theorem finish_drawn (K : Ctx W cb) (hS : SrcOk W K.src) (hne : 0 < K.src.length) {st : Row.FmtSt} (w : Bool)
    (h : J K w K.src.length st) : Drawn K K.src.length (Row.fmtFinish K.src.length K.i w st) := by
  have hpw : st.prevWasWide = false := by
    by_cases hp : st.prevWasWide = true
    · have := h.ww hne (Nat.le_refl _)
      rw [hp] at this
      obtain ⟨hj', _⟩ := hS.wide_next (K.src.length - 1) (by omega) this.symm
      omega
    · simpa using hp
  have hB := h.B hpw
  unfold Row.fmtFinish
  cases he : st.erase with
  | none =>
    have := hB.drawn
    simpa [esK, he] using this
  | some pa =>
    obtain ⟨e, a⟩ := pa
    obtain ⟨hej, hel, hwf, hvs⟩ := hB.er e a he
    have hd : Drawn K e st := by have := hB.drawn; simpa [esK, he] using this
    obtain ⟨hd', hp', ha', _, _⟩ := eraseMove_drawn K hd (Nat.le_of_lt hel) e a hel hwf w h.prow
    obtain ⟨Ri, hem, hline⟩ := hd'
    rw [hp', ha'] at hem
    obtain ⟨Ri', e1, hline'⟩ := shape_el K.canvas K.hi K.hsrc hline a (Nat.le_of_lt hel)
      (fun k hk h1 => hvs k hk h1 hk)
    have := emitted_step W cb K.ready hem (step_clearRowForward W cb)
      (r' := shape K.r0 K.i Ri' ⟨K.i, e⟩ a) (by
        have : (shape K.r0 K.i Ri ⟨K.i, e⟩ a).pen = a := rfl
        rw [this, e1]; rfl)
    refine ⟨Ri', ?_, hline'⟩
    simp only [hp', ha']
    exact this

/-- where the emitter's cursor ends when the last column of the line is occupied: past the last column -/
theorem finish_pos (K : Ctx W cb) (hS : SrcOk W K.src) (hne : 0 < K.src.length) {st : Row.FmtSt} (w : Bool)
    (h : J K w K.src.length st)
    (hocc : (K.src[K.src.length - 1]'(by omega)).hasContents = true ∨ (K.src[K.src.length - 1]'(by omega)).cont = true) :
    (Row.fmtFinish K.src.length K.i w st).prevPos = ⟨K.i, K.src.length⟩ := by
  have hpw : st.prevWasWide = false := by
    by_cases hp : st.prevWasWide = true
    · have := h.ww hne (Nat.le_refl _)
      rw [hp] at this
      obtain ⟨hj', _⟩ := hS.wide_next (K.src.length - 1) (by omega) this.symm
      omega
    · simpa using hp
  obtain ⟨he, hp⟩ := h.pp hne (Nat.le_refl _) hocc
  simp only [Row.fmtFinish, he, hp, hpw, Bool.false_eq_true, ↓reduceIte]

/-- a line that shows all of the source: cell for cell the same view -/
theorem Line.full {src : List Cell} {Ri : Row} (h : Line src src.length Ri) :
    Ri.cells.map view = src.map view ∧ Ri.wrapped = false := by
  refine ⟨?_, h.unwrapped⟩
  rw [h.views]; simp

theorem shape_self (r0 : RS) (i : Nat) (Ri : Row) (h : r0.g.rows[i]? = some Ri) : shape r0 i Ri r0.g.pos r0.pen = r0 := by
  obtain ⟨g, pen, saved⟩ := r0
  simp only [shape, RS.mk.injEq, and_true]
  have : g.rows.set i Ri = g.rows := by
    apply List.ext_getElem?; intro k
    by_cases hk : i = k
    · subst hk
      have hl := getElem?_lt h
      rw [List.getElem?_set_self hl]; exact h.symm
    · simp [hk]
  simp only at h this ⊢
  rw [this]

/-- the last column of the line holds something: text, or the second half of a wide character -/
def lastOcc (cells : List Cell) : Prop :=
  ∃ (h : 0 < cells.length), (cells[cells.length - 1]'(by omega)).hasContents = true ∨
    (cells[cells.length - 1]'(by omega)).cont = true

/-- the emitter state at the start of a line that is not wrapped onto -/
def start (pp : Pos) (pa : Attrs) : Row.FmtSt :=
  { prevWasWide := false, prevPos := pp, prevAttrs := pa, erase := none, out := [] }

/-- **one line of a redraw, no wrap-through** (`wrapping = false`, full width): processing the bytes of
`write_contents_formatted` on a receiver whose line `i` is blank makes line `i` show the source line cell for
cell; cursor and pen end at the `prev_pos` / `prev_attrs` the emitter returns; every other line, the region,
the scrollback, the saved cursor — everything else — is as before -/
theorem row_formatted_draws (hW : WOk W) (p0 : Parser) (hr : Ready p0) (hcv : Canvas (rsOf p0.ws).g)
    (i : Nat) (hi : i < (rsOf p0.ws).g.size.rows) (sr : Row) (hlen : sr.cells.length = (rsOf p0.ws).g.size.cols)
    (hS : SrcOk W sr.cells) (Ri0 : Row) (hrow : (rsOf p0.ws).g.rows[i]? = some Ri0) (hblank : Line sr.cells 0 Ri0) :
    ∃ out np na, sr.writeContentsFormatted 0 sr.cells.length i false
        (some (rsOf p0.ws).g.pos) (some (rsOf p0.ws).pen) = .ok (out, np, na) ∧
      (∃ Ri, Emitted W cb p0 out (shape (rsOf p0.ws) i Ri np na) ∧ Line sr.cells sr.cells.length Ri) ∧
      (lastOcc sr.cells → np = ⟨i, sr.cells.length⟩) := by
  let K : Ctx W cb := ⟨p0, hr, rsOf p0.ws, hcv, i, hi, sr.cells, hlen⟩
  have hne : 0 < sr.cells.length := by rw [hlen]; exact hcv.cols_pos
  have hJ0 : J K false 0 (start (rsOf p0.ws).g.pos (rsOf p0.ws).pen) := by
    refine ⟨fun h => by simp at h, fun h => absurd h (Nat.lt_irrefl 0), fun _ => rfl, fun h => by simp [start] at h, fun _ => ⟨?_, ?_⟩,
      fun h => absurd h (Nat.lt_irrefl 0)⟩
    · refine ⟨Ri0, ?_, hblank⟩
      show Emitted W cb p0 [] (shape (rsOf p0.ws) i Ri0 (rsOf p0.ws).g.pos (rsOf p0.ws).pen)
      rw [shape_self _ _ _ hrow]
      exact emitted_nil W cb p0 hr
    · intro e a h; simp [start] at h
  obtain ⟨st', e, hJ⟩ := fold_inv K hW hS false sr.cells 0 _ (by rfl) (Nat.zero_le _) hJ0
  have hfin := finish_drawn K hS hne false hJ
  unfold Row.writeContentsFormatted
  simp only [pure_bind', Option.getD_some, Bool.false_and, Bool.false_eq_true, ↓reduceIte]
  have hwin : Row.window sr.cells 0 sr.cells.length = C14.enumFrom 0 sr.cells := by
    rw [C03.window_eq, C14.windowFrom_eq]; simp
  rw [hwin]
  have e' : (C14.enumFrom 0 sr.cells).foldlM (Row.fmtStep sr.cells.length i false)
      (start (rsOf p0.ws).g.pos (rsOf p0.ws).pen) = .ok st' := e
  simp only [start] at e'
  simp only [Row.cols, e', ok_bind, pure_eq_ok]
  exact ⟨_, _, _, rfl, hfin, fun ⟨_, ho⟩ => finish_pos K hS hne false hJ ho⟩

/-! ### wrap-through: the line above is wrapped onto this one -/

/-- what is known when line `i - 1` is wrapped: it exists on the receiver and its last column is occupied -/
structure WCtx (K : Ctx W cb) where
  hi1 : 1 ≤ K.i
  Rp : Row
  hp : K.r0.g.rows[K.i - 1]? = some Rp
  last : Cell
  hlast : Rp.cells[K.r0.g.size.cols - 1]? = some last
  hocc : (last.hasContents || last.cont) = true

/-- the context once the wrap has been recorded on the receiver -/
def Ctx.wrapped (K : Ctx W cb) (X : WCtx K) : Ctx W cb :=
  { p0 := K.p0, ready := K.ready, r0 := wrapBase K.r0 K.i X.Rp, canvas := wrapBase_canvas K.canvas K.i X.hp,
    i := K.i, hi := K.hi, src := K.src, hsrc := K.hsrc }

/-- a space typed at the pending-wrap position of the line above, then BS: the wrap is recorded, the
cursor is at the start of this line, whose first cell holds the space -/
theorem space_bs (K : Ctx W cb) (hW : WOk W) (X : WCtx K) {out : List Nat} {Ri0 : Row} (pen : Attrs)
    (hem : Emitted W cb K.p0 out (shape K.r0 K.i Ri0 ⟨K.i - 1, K.r0.g.size.cols⟩ pen)) (hl : Line K.src 0 Ri0) :
    ∃ Ri1, Emitted W cb K.p0 (out ++ [32] ++ Term.backspace) (shape (K.wrapped X).r0 K.i Ri1 ⟨K.i, 0⟩ pen) ∧
      LineX K.src 0 1 Ri1 := by
  have hne : 0 < K.src.length := by rw [K.hsrc]; exact K.canvas.cols_pos
  have hlen : Ri0.cells.length = K.r0.g.size.cols := by rw [hl.length (Nat.zero_le _), K.hsrc]
  obtain ⟨c0, hc0, hv0, h220⟩ := hl.blank_at (Nat.zero_le _) 0 (Nat.le_refl _) hne
  obtain ⟨hw0, hk0⟩ := view_plain hv0
  have hw32 : (W 32).getD 1 = 1 := by rw [hW.space]; rfl
  have hnc32 : ¬ (W 32 = none ∧ 32 < 256) := by rw [hW.space]; simp
  -- the space
  have hstep := step_text W cb [32] (by decide) (by
    intro c hc
    have : c = 32 := by simpa [Utf8.fromUtf8, Utf8.Res.cons] using hc
    subst this
    exact ⟨by omega, by omega, by omega⟩) (by decide)
  have hchars : (Utf8.fromUtf8 [32]).chars = [32] := by decide
  rw [hchars] at hstep
  have hwrap := typeChars_wraps W K.canvas X.hi1 K.hi hlen X.hp X.hlast X.hocc pen 32 []
    (by omega) (by have := K.canvas.cols_pos; omega) hnc32
  have hrow' := shape_row (K.wrapped X).canvas K.hi Ri0 ⟨K.i, 0⟩ pen
  obtain ⟨cellF, e, v, k⟩ := type_cell_narrow W (g := (shape (K.wrapped X).r0 K.i Ri0 ⟨K.i, 0⟩ pen).g)
    (by simp only [shape]; exact K.canvas.cols_u16) pen 32 [] Ri0 c0 hw32 hnc32 (by simp)
    (by simp only [shape]; have := K.canvas.cols_pos; exact this) hrow' (by simpa [shape] using hc0) hw0 hk0 h220 trivial
  have h1 := emitted_step W cb K.ready hem hstep
    (r' := shape (K.wrapped X).r0 K.i { Ri0 with cells := Ri0.cells.set 0 cellF } ⟨K.i, 1⟩ pen) (by
      have : (shape K.r0 K.i Ri0 ⟨K.i - 1, K.r0.g.size.cols⟩ pen).pen = pen := rfl
      rw [this, hwrap]
      have e' : typeChars W pen [32] (shape (wrapBase K.r0 K.i X.Rp) K.i Ri0 ⟨K.i, 0⟩ pen).g = _ := e
      rw [e']
      simp [typed, shape, List.set_set, Ctx.wrapped, wrapBase])
  have h2 := emitted_step W cb K.ready h1 (step_backspace W cb)
    (r' := shape (K.wrapped X).r0 K.i { Ri0 with cells := Ri0.cells.set 0 cellF } ⟨K.i, 0⟩ pen) (by
      simp [shape, Grid.colDec])
  refine ⟨_, h2, ?_⟩
  have hpl : cellF.wide = false ∧ cellF.cont = false := by
    simp only [view, typedView, View.mk.injEq] at v
    refine ⟨by rw [v.2.1, hw32]; rfl, v.2.2.1⟩
  refine ⟨hl.unwrapped, ?_, by simp [hl.length (Nat.zero_le _)], fun k _ h0 => by omega, ?_, ?_⟩
  · intro c hc
    rcases List.mem_or_eq_of_mem_set hc with hc | rfl
    · exact hl.len22 c hc
    · exact k
  · intro k _ hk1
    have : k = 0 := by omega
    subst this
    have h0l : 0 < Ri0.cells.length := by rw [hlen]; exact K.canvas.cols_pos
    simp [List.getElem?_set, h0l, hpl.1, hpl.2]
  · intro k hk1 hkl
    have := (hl.toX (Nat.zero_le _)).blank k (Nat.zero_le _) hkl
    simp only [List.map_set, List.getElem?_set]
    rw [if_neg (by omega)]
    exact this

/-- the wrap-forcing variant of the emitter's move: a space and a BS instead of a cursor move -/
theorem eraseMove_wrap (K : Ctx W cb) (hW : WOk W) (X : WCtx K) {st : Row.FmtSt} {Ri0 : Row}
    (hpos : st.prevPos = ⟨K.i - 1, K.r0.g.size.cols⟩)
    (hem : Emitted W cb K.p0 st.out (shape K.r0 K.i Ri0 st.prevPos st.prevAttrs)) (hl : Line K.src 0 Ri0)
    (a : Attrs) (hwf : Attrs.wf a) :
    let st' := Row.eraseMove K.src.length K.i true st 0 a
    st'.prevPos = ⟨K.i, 0⟩ ∧ st'.prevAttrs = a ∧ st'.erase = st.erase ∧ st'.prevWasWide = st.prevWasWide ∧
      ∃ Ri1, Emitted W cb K.p0 st'.out (shape (K.wrapped X).r0 K.i Ri1 ⟨K.i, 0⟩ a) ∧ LineX K.src 0 1 Ri1 := by
  have hcw : (true && st.prevPos.row + 1 == ({ row := K.i, col := 0 } : Pos).row &&
      decide (st.prevPos.col ≥ K.src.length)) = true := by
    have := X.hi1
    simp [hpos, K.hsrc]; omega
  rw [hpos] at hem
  obtain ⟨Ri1, h1, hx⟩ := space_bs K hW X st.prevAttrs hem hl
  simp only [Row.eraseMove, hcw, ↓reduceIte, Nat.lt_irrefl, gt_iff_lt]
  by_cases hp : (st.prevAttrs != a) = true
  · simp only [hp, ↓reduceIte]
    have h2 := emitted_step W cb K.ready h1 (step_pen W cb a st.prevAttrs hwf)
      (r' := shape (K.wrapped X).r0 K.i Ri1 ⟨K.i, 0⟩ a) (by simp [shape])
    exact ⟨(by first | rfl | trivial), (by first | rfl | trivial), (by first | rfl | trivial), (by first | rfl | trivial),
      Ri1, by simpa [List.append_assoc] using h2, hx⟩
  · have hpa : st.prevAttrs = a := by simpa using hp
    simp only [hp, Bool.false_eq_true, ↓reduceIte, List.append_nil]
    exact ⟨(by first | rfl | trivial), (by first | exact hpa | trivial), (by first | rfl | trivial),
      (by first | rfl | trivial), Ri1, by rw [hpa] at h1; simpa [List.append_assoc] using h1, hx⟩

/-- nothing has been written for this line yet: the receiver's cursor still sits at the pending-wrap
position of the line above; at most an erase run starting in column 0 is being collected -/
structure Pend (K : Ctx W cb) (pa : Attrs) (j : Nat) (st : Row.FmtSt) : Prop where
  out : st.out = []
  pos : st.prevPos = ⟨K.i - 1, K.r0.g.size.cols⟩
  pen : st.prevAttrs = pa
  pww : st.prevWasWide = false
  er : (j = 0 ∧ st.erase = none) ∨
    (∃ a, st.erase = some (0, a) ∧ 1 ≤ j ∧ Attrs.wf a ∧ ∀ k (hk : k < K.src.length), k < j → view K.src[k] = blankA a)

/-- the emitter state after the first cell of a wrapped-onto line when that cell holds text: no move -/
def afterTextW (i : Nat) (st : Row.FmtSt) (c : Cell) : Row.FmtSt :=
  { prevWasWide := st.prevWasWide
    prevPos := ⟨i, 0 + (if c.isWide then 2 else 1)⟩
    prevAttrs := c.attrs
    erase := st.erase
    out := (st.out ++ (if (st.prevAttrs != c.attrs) = true then c.attrs.writeEscapeCodeDiff st.prevAttrs else [])) ++
           c.contents.take c.len }

theorem emit_text_wrap_eq (n i : Nat) (st : Row.FmtSt) (c : Cell) (hh : c.hasContents = true) (hf : CellFine c)
    (hi1 : 1 ≤ i) (hpos : st.prevPos = ⟨i - 1, n⟩) :
    C03.emit n i true st 0 c true = .ok (afterTextW i st c) := by
  unfold C03.emit
  have hne : (({ row := i, col := 0 } : Pos) != st.prevPos) = true := by
    rw [hpos]; simp; omega
  have hmv : (!true || st.prevPos.row + 1 != ({ row := i, col := 0 } : Pos).row ||
      decide (st.prevPos.col < n - if c.isWide = true then 1 else 0) ||
      ({ row := i, col := 0 } : Pos).col != 0) = false := by
    rw [hpos]; simp; omega
  simp only [↓reduceIte, hh, contentsBytes_ok hf, hne, hmv, Bool.false_eq_true, List.append_nil]
  by_cases h2 : (st.prevAttrs != c.attrs) = true
  · simp [afterTextW, h2]
  · have : st.prevAttrs = c.attrs := by simpa using h2
    simp [afterTextW, h2, this]

/-- the first cell of a wrapped-onto line holds text: pen change, then the text — typed at the pending-wrap
position of the line above, so that the receiver records the wrap -/
theorem draw_text_wrap (K : Ctx W cb) (hW : WOk W) (hS : SrcOk W K.src) (X : WCtx K) (hne : 0 < K.src.length)
    {st : Row.FmtSt} {Ri0 : Row} (hpos : st.prevPos = ⟨K.i - 1, K.r0.g.size.cols⟩)
    (hem : Emitted W cb K.p0 st.out (shape K.r0 K.i Ri0 st.prevPos st.prevAttrs)) (hl : Line K.src 0 Ri0)
    (hh : K.src[0].hasContents = true) :
    C03.emit K.src.length K.i true st 0 K.src[0] true = .ok (afterTextW K.i st K.src[0]) ∧
      Drawn (K.wrapped X) (0 + (if K.src[0].wide then 2 else 1)) (afterTextW K.i st K.src[0]) := by
  have hok := hS.cells_ok _ (List.getElem_mem hne)
  obtain ⟨f, zs, ht⟩ := textCell_of hW hok (hS.emit_ok 0 hne) hh
  have hfine : CellFine K.src[0] := cellFine_of_ok hok
  refine ⟨emit_text_wrap_eq _ _ _ _ hh hfine X.hi1 (by rw [hpos, K.hsrc]), ?_⟩
  have hlen : Ri0.cells.length = K.r0.g.size.cols := by rw [hl.length (Nat.zero_le _), K.hsrc]
  rw [hpos] at hem
  -- the pen
  have h2 : Emitted W cb K.p0 (st.out ++
        (if (st.prevAttrs != K.src[0].attrs) = true then K.src[0].attrs.writeEscapeCodeDiff st.prevAttrs else []))
      (shape K.r0 K.i Ri0 ⟨K.i - 1, K.r0.g.size.cols⟩ K.src[0].attrs) := by
    by_cases hp : (st.prevAttrs != K.src[0].attrs) = true
    · simp only [hp, ↓reduceIte]
      exact emitted_step W cb K.ready hem (step_pen W cb K.src[0].attrs st.prevAttrs (hS.wf 0 hne))
        (r' := shape K.r0 K.i Ri0 ⟨K.i - 1, K.r0.g.size.cols⟩ K.src[0].attrs) (by simp [shape])
    · have hpa : st.prevAttrs = K.src[0].attrs := by simpa using hp
      simp only [hp, Bool.false_eq_true, ↓reduceIte, List.append_nil]
      rw [← hpa]; exact hem
  -- the text, typed at the pending-wrap position
  have hstep := step_text W cb (K.src[0].contents.take K.src[0].len) ht.valid
    (by rw [ht.chars]; exact ht.plain) ht.noesc
  rw [ht.chars] at hstep
  have hfit : min ((W f).getD 1) 2 ≤ K.r0.g.size.cols := by have := ht.fits; rw [K.hsrc] at this; omega
  have hwrap := typeChars_wraps W K.canvas X.hi1 K.hi hlen X.hp X.hlast X.hocc K.src[0].attrs f zs ht.width hfit ht.first
  have hlK : Line (K.wrapped X).src 0 Ri0 := hl
  by_cases hwide : K.src[0].wide = true
  · have hw2 : 2 ≤ (W f).getD 1 := by
      have := ht.wide; rw [hwide] at this
      have h' : 1 < (W f).getD 1 := by simpa using this.symm
      omega
    obtain ⟨hj1, hc1⟩ := hS.wide_next 0 hne hwide
    obtain ⟨Ri', e, hline'⟩ := shape_type_wide W (K.wrapped X).canvas K.hi K.hsrc hlK hj1 ht hw2
      (hS.cont_view 1 hj1 hc1)
    have h3 := emitted_step W cb K.ready h2 hstep (r' := shape (K.wrapped X).r0 K.i Ri' ⟨K.i, 0 + 2⟩ K.src[0].attrs) (by
      have : (shape K.r0 K.i Ri0 ⟨K.i - 1, K.r0.g.size.cols⟩ K.src[0].attrs).pen = K.src[0].attrs := rfl
      rw [this, hwrap]
      have e' : typeChars W K.src[0].attrs (f :: zs) (shape (wrapBase K.r0 K.i X.Rp) K.i Ri0 ⟨K.i, 0⟩ K.src[0].attrs).g = _ := e
      rw [e']; rfl)
    simp only [hwide, ↓reduceIte]
    refine ⟨Ri', ?_, hline'⟩
    show Emitted W cb K.p0 (afterTextW K.i st K.src[0]).out (shape (K.wrapped X).r0 K.i Ri'
      (afterTextW K.i st K.src[0]).prevPos (afterTextW K.i st K.src[0]).prevAttrs)
    simpa [afterTextW, Cell.isWide, hwide] using h3
  · have hwide' : K.src[0].wide = false := by simpa using hwide
    have hw1 : (W f).getD 1 = 1 := by
      have := ht.wide; rw [hwide'] at this
      have h' : ¬ 1 < (W f).getD 1 := by simpa using this.symm
      have := ht.width
      omega
    obtain ⟨Ri', e, hline'⟩ := shape_type_narrow W (K.wrapped X).canvas K.hi K.hsrc hlK hne ht hw1
    have h3 := emitted_step W cb K.ready h2 hstep (r' := shape (K.wrapped X).r0 K.i Ri' ⟨K.i, 0 + 1⟩ K.src[0].attrs) (by
      have : (shape K.r0 K.i Ri0 ⟨K.i - 1, K.r0.g.size.cols⟩ K.src[0].attrs).pen = K.src[0].attrs := rfl
      rw [this, hwrap]
      have e' : typeChars W K.src[0].attrs (f :: zs) (shape (wrapBase K.r0 K.i X.Rp) K.i Ri0 ⟨K.i, 0⟩ K.src[0].attrs).g = _ := e
      rw [e']; rfl)
    simp only [hwide', Bool.false_eq_true, ↓reduceIte]
    refine ⟨Ri', ?_, hline'⟩
    show Emitted W cb K.p0 (afterTextW K.i st K.src[0]).out (shape (K.wrapped X).r0 K.i Ri'
      (afterTextW K.i st K.src[0]).prevPos (afterTextW K.i st K.src[0]).prevAttrs)
    simpa [afterTextW, Cell.isWide, hwide'] using h3

/-- the state after an erase run has been flushed with `ECH n` -/
def flushed (st : Row.FmtSt) (n : Nat) : Row.FmtSt :=
  { st with out := st.out ++ Term.eraseChar n, erase := none }

/-- the emitter state while nothing has been written for the wrapped-onto line -/
def pendSt (K : Ctx W cb) (pa : Attrs) (pw : Bool) (er : Option (Nat × Attrs)) : Row.FmtSt :=
  { prevWasWide := pw, prevPos := ⟨K.i - 1, K.r0.g.size.cols⟩, prevAttrs := pa, erase := er, out := [] }

theorem Pend.eq {K : Ctx W cb} {pa : Attrs} {j : Nat} {st : Row.FmtSt} (h : Pend K pa j st) :
    st = pendSt K pa false st.erase := by
  obtain ⟨pw, pp, pat, er, out⟩ := st
  have h1 := h.out; have h2 := h.pos; have h3 := h.pen; have h4 := h.pww
  simp only at h1 h2 h3 h4
  subst h1 h2 h3 h4
  rfl

/-- **one cell while nothing has been written for the wrapped-onto line yet** -/
theorem pending_step (K : Ctx W cb) (hW : WOk W) (hS : SrcOk W K.src) (X : WCtx K) {pa : Attrs} {Ri0 : Row}
    (hem0 : Emitted W cb K.p0 [] (shape K.r0 K.i Ri0 ⟨K.i - 1, K.r0.g.size.cols⟩ pa)) (hl0 : Line K.src 0 Ri0)
    {j : Nat} (hj : j < K.src.length) {st : Row.FmtSt} (h : Pend K pa j st)
    (hfirst : j = 0 → (K.src[0]'(by omega)).eq Cell.new = false) :
    ∃ st', Row.fmtStep K.src.length K.i true st (j, K.src[j]) = .ok st' ∧
      (Pend K pa (j + 1) st' ∨ J (K.wrapped X) true (j + 1) st') := by
  have hne : 0 < K.src.length := by omega
  have hok := hS.cells_ok _ (List.getElem_mem hj)
  have her := h.er
  rw [h.eq] at her ⊢
  generalize st.erase = er at her
  clear h st
  have hemP : ∀ pw er, Emitted W cb K.p0 (pendSt K pa pw er).out
      (shape K.r0 K.i Ri0 (pendSt K pa pw er).prevPos (pendSt K pa pw er).prevAttrs) := fun _ _ => hem0
  unfold Row.fmtStep
  simp only [pendSt, Bool.false_eq_true, ↓reduceIte]
  rw [C03.fmtCellStep_eq]
  rcases her with ⟨hj0, hnone⟩ | ⟨a, hea, hj1, hwf, hvs⟩
  · -- column 0, nothing pending
    subst hj0
    simp only [pendSt] at hnone
    subst hnone
    have hd : (!(K.src[0].eq Cell.new)) = true := by simp [hfirst rfl]
    simp only [C03.flush, pure_bind', ok_bind, hd]
    by_cases hh : K.src[0].hasContents = true
    · obtain ⟨e3, hd3⟩ := draw_text_wrap K hW hS X hne (st := pendSt K pa K.src[0].isWide none)
        rfl (hemP _ _) hl0 hh
      refine ⟨_, e3, Or.inr ⟨fun _ => rfl, ?_, fun h0 => by omega, ?_, ?_, ?_⟩⟩
      rotate_left 3
      · intro _ _ _
        refine ⟨by simp [afterTextW, pendSt], ?_⟩
        simp only [afterTextW, pendSt, Cell.isWide]
        by_cases hwd : K.src[0].wide = true <;> simp [hwd] <;> exact ⟨rfl, rfl⟩
      · intro _ _; simp [afterTextW, pendSt, Cell.isWide]; rfl
      · intro h'
        have hwide : K.src[0].wide = true := by simpa [afterTextW, pendSt, Cell.isWide] using h'
        refine ⟨by simp [afterTextW, pendSt], ?_⟩
        have := hd3; simp only [hwide, ↓reduceIte] at this
        simpa using this
      · intro h'
        have hwide : K.src[0].wide = false := by simpa [afterTextW, pendSt, Cell.isWide] using h'
        refine ⟨?_, fun e a h'' => by simp [afterTextW, pendSt] at h''⟩
        have he : esK (0 + 1) (afterTextW K.i (pendSt K pa K.src[0].isWide none) K.src[0]) = 0 + 1 := by
          simp [esK, afterTextW, pendSt]
        rw [he]
        have := hd3; simp only [hwide, Bool.false_eq_true, ↓reduceIte] at this
        exact this
    · have hh' : K.src[0].hasContents = false := by simpa using hh
      have hnc : K.src[0].cont = false := by rw [hS.cont_iff 0 hne]; simp
      have hbv := hS.blank_view 0 hne hh'
      rw [hnc] at hbv
      have hnw : K.src[0].wide = false := by simp only [view, View.mk.injEq] at hbv; exact hbv.2.1
      simp only [C03.emit, ↓reduceIte, hh', Bool.false_eq_true, Option.isNone_none, pure_eq_ok]
      refine ⟨_, rfl, Or.inl ⟨rfl, rfl, rfl, by simp [Cell.isWide, hnw], Or.inr ⟨K.src[0].attrs, rfl, by omega, hS.wf 0 hne, ?_⟩⟩⟩
      intro k hk hk1
      have : k = 0 := by omega
      subst this
      rw [hbv]; rfl
  · -- an erase run from column 0 is being collected
    simp only [pendSt] at hea
    subst hea
    have hnc : K.src[j].cont = false := by
      rw [hS.cont_iff j hj, if_neg (by omega)]
      have := hvs (j - 1) (by omega) (by omega)
      simp only [view, blankA, View.mk.injEq] at this
      exact this.2.1
    by_cases hcond : (K.src[j].hasContents || K.src[j].attrs != a) = true
    · -- the run ends here: space, BS, pen, ECH — and from now on the line is started
      obtain ⟨hp', ha', he', hw', Ri1, hem1, hx1⟩ := eraseMove_wrap K hW X (st := pendSt K pa K.src[j].isWide (some (0, a)))
        rfl (hemP _ _) hl0 a hwf
      simp only [pendSt] at hp' ha' he' hw' hem1
      simp only [C03.flush, hcond, ↓reduceIte, subM_ok (Nat.zero_le _), pure_bind', ok_bind, Nat.sub_zero]
      have hu := K.canvas.cols_u16
      obtain ⟨Ri', e1, hline'⟩ := shape_eraseX (K.wrapped X).canvas K.hi hx1 j a (Nat.zero_le _) hj1 (Nat.le_of_lt hj)
        (fun k hk _ h2 => hvs k hk h2)
      have hmin : min (satAddU16 0 j) K.r0.g.size.cols = j := by
        simp only [satAddU16, U16_MAX]; rw [← K.hsrc]; rw [← K.hsrc] at hu; omega
      have hech := emitted_step W cb K.ready hem1 (step_eraseChar W cb j (by rw [← K.hsrc] at hu; omega))
        (r' := shape (K.wrapped X).r0 K.i Ri' ⟨K.i, 0⟩ a) (by
          simp only [show ¬ j = 0 by omega, ↓reduceIte]
          have hpen : (shape (K.wrapped X).r0 K.i Ri1 ⟨K.i, 0⟩ a).pen = a := rfl
          rw [hpen]
          unfold Grid.eraseCells
          have hpos : (shape (K.wrapped X).r0 K.i Ri1 ⟨K.i, 0⟩ a).g.pos = ⟨K.i, 0⟩ := rfl
          have hsz : (shape (K.wrapped X).r0 K.i Ri1 ⟨K.i, 0⟩ a).g.size = K.r0.g.size := rfl
          simp only [hpos, hsz, hmin]
          rw [e1]; rfl)
      have hI2 : Inv1 (K.wrapped X) j
          (flushed (Row.eraseMove K.src.length K.i true (pendSt K pa K.src[j].isWide (some (0, a))) 0 a) j) := by
        refine ⟨⟨Ri', ?_, hline'⟩, fun e a h' => by simp [flushed] at h'⟩
        simp only [flushed, pendSt, hp', ha']
        exact hech
      obtain ⟨st3, e3, hJ3⟩ := emit_inv (K.wrapped X) hW hS hj true hnc hI2 (by simp only [flushed, pendSt]; rw [hw']; rfl)
        (fun _ => by simp only [flushed, pendSt, hp']; rfl) (Or.inl rfl)
      exact ⟨st3, e3, Or.inr hJ3⟩
    · -- the run goes on
      simp only [C03.flush, hcond, Bool.false_eq_true, ↓reduceIte, pure_bind', ok_bind]
      simp only [Bool.or_eq_true, bne_iff_ne, ne_eq, not_or, Bool.not_eq_true, Decidable.not_not] at hcond
      have hbv := hS.blank_view j hj hcond.1
      rw [hnc] at hbv
      have hnw : K.src[j].wide = false := by simp only [view, View.mk.injEq] at hbv; exact hbv.2.1
      have hemit : C03.emit K.src.length K.i true (pendSt K pa K.src[j].isWide (some (0, a))) j K.src[j]
          (!(K.src[j].eq Cell.new)) = .ok (pendSt K pa K.src[j].isWide (some (0, a))) := by
        simp only [C03.emit, hcond.1, Bool.false_eq_true, ↓reduceIte, pendSt, Option.isNone_some, pure_eq_ok]
        split <;> rfl
      refine ⟨_, hemit, Or.inl ⟨rfl, rfl, rfl, by simp [pendSt, Cell.isWide, hnw], Or.inr ⟨a, rfl, by omega, hwf, ?_⟩⟩⟩
      intro k hk hk1
      by_cases hkj : k = j
      · subst hkj; rw [hbv, hcond.2]; rfl
      · exact hvs k hk (by omega)

/-- the loop on a wrapped-onto line, as long as nothing has been written -/
theorem pending_fold (K : Ctx W cb) (hW : WOk W) (hS : SrcOk W K.src) (X : WCtx K) {pa : Attrs} {Ri0 : Row}
    (hem0 : Emitted W cb K.p0 [] (shape K.r0 K.i Ri0 ⟨K.i - 1, K.r0.g.size.cols⟩ pa)) (hl0 : Line K.src 0 Ri0)
    (hfirst : ∀ h : 0 < K.src.length, K.src[0].eq Cell.new = false) :
    ∀ (cs : List Cell) (j : Nat) (st : Row.FmtSt), K.src.drop j = cs → j ≤ K.src.length → Pend K pa j st →
    ∃ st', (C14.enumFrom j cs).foldlM (Row.fmtStep K.src.length K.i true) st = .ok st' ∧
      (Pend K pa K.src.length st' ∨ J (K.wrapped X) true K.src.length st')
  | [], j, st, hcs, hjl, h => by
    have : j = K.src.length := by
      have := congrArg List.length hcs
      simp only [List.length_drop, List.length_nil] at this
      omega
    subst this
    exact ⟨st, rfl, Or.inl h⟩
  | c :: cs, j, st, hcs, hjl, h => by
    have hj : j < K.src.length := by
      have := congrArg List.length hcs
      simp only [List.length_drop, List.length_cons] at this
      omega
    have hc : K.src[j] = c := by
      have := congrArg (fun l => l[0]?) hcs
      simp only [List.getElem?_drop, Nat.add_zero, List.getElem?_eq_getElem hj, List.getElem?_cons_zero,
        Option.some.injEq] at this
      exact this
    have hcs' : K.src.drop (j + 1) = cs := by
      have := congrArg List.tail hcs
      simpa [List.tail_drop] using this
    have hen : C14.enumFrom j (c :: cs) = (j, c) :: C14.enumFrom (j + 1) cs := by
      simp [C14.enumFrom, List.zipIdx_cons]
    obtain ⟨st1, e1, h1⟩ := pending_step K hW hS X hem0 hl0 hj h (fun h0 => hfirst (by omega))
    rw [hen, List.foldlM_cons, ← hc, e1]
    simp only [ok_bind]
    rcases h1 with h1 | h1
    · exact pending_fold K hW hS X hem0 hl0 hfirst cs (j + 1) st1 hcs' (by omega) h1
    · obtain ⟨st', e2, h2⟩ := fold_inv (K.wrapped X) hW hS true cs (j + 1) st1 hcs'
        (by show j + 1 ≤ K.src.length; omega) h1
      exact ⟨st', e2, Or.inr h2⟩

/-- the end of a wrapped-onto line for which nothing had been written: the whole line is one erase run -/
theorem finish_pending (K : Ctx W cb) (hW : WOk W) (X : WCtx K) (hne : 0 < K.src.length) {pa : Attrs}
    {Ri0 : Row} (hem0 : Emitted W cb K.p0 [] (shape K.r0 K.i Ri0 ⟨K.i - 1, K.r0.g.size.cols⟩ pa))
    (hl0 : Line K.src 0 Ri0) {st : Row.FmtSt} (h : Pend K pa K.src.length st) :
    Drawn (K.wrapped X) K.src.length (Row.fmtFinish K.src.length K.i true st) := by
  have her := h.er
  rw [h.eq] at her ⊢
  generalize st.erase = er at her
  rcases her with ⟨h0, _⟩ | ⟨a, hea, _, hwf, hvs⟩
  · omega
  · simp only [pendSt] at hea
    subst hea
    obtain ⟨hp', ha', _, _, Ri1, hem1, hx1⟩ := eraseMove_wrap K hW X (st := pendSt K pa false (some (0, a)))
      rfl hem0 hl0 a hwf
    obtain ⟨Ri', e1, hline'⟩ := shape_eraseX (K.wrapped X).canvas K.hi hx1 K.src.length a (Nat.zero_le _) hne
      (Nat.le_refl _) (fun k hk _ h2 => hvs k hk h2)
    have hel := emitted_step W cb K.ready hem1 (step_clearRowForward W cb)
      (r' := shape (K.wrapped X).r0 K.i Ri' ⟨K.i, 0⟩ a) (by
        have hpen : (shape (K.wrapped X).r0 K.i Ri1 ⟨K.i, 0⟩ a).pen = a := rfl
        rw [hpen]
        unfold Grid.eraseRowForward
        have hpos : (shape (K.wrapped X).r0 K.i Ri1 ⟨K.i, 0⟩ a).g.pos = ⟨K.i, 0⟩ := rfl
        have hsz : (shape (K.wrapped X).r0 K.i Ri1 ⟨K.i, 0⟩ a).g.size = K.r0.g.size := rfl
        simp only [hpos, hsz, ← K.hsrc]
        rw [e1]; rfl)
    simp only [Row.fmtFinish, pendSt]
    refine ⟨Ri', ?_, hline'⟩
    simp only [pendSt] at hp' ha' hel
    simp only [hp', ha']
    exact hel

theorem line_unskip {src : List Cell} {Ri : Row} (h : Line src 1 Ri) (hne : 0 < src.length) (hv : view src[0] = blankV) :
    Line src 0 Ri := by
  refine ⟨h.unwrapped, ?_, h.len22⟩
  rw [h.views]
  have : src.take 1 = [src[0]] := by
    cases src with
    | nil => simp at hne
    | cons x xs => simp
  rw [this]
  simp only [List.map_cons, List.map_nil, hv, List.take_zero, List.nil_append, Nat.sub_zero]
  rw [show src.length = (src.length - 1) + 1 by omega, List.replicate_succ]
  simp

theorem wf_default : Attrs.wf Attrs.default := ⟨trivial, trivial⟩

/-- the emitter state after the preamble of a wrapped-onto line whose first cell is the blank default cell -/
def preamble (i : Nat) (pa : Attrs) : Row.FmtSt :=
  { prevWasWide := false
    prevPos := ⟨i, 0⟩
    prevAttrs := Attrs.default
    erase := none
    out := (if (pa != Attrs.default) = true then Attrs.default.writeEscapeCodeDiff pa else []) ++ [32] ++
      Term.backspace ++ Term.eraseChar 1 }

/-- the preamble `[pen := default] SP BS ECH 1`: the wrap is recorded and the line is blank again -/
theorem preamble_inv (K : Ctx W cb) (hW : WOk W) (X : WCtx K) (hne : 0 < K.src.length) {pa : Attrs} {Ri0 : Row}
    (hem0 : Emitted W cb K.p0 [] (shape K.r0 K.i Ri0 ⟨K.i - 1, K.r0.g.size.cols⟩ pa)) (hl0 : Line K.src 0 Ri0)
    (hv0 : view K.src[0] = blankV) : J (K.wrapped X) true 0 (preamble K.i pa) := by
  -- the pen
  have h1 : Emitted W cb K.p0 (if (pa != Attrs.default) = true then Attrs.default.writeEscapeCodeDiff pa else [])
      (shape K.r0 K.i Ri0 ⟨K.i - 1, K.r0.g.size.cols⟩ Attrs.default) := by
    by_cases hp : (pa != Attrs.default) = true
    · simp only [hp, ↓reduceIte]
      have := emitted_step W cb K.ready hem0 (step_pen W cb Attrs.default pa wf_default)
        (r' := shape K.r0 K.i Ri0 ⟨K.i - 1, K.r0.g.size.cols⟩ Attrs.default) (by simp [shape])
      simpa using this
    · have hpa : pa = Attrs.default := by simpa using hp
      simp only [hp, Bool.false_eq_true, ↓reduceIte]
      rw [← hpa]; exact hem0
  obtain ⟨Ri1, h2, hx1⟩ := space_bs K hW X Attrs.default h1 hl0
  obtain ⟨Ri', e1, hline'⟩ := shape_eraseX (K.wrapped X).canvas K.hi hx1 1 Attrs.default (Nat.zero_le _)
    (Nat.le_refl _) hne (fun k hk _ h2 => by
      have : k = 0 := by omega
      subst this
      exact hv0)
  have hu := K.canvas.cols_u16
  have hc1 := K.canvas.cols_pos
  have hmin : min (satAddU16 0 1) K.r0.g.size.cols = 1 := by simp only [satAddU16, U16_MAX]; omega
  have h3 := emitted_step W cb K.ready h2 (step_eraseChar W cb 1 (by omega))
    (r' := shape (K.wrapped X).r0 K.i Ri' ⟨K.i, 0⟩ Attrs.default) (by
      simp only [show ¬ (1 = 0) by omega, ↓reduceIte]
      have hpen : (shape (K.wrapped X).r0 K.i Ri1 ⟨K.i, 0⟩ Attrs.default).pen = Attrs.default := rfl
      rw [hpen]
      unfold Grid.eraseCells
      have hpos : (shape (K.wrapped X).r0 K.i Ri1 ⟨K.i, 0⟩ Attrs.default).g.pos = ⟨K.i, 0⟩ := rfl
      have hsz : (shape (K.wrapped X).r0 K.i Ri1 ⟨K.i, 0⟩ Attrs.default).g.size = K.r0.g.size := rfl
      simp only [hpos, hsz, hmin]
      rw [e1]; rfl)
  refine ⟨fun _ => rfl, fun h => absurd h (Nat.lt_irrefl 0), fun _ => rfl, fun h => by simp [preamble] at h,
    fun _ => ⟨⟨Ri', ?_, line_unskip hline' hne hv0⟩, fun e a h => by simp [preamble] at h⟩,
    fun h => absurd h (Nat.lt_irrefl 0)⟩
  show Emitted W cb K.p0 (preamble K.i pa).out (shape (K.wrapped X).r0 K.i Ri' ⟨K.i, 0⟩ Attrs.default)
  simpa [preamble, List.append_assoc] using h3

/-- `write_contents_formatted` on a wrapped-onto line whose first cell is blank: the preamble, then the loop -/
theorem wcf_preamble (sr : Row) (i : Nat) (pp : Pos) (pa : Attrs) (hfd : sr.firstIsDefault 0 = true) :
    sr.writeContentsFormatted 0 sr.cells.length i true (some pp) (some pa) =
      ((Row.window sr.cells 0 sr.cells.length).foldlM (Row.fmtStep sr.cells.length i true) (preamble i pa) >>=
        fun st => pure ((Row.fmtFinish sr.cells.length i true st).out, (Row.fmtFinish sr.cells.length i true st).prevPos,
          (Row.fmtFinish sr.cells.length i true st).prevAttrs)) := by
  unfold Row.writeContentsFormatted
  simp only [pure_bind', Option.getD_some, Bool.true_and, hfd, ↓reduceIte, Row.cols]
  by_cases hp : (pa != Attrs.default) = true
  · simp [preamble, hp, Cell.new]
  · have : pa = Attrs.default := by simpa using hp
    simp [preamble, this, Cell.new]

/-- … and when its first cell is not blank: the plain start state with the cursor on the line above -/
theorem wcf_pending (sr : Row) (i : Nat) (pp : Pos) (pa : Attrs) (hfd : sr.firstIsDefault 0 = false) :
    sr.writeContentsFormatted 0 sr.cells.length i true (some pp) (some pa) =
      ((Row.window sr.cells 0 sr.cells.length).foldlM (Row.fmtStep sr.cells.length i true) (start pp pa) >>=
        fun st => pure ((Row.fmtFinish sr.cells.length i true st).out, (Row.fmtFinish sr.cells.length i true st).prevPos,
          (Row.fmtFinish sr.cells.length i true st).prevAttrs)) := by
  unfold Row.writeContentsFormatted
  simp only [pure_bind', Option.getD_some, Bool.true_and, hfd, Bool.false_eq_true, ↓reduceIte, Row.cols, start]

/-- **one line of a redraw, wrap-through** (`wrapping = true`): the line above is wrapped, its last column is
occupied and the receiver's cursor sits at its pending-wrap position.  Processing the bytes of
`write_contents_formatted` records the wrap on the line above (its wrap flag becomes true — by the
receiver's own autowrap), makes line `i` show the source line, and changes nothing else. -/
theorem row_formatted_draws_wrap (hW : WOk W) (p0 : Parser) (hr : Ready p0) (hcv : Canvas (rsOf p0.ws).g)
    (i : Nat) (hi1 : 1 ≤ i) (hi : i < (rsOf p0.ws).g.size.rows) (sr : Row)
    (hlen : sr.cells.length = (rsOf p0.ws).g.size.cols) (hS : SrcOk W sr.cells)
    (Ri0 : Row) (hrow : (rsOf p0.ws).g.rows[i]? = some Ri0) (hblank : Line sr.cells 0 Ri0)
    (Rp : Row) (hp : (rsOf p0.ws).g.rows[i - 1]? = some Rp) (last : Cell)
    (hlast : Rp.cells[(rsOf p0.ws).g.size.cols - 1]? = some last) (hocc : (last.hasContents || last.cont) = true)
    (hpos : (rsOf p0.ws).g.pos = ⟨i - 1, (rsOf p0.ws).g.size.cols⟩) :
    ∃ out np na, sr.writeContentsFormatted 0 sr.cells.length i true
        (some (rsOf p0.ws).g.pos) (some (rsOf p0.ws).pen) = .ok (out, np, na) ∧
      (∃ Ri, Emitted W cb p0 out (shape (wrapBase (rsOf p0.ws) i Rp) i Ri np na) ∧ Line sr.cells sr.cells.length Ri) ∧
      (lastOcc sr.cells → np = ⟨i, sr.cells.length⟩) := by
  let K : Ctx W cb := ⟨p0, hr, rsOf p0.ws, hcv, i, hi, sr.cells, hlen⟩
  let X : WCtx K := ⟨hi1, Rp, hp, last, hlast, hocc⟩
  have hne : 0 < sr.cells.length := by rw [hlen]; exact hcv.cols_pos
  have hem0 : Emitted W cb p0 [] (shape (rsOf p0.ws) i Ri0 ⟨i - 1, (rsOf p0.ws).g.size.cols⟩ (rsOf p0.ws).pen) := by
    rw [← hpos, shape_self _ _ _ hrow]
    exact emitted_nil W cb p0 hr
  have hwin : Row.window sr.cells 0 sr.cells.length = C14.enumFrom 0 sr.cells := by
    rw [C03.window_eq, C14.windowFrom_eq]; simp
  by_cases hfd : sr.firstIsDefault 0 = true
  · -- the first cell is the blank default cell: SP BS ECH 1 forces the wrap
    have hv0 : view sr.cells[0] = blankV := by
      simp only [Row.firstIsDefault, List.getElem?_eq_getElem hne] at hfd
      exact (eq_new_iff _).mp hfd
    have hJ0 := preamble_inv K hW X hne hem0 hblank hv0
    obtain ⟨st', e, hJ⟩ := fold_inv (K.wrapped X) hW hS true sr.cells 0 _ (by rfl) (Nat.zero_le _) hJ0
    have hfin := finish_drawn (K.wrapped X) hS hne true hJ
    have e' : (C14.enumFrom 0 sr.cells).foldlM (Row.fmtStep sr.cells.length i true) (preamble i (rsOf p0.ws).pen)
        = .ok st' := e
    rw [wcf_preamble sr i _ _ hfd, hwin, e']
    simp only [ok_bind, pure_eq_ok]
    exact ⟨_, _, _, rfl, hfin, fun ⟨_, ho⟩ => finish_pos (K.wrapped X) hS hne true hJ ho⟩
  · -- otherwise the first thing written on this line forces it
    have hfd' : sr.firstIsDefault 0 = false := by simpa using hfd
    have hfirst : ∀ h : 0 < sr.cells.length, sr.cells[0].eq Cell.new = false := by
      intro h
      simpa [Row.firstIsDefault, List.getElem?_eq_getElem h] using hfd'
    have hP0 : Pend K (rsOf p0.ws).pen 0 (pendSt K (rsOf p0.ws).pen false none) :=
      ⟨rfl, rfl, rfl, rfl, Or.inl ⟨rfl, rfl⟩⟩
    obtain ⟨st', e, hend⟩ := pending_fold K hW hS X hem0 hblank hfirst sr.cells 0 _ (by rfl) (Nat.zero_le _) hP0
    have hfin : Drawn (K.wrapped X) sr.cells.length (Row.fmtFinish sr.cells.length i true st') ∧
        (lastOcc sr.cells → (Row.fmtFinish sr.cells.length i true st').prevPos = ⟨i, sr.cells.length⟩) := by
      rcases hend with hP | hJ
      · refine ⟨finish_pending K hW X hne hem0 hblank hP, ?_⟩
        rintro ⟨_, ho⟩
        -- every cell of the line is blank: the last column is not occupied
        exfalso
        have hKs : K.src = sr.cells := rfl
        rcases hP.er with ⟨h0, _⟩ | ⟨a, _, _, _, hvs⟩
        · rw [hKs] at h0; omega
        · have := hvs (sr.cells.length - 1) (by rw [hKs]; omega) (by rw [hKs]; omega)
          simp only [view, blankA, View.mk.injEq] at this
          have h1 := this.1
          have h2 := this.2.2.1
          rcases ho with ho | ho
          · have hh : (sr.cells[sr.cells.length - 1]'(by omega)).len = 0 := h1
            simp [Cell.hasContents, hh] at ho
          · have hh : (sr.cells[sr.cells.length - 1]'(by omega)).cont = false := h2
            rw [hh] at ho; simp at ho
      · exact ⟨finish_drawn (K.wrapped X) hS hne true hJ, fun ⟨_, ho⟩ => finish_pos (K.wrapped X) hS hne true hJ ho⟩
    have e' : (C14.enumFrom 0 sr.cells).foldlM (Row.fmtStep sr.cells.length i true)
        (start ⟨i - 1, (rsOf p0.ws).g.size.cols⟩ (rsOf p0.ws).pen) = .ok st' := e
    rw [wcf_pending sr i _ _ hfd', hwin, hpos, e']
    simp only [ok_bind, pure_eq_ok]
    exact ⟨_, _, _, rfl, hfin.1, hfin.2⟩

end Vt.RowDraw
