/-
  Vt.Props.RowDraw — one line of a redraw (no wrap-through): processing the bytes
  `Row::write_contents_formatted` emits for a source line, on a receiver whose line `i` is blank, makes
  line `i` of the receiver look like the source line; the cursor and the pen end where the emitter
  says they do; nothing else on the receiver changes.

  The proof is a simulation: `Drawn x st` says that the bytes emitted so far (`st.out`) have been
  processed and the receiver's line agrees with the source on columns `< x`, is blank from `x` on, and
  its cursor and pen are the emitter's `prev_pos` / `prev_attrs`.
-/
import Vt.Lemmas.RowSim
import Vt.Props.C03b
import Vt.Props.C14b
namespace Vt.RowDraw
open Vt Vt.Recv Vt.C19 Vt.C09 Vt.C03
set_option linter.unusedSimpArgs false

theorem attrs_wf_of_ok {a : Attrs} (h : attrsOk a = true) : Attrs.wf a := by
  simp only [attrsOk, Bool.and_eq_true] at h
  have col : ∀ c : Color, colorOk c = true → Color.wf c := by
    intro c hc
    cases c with
    | default => trivial
    | idx i => simpa [colorOk, Color.wf] using hc
    | rgb r g b => simpa [colorOk, Color.wf, and_assoc] using hc
  exact ⟨col _ h.1, col _ h.2⟩

/-- the fixed data of one line of a redraw -/
structure Ctx (W : Nat → Option Nat) (cb : CbPolicy) where
  p0 : Parser
  ready : Ready p0
  r0 : RS
  canvas : Canvas r0.g
  i : Nat
  hi : i < r0.g.size.rows
  src : List Cell
  hsrc : src.length = r0.g.size.cols

variable {W : Nat → Option Nat} {cb : CbPolicy}

/-- the bytes emitted so far have been processed; the receiver's line `i` shows columns `< x` of the source -/
def Drawn (K : Ctx W cb) (x : Nat) (st : Row.FmtSt) : Prop :=
  ∃ Ri, Emitted W cb K.p0 st.out (shape K.r0 K.i Ri st.prevPos st.prevAttrs) ∧ Line K.src x Ri

/-- the emitter's cursor move and pen change before an erase run is flushed (no wrap-through) -/
theorem eraseMove_drawn (K : Ctx W cb) {x : Nat} {st : Row.FmtSt} (h : Drawn K x st) (hx : x ≤ K.src.length)
    (e : Nat) (a : Attrs) (he : e < K.src.length) (hwf : Attrs.wf a) :
    let st' := Row.eraseMove K.src.length K.i false st e a
    Drawn K x st' ∧ st'.prevPos = ⟨K.i, e⟩ ∧ st'.prevAttrs = a ∧ st'.erase = st.erase ∧
      st'.prevWasWide = st.prevWasWide := by
  obtain ⟨Ri, hem, hline⟩ := h
  have hl : Ri.cells.length = K.r0.g.size.cols := by rw [hline.length hx, K.hsrc]
  have hu := K.canvas.cols_u16
  have hru := K.canvas.rows_u16
  have hi := K.hi
  -- the move
  have h1 := emitted_step W cb K.ready hem
    (step_moveFromTo W cb st.prevPos ⟨K.i, e⟩ (by simp only; omega) (by simp only; rw [← K.hsrc] at hu; omega))
    (shape_goto K.canvas hl st.prevPos ⟨K.i, e⟩ st.prevAttrs K.hi (by rw [← K.hsrc]; exact he))
  simp only [Row.eraseMove, Bool.false_and, Bool.false_eq_true, ↓reduceIte]
  by_cases hp : (st.prevAttrs != a) = true
  · simp only [hp, ↓reduceIte]
    have h2 := emitted_step W cb K.ready h1 (step_pen W cb a st.prevAttrs hwf)
      (r' := shape K.r0 K.i Ri ⟨K.i, e⟩ a) (by simp [shape])
    exact ⟨⟨Ri, by simpa [List.append_assoc] using h2, hline⟩, (by first | rfl | trivial), (by first | rfl | trivial), (by first | rfl | trivial), (by first | rfl | trivial)⟩
  · have hpa : st.prevAttrs = a := by simpa using hp
    simp only [hp, Bool.false_eq_true, ↓reduceIte, List.append_nil]
    exact ⟨⟨Ri, by rw [hpa] at h1 ⊢; exact h1, hline⟩, (by first | rfl | trivial), (by first | exact hpa | trivial), (by first | rfl | trivial), (by first | rfl | trivial)⟩

/-- what is assumed of the source line (all of it follows from `Inv`, `Inv⁺` and `emitInv`) -/
structure SrcOk (W : Nat → Option Nat) (src : List Cell) : Prop where
  cells_ok : ∀ c ∈ src, cellOk W c = true
  paired : pairThrough false src = some false
  emit_ok : ∀ j (hj : j < src.length), cellEmitOk W src.length j src[j] = true
  cont_default : ∀ c ∈ src, c.cont = true → c.attrs = Attrs.default

theorem SrcOk.wf {src : List Cell} (h : SrcOk W src) (j : Nat) (hj : j < src.length) : Attrs.wf src[j].attrs := by
  have := h.emit_ok j hj
  simp only [cellEmitOk, Bool.and_eq_true] at this
  exact attrs_wf_of_ok this.1

/-- a cell without text: its view -/
theorem SrcOk.blank_view {src : List Cell} (h : SrcOk W src) (j : Nat) (hj : j < src.length)
    (hh : src[j].hasContents = false) : view src[j] = ⟨0, false, src[j].cont, src[j].attrs, []⟩ := by
  have hok := h.cells_ok _ (List.getElem_mem hj)
  have hlen : src[j].len = 0 := by simpa [Cell.hasContents] using hh
  simp only [cellOk, Bool.and_eq_true, hlen, List.take_zero] at hok
  have hw : src[j].wide = false := by simpa [Utf8.fromUtf8] using hok.2.2
  simp [view, hlen, hw]

theorem SrcOk.cont_view {src : List Cell} (h : SrcOk W src) (j : Nat) (hj : j < src.length)
    (hc : src[j].cont = true) : view src[j] = contV := by
  have hok := h.cells_ok _ (List.getElem_mem hj)
  obtain ⟨hw, hlen⟩ := cellOk_cont W _ hok hc
  simp [view, contV, hlen, hw, hc, h.cont_default _ (List.getElem_mem hj) hc]

theorem SrcOk.wide_next {src : List Cell} (h : SrcOk W src) (j : Nat) (hj : j < src.length)
    (hw : src[j].wide = true) : ∃ hj' : j + 1 < src.length, src[j + 1].cont = true := by
  obtain ⟨d, hd, hdc⟩ := paired_wide_next (List.getElem?_eq_getElem hj) h.paired hw
  have hl := getElem?_lt hd
  refine ⟨hl, ?_⟩
  rw [List.getElem?_eq_getElem hl] at hd
  rw [Option.some.inj hd]; exact hdc

/-- the continuation flag of cell `j` is the width flag of cell `j - 1` -/
theorem SrcOk.cont_iff {src : List Cell} (h : SrcOk W src) (j : Nat) (hj : j < src.length) :
    src[j].cont = (if j = 0 then false else src[j - 1].wide) := by
  by_cases hj0 : j = 0
  · subst hj0
    simp only [↓reduceIte]
    obtain ⟨p, e1, e2, _⟩ := pairThrough_split (List.getElem?_eq_getElem hj) h.paired
    simp [pairThrough] at e1
    rw [e2, ← e1]
  · simp only [hj0, ↓reduceIte]
    have hj1 : j - 1 < src.length := by omega
    have := C07.paired_adjacent h.paired (List.getElem?_eq_getElem hj1)
      (by rw [show j - 1 + 1 = j by omega]; exact List.getElem?_eq_getElem hj)
    exact this

def esK (j : Nat) (st : Row.FmtSt) : Nat :=
  match st.erase with
  | some (e, _) => e
  | none => j

/-- the simulation invariant between cells (not in the middle of a wide character) -/
structure Inv1 (K : Ctx W cb) (j : Nat) (st : Row.FmtSt) : Prop where
  drawn : Drawn K (esK j st) st
  er : ∀ e a, st.erase = some (e, a) → e ≤ j ∧ e < K.src.length ∧ Attrs.wf a ∧
    ∀ k (hk : k < K.src.length), e ≤ k → k < j → view K.src[k] = blankA a

/-- the first half of the per-cell body: a pending erase run is flushed exactly when cell `j` ends it -/
theorem flush_inv (K : Ctx W cb) {j : Nat} (hj : j < K.src.length) {st : Row.FmtSt} (h : Inv1 K j st) :
    ∃ st2, C03.flush K.src.length K.i false st j K.src[j] = .ok st2 ∧ Inv1 K j st2 ∧
      st2.prevWasWide = st.prevWasWide ∧
      (st2.erase = none ∨ ∃ e a, st2.erase = some (e, a) ∧ K.src[j].hasContents = false ∧ K.src[j].attrs = a) := by
  unfold C03.flush
  cases he : st.erase with
  | none => exact ⟨st, rfl, h, rfl, Or.inl he⟩
  | some pa =>
    obtain ⟨e, a⟩ := pa
    obtain ⟨hej, hel, hwf, hvs⟩ := h.er e a he
    simp only
    by_cases hcond : (K.src[j].hasContents || K.src[j].attrs != a) = true
    · simp only [hcond, ↓reduceIte, subM_ok hej, pure_bind', ok_bind]
      have hd : Drawn K e st := by have := h.drawn; simpa [esK, he] using this
      obtain ⟨hd', hp', ha', he', hw'⟩ := eraseMove_drawn K hd (Nat.le_of_lt hel) e a hel hwf
      refine ⟨_, rfl, ⟨?_, ?_⟩, hw', Or.inl rfl⟩
      · -- the ECH
        show Drawn K j _
        obtain ⟨Ri, hem, hline⟩ := hd'
        rw [hp', ha'] at hem
        by_cases hn : j - e = 0
        · have hje : e = j := by omega
          refine ⟨Ri, ?_, hje ▸ hline⟩
          simp only [hp', ha']
          have := emitted_step W cb K.ready hem (step_eraseChar W cb (j - e) (by have := K.canvas.cols_u16; rw [← K.hsrc] at this; omega))
            (r' := shape K.r0 K.i Ri ⟨K.i, e⟩ a) (by simp [hn])
          exact this
        · obtain ⟨Ri', e1, hline'⟩ := shape_ech K.canvas K.hi K.hsrc hline (j - e) a (by omega)
            (fun k hk h1 h2 => hvs k hk h1 (by omega))
          have := emitted_step W cb K.ready hem (step_eraseChar W cb (j - e) (by have := K.canvas.cols_u16; rw [← K.hsrc] at this; omega))
            (r' := shape K.r0 K.i Ri' ⟨K.i, e⟩ a) (by
              simp only [hn, ↓reduceIte]
              have : (shape K.r0 K.i Ri ⟨K.i, e⟩ a).pen = a := rfl
              rw [this, e1]
              rfl)
          refine ⟨Ri', ?_, ?_⟩
          · simp only [hp', ha']; exact this
          · rw [show e + (j - e) = j by omega] at hline'; exact hline'
      · intro e' a' h'; simp at h'
    · simp only [hcond, Bool.false_eq_true, ↓reduceIte]
      simp only [Bool.or_eq_true, bne_iff_ne, ne_eq, not_or, Bool.not_eq_true, Decidable.not_not] at hcond
      exact ⟨st, rfl, h, rfl, Or.inr ⟨e, a, he, hcond.1, hcond.2⟩⟩

theorem drawn_congr (K : Ctx W cb) {x : Nat} {st st' : Row.FmtSt} (h : Drawn K x st) (ho : st'.out = st.out)
    (hp : st'.prevPos = st.prevPos) (ha : st'.prevAttrs = st.prevAttrs) : Drawn K x st' := by
  obtain ⟨Ri, hem, hl⟩ := h
  exact ⟨Ri, by rw [ho, hp, ha]; exact hem, hl⟩

/-- the emitter state after a cell with text has been written (no wrap-through) -/
def afterText (i j : Nat) (st : Row.FmtSt) (c : Cell) : Row.FmtSt :=
  { prevWasWide := st.prevWasWide
    prevPos := ⟨i, j + (if c.isWide then 2 else 1)⟩
    prevAttrs := c.attrs
    erase := st.erase
    out := ((if (({ row := i, col := j } : Pos) != st.prevPos) = true then
              st.out ++ Term.moveFromTo st.prevPos ⟨i, j⟩ else st.out) ++
            (if (st.prevAttrs != c.attrs) = true then c.attrs.writeEscapeCodeDiff st.prevAttrs else [])) ++
           c.contents.take c.len }

theorem emit_text_eq (n i j : Nat) (st : Row.FmtSt) (c : Cell) (hh : c.hasContents = true) (hf : CellFine c) :
    C03.emit n i false st j c true = .ok (afterText i j st c) := by
  unfold C03.emit
  simp only [↓reduceIte, hh, contentsBytes_ok hf, Bool.not_false, Bool.true_or]
  by_cases h1 : (({ row := i, col := j } : Pos) != st.prevPos) = true <;>
    by_cases h2 : (st.prevAttrs != c.attrs) = true <;>
    simp [afterText, h1, h2]
  · have : st.prevAttrs = c.attrs := by simpa using h2
    exact this
  · have h1' : st.prevPos = ⟨i, j⟩ := by
      have := h1; simp only [bne_iff_ne, ne_eq, Decidable.not_not] at this; exact this.symm
    simp [h1']
  · have h1' : st.prevPos = ⟨i, j⟩ := by
      have := h1; simp only [bne_iff_ne, ne_eq, Decidable.not_not] at this; exact this.symm
    have : st.prevAttrs = c.attrs := by simpa using h2
    simp [h1', this]

/-- a cell with text: move there if need be, set the pen if need be, type it -/
theorem draw_text (K : Ctx W cb) (hW : WOk W) (hS : SrcOk W K.src) {j : Nat} (hj : j < K.src.length)
    {st : Row.FmtSt} (hd : Drawn K j st) (hh : K.src[j].hasContents = true) :
    C03.emit K.src.length K.i false st j K.src[j] true = .ok (afterText K.i j st K.src[j]) ∧
      Drawn K (j + (if K.src[j].wide then 2 else 1)) (afterText K.i j st K.src[j]) := by
  have hok := hS.cells_ok _ (List.getElem_mem hj)
  obtain ⟨f, zs, ht⟩ := textCell_of hW hok (hS.emit_ok j hj) hh
  have hu := K.canvas.cols_u16
  have hru := K.canvas.rows_u16
  have hi := K.hi
  have hfine : CellFine K.src[j] := cellFine_of_ok hok
  refine ⟨emit_text_eq _ _ _ _ _ hh hfine, ?_⟩
  -- the move
  obtain ⟨Ri, hem, hline⟩ := hd
  have hl : Ri.cells.length = K.r0.g.size.cols := by rw [hline.length (Nat.le_of_lt hj), K.hsrc]
  have h1 : Emitted W cb K.p0 (if (({ row := K.i, col := j } : Pos) != st.prevPos) = true then
        st.out ++ Term.moveFromTo st.prevPos ⟨K.i, j⟩ else st.out) (shape K.r0 K.i Ri ⟨K.i, j⟩ st.prevAttrs) := by
    by_cases hne : (({ row := K.i, col := j } : Pos) != st.prevPos) = true
    · simp only [hne, ↓reduceIte]
      exact emitted_step W cb K.ready hem
        (step_moveFromTo W cb st.prevPos ⟨K.i, j⟩ (by simp only; omega) (by simp only; rw [← K.hsrc] at hu; omega))
        (shape_goto K.canvas hl st.prevPos ⟨K.i, j⟩ st.prevAttrs K.hi (by rw [← K.hsrc]; exact hj))
    · simp only [hne, Bool.false_eq_true, ↓reduceIte]
      have : st.prevPos = ⟨K.i, j⟩ := by
        have := hne; simp only [bne_iff_ne, ne_eq, Decidable.not_not] at this; exact this.symm
      rw [← this]; exact hem
  -- the pen
  have h2 : Emitted W cb K.p0 ((if (({ row := K.i, col := j } : Pos) != st.prevPos) = true then
        st.out ++ Term.moveFromTo st.prevPos ⟨K.i, j⟩ else st.out) ++
        (if (st.prevAttrs != K.src[j].attrs) = true then K.src[j].attrs.writeEscapeCodeDiff st.prevAttrs else []))
      (shape K.r0 K.i Ri ⟨K.i, j⟩ K.src[j].attrs) := by
    by_cases hp : (st.prevAttrs != K.src[j].attrs) = true
    · simp only [hp, ↓reduceIte]
      exact emitted_step W cb K.ready h1 (step_pen W cb K.src[j].attrs st.prevAttrs (hS.wf j hj))
        (r' := shape K.r0 K.i Ri ⟨K.i, j⟩ K.src[j].attrs) (by simp [shape])
    · have hpa : st.prevAttrs = K.src[j].attrs := by simpa using hp
      simp only [hp, Bool.false_eq_true, ↓reduceIte, List.append_nil]
      rw [← hpa]; exact h1
  -- the text
  have hstep := step_text W cb (K.src[j].contents.take K.src[j].len) ht.valid
    (by rw [ht.chars]; exact ht.plain) ht.noesc
  rw [ht.chars] at hstep
  by_cases hwide : K.src[j].wide = true
  · -- two columns
    have hw2 : 2 ≤ (W f).getD 1 := by
      have := ht.wide; rw [hwide] at this
      have h' : 1 < (W f).getD 1 := by simpa using this.symm
      omega
    obtain ⟨hj1, hc1⟩ := hS.wide_next j hj hwide
    obtain ⟨Ri', e, hline'⟩ := shape_type_wide W K.canvas K.hi K.hsrc hline hj1 ht hw2 (hS.cont_view (j + 1) hj1 hc1)
    have h3 := emitted_step W cb K.ready h2 hstep (r' := shape K.r0 K.i Ri' ⟨K.i, j + 2⟩ K.src[j].attrs) (by
      have : (shape K.r0 K.i Ri ⟨K.i, j⟩ K.src[j].attrs).pen = K.src[j].attrs := rfl
      rw [this, e]; rfl)
    simp only [hwide, ↓reduceIte]
    refine ⟨Ri', ?_, hline'⟩
    simpa [afterText, Cell.isWide, hwide] using h3
  · -- one column
    have hwide' : K.src[j].wide = false := by simpa using hwide
    have hw1 : (W f).getD 1 = 1 := by
      have := ht.wide; rw [hwide'] at this
      have h' : ¬ 1 < (W f).getD 1 := by simpa using this.symm
      have := ht.width
      omega
    obtain ⟨Ri', e, hline'⟩ := shape_type_narrow W K.canvas K.hi K.hsrc hline hj ht hw1
    have h3 := emitted_step W cb K.ready h2 hstep (r' := shape K.r0 K.i Ri' ⟨K.i, j + 1⟩ K.src[j].attrs) (by
      have : (shape K.r0 K.i Ri ⟨K.i, j⟩ K.src[j].attrs).pen = K.src[j].attrs := rfl
      rw [this, e]; rfl)
    simp only [hwide', Bool.false_eq_true, ↓reduceIte]
    refine ⟨Ri', ?_, hline'⟩
    simpa [afterText, Cell.isWide, hwide'] using h3

/-- the invariant of the cell loop -/
structure J (K : Ctx W cb) (j : Nat) (st : Row.FmtSt) : Prop where
  ww : ∀ (_ : 0 < j) (hl : j ≤ K.src.length), st.prevWasWide = (K.src[j - 1]'(by omega)).wide
  w0 : j = 0 → st.prevWasWide = false
  A : st.prevWasWide = true → st.erase = none ∧ Drawn K (j + 1) st
  B : st.prevWasWide = false → Inv1 K j st

theorem inv1_congr (K : Ctx W cb) {j : Nat} {st st' : Row.FmtSt} (h : Inv1 K j st) (ho : st'.out = st.out)
    (hp : st'.prevPos = st.prevPos) (ha : st'.prevAttrs = st.prevAttrs) (he : st'.erase = st.erase) : Inv1 K j st' := by
  refine ⟨?_, ?_⟩
  · have := h.drawn
    have e : esK j st' = esK j st := by simp [esK, he]
    rw [e]; exact drawn_congr K this ho hp ha
  · intro e a h'; rw [he] at h'; exact h.er e a h'

/-- **one cell of the loop** -/
theorem fmtStep_inv (K : Ctx W cb) (hW : WOk W) (hS : SrcOk W K.src) {j : Nat} (hj : j < K.src.length)
    {st : Row.FmtSt} (h : J K j st) :
    ∃ st', Row.fmtStep K.src.length K.i false st (j, K.src[j]) = .ok st' ∧ J K (j + 1) st' := by
  have hok := hS.cells_ok _ (List.getElem_mem hj)
  unfold Row.fmtStep
  simp only
  by_cases hpw : st.prevWasWide = true
  · -- the second half of a wide character: skipped
    simp only [hpw, ↓reduceIte]
    obtain ⟨he, hd⟩ := h.A hpw
    have hj0 : 0 < j := by
      rcases Nat.eq_zero_or_pos j with h0 | h0
      · have := h.w0 h0; rw [hpw] at this; simp at this
      · exact h0
    have hprev := h.ww hj0 (Nat.le_of_lt hj)
    have hcont : K.src[j].cont = true := by
      rw [hS.cont_iff j hj, if_neg (by omega), ← hprev, hpw]
    have hnw : K.src[j].wide = false := (cellOk_cont W _ hok hcont).1
    refine ⟨_, rfl, ⟨?_, ?_, ?_, ?_⟩⟩
    · intro _ _; simp [hnw]
    · intro h0; omega
    · intro h'; simp at h'
    · intro _
      refine ⟨?_, ?_⟩
      · simp only [esK, he]; exact drawn_congr K hd rfl rfl rfl
      · intro e a h'; simp only at h'; rw [he] at h'; simp at h'
  · have hpw' : st.prevWasWide = false := by simpa using hpw
    simp only [hpw', Bool.false_eq_true, ↓reduceIte]
    have hnc : K.src[j].cont = false := by
      rw [hS.cont_iff j hj]
      by_cases h0 : j = 0
      · simp [h0]
      · rw [if_neg h0, ← h.ww (by omega) (Nat.le_of_lt hj)]; exact hpw'
    have hB := h.B hpw'
    rw [C03.fmtCellStep_eq]
    have hB1 : Inv1 K j { st with prevWasWide := K.src[j].isWide } := inv1_congr K hB rfl rfl rfl rfl
    obtain ⟨st2, e2, hI2, hw2, hdisj⟩ := flush_inv K hj hB1
    rw [e2]
    simp only [ok_bind]
    have hw2' : st2.prevWasWide = K.src[j].wide := hw2
    by_cases hd : K.src[j].eq Cell.new = true
    · -- the blank default cell: nothing is written
      have hv : view K.src[j] = blankV := (eq_new_iff _).mp hd
      have hnw : K.src[j].wide = false := (view_plain hv).1
      have hat : K.src[j].attrs = Attrs.default := by
        simp only [view, blankV, blankA, View.mk.injEq] at hv; exact hv.2.2.2.1
      simp only [hd, Bool.not_true, C03.emit, Bool.false_eq_true, ↓reduceIte, pure_eq_ok]
      refine ⟨st2, rfl, ⟨?_, ?_, ?_, ?_⟩⟩
      · intro _ _; simp [hw2', hnw]
      · intro h0; omega
      · intro h'; rw [hw2', hnw] at h'; simp at h'
      · intro _
        rcases hdisj with hnone | ⟨e, a, hea, _, haa⟩
        · refine ⟨?_, fun e a h' => by rw [hnone] at h'; simp at h'⟩
          have := hI2.drawn
          simp only [esK, hnone] at this ⊢
          obtain ⟨Ri, hem, hl⟩ := this
          exact ⟨Ri, hem, hl.skip hj hv⟩
        · obtain ⟨h1, h2, h3, h4⟩ := hI2.er e a hea
          refine ⟨?_, ?_⟩
          · have := hI2.drawn; simp only [esK, hea] at this ⊢; exact this
          · intro e' a' h'
            rw [hea] at h'
            simp only [Option.some.injEq, Prod.mk.injEq] at h'
            obtain ⟨rfl, rfl⟩ := h'
            refine ⟨by omega, h2, h3, ?_⟩
            intro k hk hk1 hk2
            by_cases hkj : k = j
            · subst hkj; rw [hv, ← haa, hat]; rfl
            · exact h4 k hk hk1 (by omega)
    · have hd' : (!(K.src[j].eq Cell.new)) = true := by simpa using hd
      rw [hd']
      by_cases hh : K.src[j].hasContents = true
      · -- text
        have hnone : st2.erase = none := by
          rcases hdisj with h1 | ⟨_, _, _, h2, _⟩
          · exact h1
          · rw [hh] at h2; simp at h2
        have hdj : Drawn K j st2 := by have := hI2.drawn; simpa [esK, hnone] using this
        obtain ⟨e3, hd3⟩ := draw_text K hW hS hj hdj hh
        refine ⟨_, e3, ⟨?_, ?_, ?_, ?_⟩⟩
        · intro _ _; simp [afterText, hw2']
        · intro h0; omega
        · intro h'
          have hwide : K.src[j].wide = true := by simpa [afterText, hw2'] using h'
          refine ⟨by simpa [afterText] using hnone, ?_⟩
          simpa [hwide] using hd3
        · intro h'
          have hwide : K.src[j].wide = false := by simpa [afterText, hw2'] using h'
          refine ⟨?_, fun e a h'' => by simp [afterText, hnone] at h''⟩
          have : esK (j + 1) (afterText K.i j st2 K.src[j]) = j + 1 := by simp [esK, afterText, hnone]
          rw [this]
          simpa [hwide] using hd3
      · -- a blank cell with attributes: an erase run starts or goes on
        have hh' : K.src[j].hasContents = false := by simpa using hh
        have hbv := hS.blank_view j hj hh'
        rw [hnc] at hbv
        have hnw : K.src[j].wide = false := by
          simp only [view, View.mk.injEq] at hbv; exact hbv.2.1
        simp only [C03.emit, ↓reduceIte, hh', Bool.false_eq_true]
        rcases hdisj with hnone | ⟨e, a, hea, _, haa⟩
        · simp only [hnone, Option.isNone_none, ↓reduceIte, pure_eq_ok]
          have hdj : Drawn K j st2 := by have := hI2.drawn; simpa [esK, hnone] using this
          refine ⟨_, rfl, ⟨?_, ?_, ?_, ?_⟩⟩
          · intro _ _; simp [hw2', hnw]
          · intro h0; omega
          · intro h'; simp only at h'; rw [hw2', hnw] at h'; simp at h'
          · intro _
            refine ⟨?_, ?_⟩
            · simp only [esK]; exact drawn_congr K hdj rfl rfl rfl
            · intro e' a' h'
              simp only [Option.some.injEq, Prod.mk.injEq] at h'
              obtain ⟨rfl, rfl⟩ := h'
              refine ⟨by omega, hj, hS.wf j hj, ?_⟩
              intro k hk hk1 hk2
              have : k = j := by omega
              subst this
              rw [hbv]; rfl
        · simp only [hea, Option.isNone_some, Bool.false_eq_true, ↓reduceIte, pure_eq_ok]
          obtain ⟨h1, h2, h3, h4⟩ := hI2.er e a hea
          refine ⟨st2, rfl, ⟨?_, ?_, ?_, ?_⟩⟩
          · intro _ _; simp [hw2', hnw]
          · intro h0; omega
          · intro h'; rw [hw2', hnw] at h'; simp at h'
          · intro _
            refine ⟨?_, ?_⟩
            · have := hI2.drawn; simp only [esK, hea] at this ⊢; exact this
            · intro e' a' h'
              rw [hea] at h'
              simp only [Option.some.injEq, Prod.mk.injEq] at h'
              obtain ⟨rfl, rfl⟩ := h'
              refine ⟨by omega, h2, h3, ?_⟩
              intro k hk hk1 hk2
              by_cases hkj : k = j
              · subst hkj; rw [hbv, haa]; rfl
              · exact h4 k hk hk1 (by omega)

/-- the loop over the cells `j, j+1, …` of the line -/
theorem fold_inv (K : Ctx W cb) (hW : WOk W) (hS : SrcOk W K.src) : ∀ (cs : List Cell) (j : Nat) (st : Row.FmtSt),
    K.src.drop j = cs → j ≤ K.src.length → J K j st →
    ∃ st', (C14.enumFrom j cs).foldlM (Row.fmtStep K.src.length K.i false) st = .ok st' ∧ J K K.src.length st'
  | [], j, st, hcs, hjl, h => by
    have : j = K.src.length := by
      have := congrArg List.length hcs
      simp only [List.length_drop, List.length_nil] at this
      omega
    subst this
    exact ⟨st, rfl, h⟩
  | c :: cs, j, st, hcs, hjl, h => by
    have hj : j < K.src.length := by
      have := congrArg List.length hcs
      simp only [List.length_drop, List.length_cons] at this
      omega
    have hc : K.src[j] = c := by
      have := congrArg (fun l => l[0]?) hcs
      simp only [List.getElem?_drop, Nat.add_zero, List.getElem?_eq_getElem hj, List.getElem?_cons_zero,
        Option.some.injEq] at this
      exact this
    have hcs' : K.src.drop (j + 1) = cs := by
      have := congrArg List.tail hcs
      simpa [List.tail_drop] using this
    obtain ⟨st1, e1, h1⟩ := fmtStep_inv K hW hS hj h
    obtain ⟨st', e2, h2⟩ := fold_inv K hW hS cs (j + 1) st1 hcs' (by omega) h1
    refine ⟨st', ?_, h2⟩
    have : C14.enumFrom j (c :: cs) = (j, c) :: C14.enumFrom (j + 1) cs := by
      simp [C14.enumFrom, List.zipIdx_cons]
    rw [this, List.foldlM_cons, ← hc, e1]
    exact e2

/-- the end of the line: a pending erase run becomes an EL -/
theorem finish_drawn (K : Ctx W cb) (hS : SrcOk W K.src) (hne : 0 < K.src.length) {st : Row.FmtSt}
    (h : J K K.src.length st) : Drawn K K.src.length (Row.fmtFinish K.src.length K.i false st) := by
  have hpw : st.prevWasWide = false := by
    by_cases hp : st.prevWasWide = true
    · have := h.ww hne (Nat.le_refl _)
      rw [hp] at this
      obtain ⟨hj', _⟩ := hS.wide_next (K.src.length - 1) (by omega) this.symm
      omega
    · simpa using hp
  have hB := h.B hpw
  unfold Row.fmtFinish
  cases he : st.erase with
  | none =>
    have := hB.drawn
    simpa [esK, he] using this
  | some pa =>
    obtain ⟨e, a⟩ := pa
    obtain ⟨hej, hel, hwf, hvs⟩ := hB.er e a he
    have hd : Drawn K e st := by have := hB.drawn; simpa [esK, he] using this
    obtain ⟨hd', hp', ha', _, _⟩ := eraseMove_drawn K hd (Nat.le_of_lt hel) e a hel hwf
    obtain ⟨Ri, hem, hline⟩ := hd'
    rw [hp', ha'] at hem
    obtain ⟨Ri', e1, hline'⟩ := shape_el K.canvas K.hi K.hsrc hline a (Nat.le_of_lt hel)
      (fun k hk h1 => hvs k hk h1 hk)
    have := emitted_step W cb K.ready hem (step_clearRowForward W cb)
      (r' := shape K.r0 K.i Ri' ⟨K.i, e⟩ a) (by
        have : (shape K.r0 K.i Ri ⟨K.i, e⟩ a).pen = a := rfl
        rw [this, e1]; rfl)
    refine ⟨Ri', ?_, hline'⟩
    simp only [hp', ha']
    exact this

/-- a line that shows all of the source: cell for cell the same view -/
theorem Line.full {src : List Cell} {Ri : Row} (h : Line src src.length Ri) :
    Ri.cells.map view = src.map view ∧ Ri.wrapped = false := by
  refine ⟨?_, h.unwrapped⟩
  rw [h.views]; simp

theorem shape_self (r0 : RS) (i : Nat) (Ri : Row) (h : r0.g.rows[i]? = some Ri) : shape r0 i Ri r0.g.pos r0.pen = r0 := by
  obtain ⟨g, pen, saved⟩ := r0
  simp only [shape, RS.mk.injEq, and_true]
  have : g.rows.set i Ri = g.rows := by
    apply List.ext_getElem?; intro k
    by_cases hk : i = k
    · subst hk
      have hl := getElem?_lt h
      rw [List.getElem?_set_self hl]; exact h.symm
    · simp [hk]
  simp only at h this ⊢
  rw [this]

/-- the emitter state at the start of a line that is not wrapped onto -/
def start (pp : Pos) (pa : Attrs) : Row.FmtSt :=
  { prevWasWide := false, prevPos := pp, prevAttrs := pa, erase := none, out := [] }

/-- **one line of a redraw, no wrap-through** (`wrapping = false`, full width): processing the bytes of
`write_contents_formatted` on a receiver whose line `i` is blank makes line `i` show the source line cell for
cell; cursor and pen end at the `prev_pos` / `prev_attrs` the emitter returns; every other line, the region,
the scrollback, the saved cursor — everything else — is as before -/
theorem row_formatted_draws (hW : WOk W) (p0 : Parser) (hr : Ready p0) (hcv : Canvas (rsOf p0.ws).g)
    (i : Nat) (hi : i < (rsOf p0.ws).g.size.rows) (sr : Row) (hlen : sr.cells.length = (rsOf p0.ws).g.size.cols)
    (hS : SrcOk W sr.cells) (Ri0 : Row) (hrow : (rsOf p0.ws).g.rows[i]? = some Ri0) (hblank : Line sr.cells 0 Ri0) :
    ∃ out np na, sr.writeContentsFormatted 0 sr.cells.length i false
        (some (rsOf p0.ws).g.pos) (some (rsOf p0.ws).pen) = .ok (out, np, na) ∧
      ∃ Ri, Emitted W cb p0 out (shape (rsOf p0.ws) i Ri np na) ∧ Line sr.cells sr.cells.length Ri := by
  let K : Ctx W cb := ⟨p0, hr, rsOf p0.ws, hcv, i, hi, sr.cells, hlen⟩
  have hne : 0 < sr.cells.length := by rw [hlen]; exact hcv.cols_pos
  have hJ0 : J K 0 (start (rsOf p0.ws).g.pos (rsOf p0.ws).pen) := by
    refine ⟨fun h => absurd h (Nat.lt_irrefl 0), fun _ => rfl, fun h => by simp [start] at h, fun _ => ⟨?_, ?_⟩⟩
    · refine ⟨Ri0, ?_, hblank⟩
      show Emitted W cb p0 [] (shape (rsOf p0.ws) i Ri0 (rsOf p0.ws).g.pos (rsOf p0.ws).pen)
      rw [shape_self _ _ _ hrow]
      exact emitted_nil W cb p0 hr
    · intro e a h; simp [start] at h
  obtain ⟨st', e, hJ⟩ := fold_inv K hW hS sr.cells 0 _ (by rfl) (Nat.zero_le _) hJ0
  have hfin := finish_drawn K hS hne hJ
  unfold Row.writeContentsFormatted
  simp only [pure_bind', Option.getD_some, Bool.false_and, Bool.false_eq_true, ↓reduceIte]
  have hwin : Row.window sr.cells 0 sr.cells.length = C14.enumFrom 0 sr.cells := by
    rw [C03.window_eq, C14.windowFrom_eq]; simp
  rw [hwin]
  have e' : (C14.enumFrom 0 sr.cells).foldlM (Row.fmtStep sr.cells.length i false)
      (start (rsOf p0.ws).g.pos (rsOf p0.ws).pen) = .ok st' := e
  simp only [start] at e'
  simp only [Row.cols, e', ok_bind, pure_eq_ok]
  exact ⟨_, _, _, rfl, hfin⟩

end Vt.RowDraw
