import Vt.Props.C11more
import Vt.Props.MiscC05
import Vt.Props.InvPerform
/-
  C13, the pending-wrap clause: "the cursor row is < rows and the cursor column is <= cols (== cols
  only as the pending-wrap position after printing in the last column)".

  `Inv` only says `pos.col ≤ cols`.  Here: a cursor column equal to `cols` can only be CREATED by
  `Screen::text` printing a character of non-zero width whose last cell is the last column; every
  other operation clamps below `cols`, keeps the column, or copies it between the live and the saved
  cursor of the same grid; `set_size` removes every pending position.

  `g.pend`  : the live or the saved cursor of grid `g` is in column `cols`;
  `s.pend`  : … of the primary or of the alternate grid of screen `s` (a not-yet-allocated
              alternate grid carries its size and cursors (0,0), so it needs no special case — only
              `1 ≤ cols`, which `Inv` provides).
  `SColsOk` : the fragment of `Inv` the frame needs (both grids: `1 ≤ cols`, live and saved column
              `≤ cols`); `sColsOk_of_inv`.  The frame is proved from `SColsOk` alone and preserves it.

  Headline theorems
   1 `new_not_pend`               a new screen (cols ≥ 1) has no pending cursor
   2 `setSize_colsOk_not_pend`    `set_size` — whenever it returns — leaves none (no hypothesis at all);
     `setSize_not_pend`           … in the form asked for (`Inv`, `1 ≤ r`, `1 ≤ c`: not needed)
   3 `setScrollback_pend`         `set_scrollback` changes neither `pend` nor `SColsOk`
   4 `perform_no_new_pend`        every action that is not an effective print (`EffAction`), every
                                  callback policy with `CbNoPend`: pending after ⇒ pending before
     (`perform_no_new_pend'` from `SColsOk`; `perform_not_pend` contrapositive;
      `cbNone_noPend`, `cbResize_noPend`)
   5 `print_pend_origin`          an effective print that creates a pending cursor: it is the live
                                  cursor of the active grid, nothing else is pending, and column
                                  `cols - 1` of its line holds the character (width 1) / is the
                                  continuation half (width 2)             [needs `W 32 = some 1`]
   6 `actions_pend_origin`        any action list: pending after ⇒ pending before or the list
                                  contains a print effective at the state it met
     `applyOp_pend_origin`        one API call
     `reachable_pend_has_print`   histories from `Parser::new`: a pending cursor ⇒ a `process` call
                                  with no `set_size` after it that performed an effective print
     `no_process_after_setSize_not_pend`, `actions_no_new_pend`  the simple forms
  Not proved / remarks
   * 5 does not restate the column BEFORE the print in terms of the input state (it is
     `cols - effWidth` after `col_wrap`; the closed forms of `col_wrap` are in C05b/MiscC05).
   * 6 uses `C13.inv_perform` to carry `Inv` across effective prints, hence the hypotheses
     `W 32 = some 1`, `CbInv W cb` and valid operations; 1-4 need none of these.
   * `EffAction` is the exact condition under which `performPrint` reaches the cell writes of `text`
     (`textWide`); an effective print need not create a pending cursor (see the tests).
-/
namespace Vt.C13pend
open Vt Vt.C12
set_option linter.unusedSimpArgs false
set_option linter.unusedVariables false

/-! ## 0. definitions -/

/-- some cursor of this grid, live or saved, is in the pending-wrap column `cols` -/
def _root_.Vt.Grid.pend (g : Grid) : Prop := g.pos.col = g.size.cols ∨ g.savedPos.col = g.size.cols

instance (g : Grid) : Decidable g.pend := by unfold Grid.pend; infer_instance

/-- some cursor of the screen (live or saved, primary or alternate grid) is in the pending-wrap
column.  A not-yet-allocated alternate grid already carries its size and the cursors (0,0), so no
special case is needed — only `1 ≤ cols`, which `Inv` provides. -/
def _root_.Vt.Screen.pend (s : Screen) : Prop := s.grid.pend ∨ s.altGrid.pend

instance (s : Screen) : Decidable s.pend := by unfold Screen.pend; infer_instance

/-- the part of `Inv` this file needs of one grid: at least one column, and both cursors (live and
saved) at a column `≤ cols` -/
def ColsOk (g : Grid) : Prop := 1 ≤ g.size.cols ∧ g.pos.col ≤ g.size.cols ∧ g.savedPos.col ≤ g.size.cols

/-- … of a screen: both grids -/
def SColsOk (s : Screen) : Prop := ColsOk s.grid ∧ ColsOk s.altGrid

theorem sColsOk_of_inv {W : Nat → Option Nat} {s : Screen} (h : Inv W s) : SColsOk s := by
  have h := (inv_iff W s).mp h
  exact ⟨⟨h.grid.cols_pos, h.grid.pos_col, h.grid.spos_col⟩, ⟨h.alt.cols_pos, h.alt.pos_col, h.alt.spos_col⟩⟩

/-! ## 1. grid operations: no new pending cursor -/

/-- `g` is well-formed (columns) and has a pending cursor only if `g0` had one -/
def GP (g0 g : Grid) : Prop := ColsOk g ∧ (g.pend → g0.pend)

/-- the same for a grid whose LIVE cursor column is arbitrary (about to be clamped) -/
def GQ (g0 g : Grid) : Prop :=
  1 ≤ g.size.cols ∧ g.savedPos.col ≤ g.size.cols ∧ (g.savedPos.col = g.size.cols → g0.pend)

theorem GP.refl {g : Grid} (h : ColsOk g) : GP g g := ⟨h, id⟩

theorem GP.toGQ {g0 g : Grid} (h : GP g0 g) : GQ g0 g := ⟨h.1.1, h.1.2.2, fun e => h.2 (Or.inr e)⟩

syntax "mgp" : tactic
set_option hygiene false in
macro_rules
  | `(tactic| mgp) => `(tactic| repeat' (first
      | exact MPred.pure hg
      | exact MPred.ok hg
      | (apply MPred.bind_any; intro _)
      | (apply MPred.ite <;> intro _)
      | (apply MPred.pure; (split <;> exact hg))
      | exact modifyCurrentRow_gp hg _
      | exact modifyCellM_gp hg _ _ _
      | exact appendToPrev_gp hg _ _ _
      | split))

section gp
variable {g0 g : Grid}

/-- the live column is clamped below `cols`: never pending afterwards -/
theorem colClamp_gq (hg : GQ g0 g) : MPred (GP g0) g.colClamp := by
  obtain ⟨h1, h2, h3⟩ := hg
  simp only [Grid.colClamp, subM_ok h1, ok_bind]
  apply MPred.pure
  split
  · refine ⟨⟨h1, ?_, h2⟩, ?_⟩
    · show g.size.cols - 1 ≤ g.size.cols; omega
    · intro h
      have h : g.size.cols - 1 = g.size.cols ∨ g.savedPos.col = g.size.cols := h
      exact h3 (by omega)
  · rename_i hn
    refine ⟨⟨h1, by omega, h2⟩, ?_⟩
    intro h
    have h : g.pos.col = g.size.cols ∨ g.savedPos.col = g.size.cols := h
    exact h3 (by omega)

theorem colClamp_gp (hg : GP g0 g) : MPred (GP g0) g.colClamp := colClamp_gq hg.toGQ

theorem rowClamp_gp (hg : GP g0 g) : MPred (GP g0) g.rowClamp := by
  simp only [Grid.rowClamp]; mgp
theorem rowClampTop_gp (hg : GP g0 g) (l : Bool) : GP g0 (g.rowClampTop l).1 := by
  simp only [Grid.rowClampTop]; split <;> exact hg
theorem rowClampTop_gq (hg : GQ g0 g) (l : Bool) : GQ g0 (g.rowClampTop l).1 := by
  simp only [Grid.rowClampTop]; split <;> exact hg
theorem rowClampBottom_gp (hg : GP g0 g) (l : Bool) : MPred (fun p => GP g0 p.1) (g.rowClampBottom l) := by
  simp only [Grid.rowClampBottom]; mgp
theorem rowClampBottom_gq (hg : GQ g0 g) (l : Bool) : MPred (fun p => GQ g0 p.1) (g.rowClampBottom l) := by
  simp only [Grid.rowClampBottom]; mgp

/-- `set_pos` (CUP, origin mode): whatever column is asked for, it is clamped -/
theorem setPos_gp (hg : GP g0 g) (pos : Pos) : MPred (GP g0) (g.setPos pos) := by
  simp only [Grid.setPos]
  have hq : GQ g0 g := hg.toGQ
  refine MPred.bind (rowClampBottom_gq (rowClampTop_gq (by exact hq) _) _) ?_
  intro a ha
  exact colClamp_gq ha
theorem insertLines_gp (hg : GP g0 g) (n : Nat) : MPred (GP g0) (g.insertLines n) := by
  simp only [Grid.insertLines]
  refine iterateM_pred ?_ _ _ hg
  intro a hg
  mgp
theorem deleteLines_gp (hg : GP g0 g) (n : Nat) : MPred (GP g0) (g.deleteLines n) := by
  simp only [Grid.deleteLines]
  apply MPred.bind_any; intro d
  refine iterateM_pred ?_ _ _ hg
  intro a hg
  mgp
theorem scrollDown_gp (hg : GP g0 g) (n : Nat) : MPred (GP g0) (g.scrollDown n) := by
  simp only [Grid.scrollDown]
  refine iterateM_pred ?_ _ _ hg
  intro a hg
  mgp
theorem scrollUp_gp (hg : GP g0 g) (n : Nat) : MPred (GP g0) (g.scrollUp n) := by
  simp only [Grid.scrollUp, Grid.scrollRegionActive]
  apply MPred.bind_any; intro d
  refine iterateM_pred ?_ _ _ hg
  intro a hg
  mgp
theorem allocateRows_gp (hg : GP g0 g) : GP g0 g.allocateRows := by
  simp only [Grid.allocateRows]; split <;> exact hg
/-- DECRC copies the saved column to the live cursor: pending afterwards only if the saved cursor was -/
theorem restoreCursor_gp (hg : GP g0 g) : GP g0 g.restoreCursor := by
  obtain ⟨⟨h1, h2, h3⟩, h4⟩ := hg
  refine ⟨⟨h1, h3, h3⟩, ?_⟩
  intro h
  have h : g.savedPos.col = g.size.cols ∨ g.savedPos.col = g.size.cols := h
  exact h4 (Or.inr (by omega))
/-- DECSC copies the live column to the saved cursor: pending afterwards only if the live cursor was -/
theorem saveCursor_gp (hg : GP g0 g) : GP g0 g.saveCursor := by
  obtain ⟨⟨h1, h2, h3⟩, h4⟩ := hg
  refine ⟨⟨h1, h2, h2⟩, ?_⟩
  intro h
  have h : g.pos.col = g.size.cols ∨ g.pos.col = g.size.cols := h
  exact h4 (Or.inl (by omega))
theorem setScrollback_gp (hg : GP g0 g) (r : Nat) : GP g0 (g.setScrollback r) := hg
theorem eraseAll_gp (hg : GP g0 g) (a : Attrs) : GP g0 (g.eraseAll a) := hg
theorem modifyCurrentRow_gp (hg : GP g0 g) (f : Row → M Row) : MPred (GP g0) (g.modifyCurrentRow f) := by
  simp only [Grid.modifyCurrentRow]; mgp
theorem modifyCellM_gp (hg : GP g0 g) (site : Nat) (pos : Pos) (f : Cell → M Cell) :
    MPred (GP g0) (g.modifyCellM site pos f) := by
  simp only [Grid.modifyCellM]; mgp
theorem eraseRowForward_gp (hg : GP g0 g) (a : Attrs) : MPred (GP g0) (g.eraseRowForward a) :=
  modifyCurrentRow_gp hg _
theorem eraseRowBackward_gp (hg : GP g0 g) (a : Attrs) : MPred (GP g0) (g.eraseRowBackward a) := by
  simp only [Grid.eraseRowBackward]
  apply MPred.bind_any; intro c1
  exact modifyCurrentRow_gp hg _
theorem eraseAllForward_gp (hg : GP g0 g) (a : Attrs) : MPred (GP g0) (g.eraseAllForward a) := by
  simp only [Grid.eraseAllForward]
  exact eraseRowForward_gp (by exact hg) _
theorem eraseAllBackward_gp (hg : GP g0 g) (a : Attrs) : MPred (GP g0) (g.eraseAllBackward a) := by
  simp only [Grid.eraseAllBackward]
  exact eraseRowBackward_gp (by exact hg) _
theorem eraseRow_gp (hg : GP g0 g) (a : Attrs) : MPred (GP g0) (g.eraseRow a) :=
  modifyCurrentRow_gp hg _
theorem insertCells_gp (hg : GP g0 g) (n : Nat) : MPred (GP g0) (g.insertCells n) := by
  simp only [Grid.insertCells]
  mgp
theorem deleteCells_gp (hg : GP g0 g) (n : Nat) : MPred (GP g0) (g.deleteCells n) :=
  modifyCurrentRow_gp hg _
theorem eraseCells_gp (hg : GP g0 g) (n : Nat) (a : Attrs) : MPred (GP g0) (g.eraseCells n a) :=
  modifyCurrentRow_gp hg _
/-- DECSTBM homes the cursor to column 0 (`< cols`) -/
theorem setScrollRegion_gp (hg : GP g0 g) (t b : Nat) : MPred (GP g0) (g.setScrollRegion t b) := by
  obtain ⟨⟨h1, h2, h3⟩, h4⟩ := hg
  simp only [Grid.setScrollRegion]
  apply MPred.bind_any; intro b'
  apply MPred.pure
  refine ⟨⟨?_, ?_, ?_⟩, ?_⟩
  · split <;> exact h1
  · show 0 ≤ _; exact Nat.zero_le _
  · split <;> exact h3
  · intro h
    have h : 0 = (if t < min b b' then ({ g with scrollTop := t, scrollBottom := min b b' } : Grid)
        else { g with scrollTop := 0, scrollBottom := b' }).size.cols ∨
        (if t < min b b' then ({ g with scrollTop := t, scrollBottom := min b b' } : Grid)
        else { g with scrollTop := 0, scrollBottom := b' }).savedPos.col =
        (if t < min b b' then ({ g with scrollTop := t, scrollBottom := min b b' } : Grid)
        else { g with scrollTop := 0, scrollBottom := b' }).size.cols := h
    split at h
    · exact h4 (Or.inr (by simp only at h; omega))
    · exact h4 (Or.inr (by simp only at h; omega))
theorem setOriginMode_gp (hg : GP g0 g) (m : Bool) : MPred (GP g0) (g.setOriginMode m) := by
  simp only [Grid.setOriginMode]
  exact setPos_gp (by exact hg) _
theorem rowIncClamp_gp (hg : GP g0 g) (n : Nat) : MPred (GP g0) (g.rowIncClamp n) := by
  simp only [Grid.rowIncClamp]
  refine MPred.bind (rowClampBottom_gp (by exact hg) _) ?_
  intro a ha
  exact MPred.pure ha
theorem rowIncScroll_gp (hg : GP g0 g) (n : Nat) : MPred (fun p => GP g0 p.1) (g.rowIncScroll n) := by
  simp only [Grid.rowIncScroll]
  refine MPred.bind (rowClampBottom_gp (by exact hg) _) ?_
  intro a ha
  apply MPred.ite <;> intro _
  · refine MPred.bind (scrollUp_gp ha _) ?_
    intro a' ha'
    exact MPred.pure ha'
  · exact MPred.pure ha
theorem rowDecClamp_gp (hg : GP g0 g) (n : Nat) : GP g0 (g.rowDecClamp n) := by
  simp only [Grid.rowDecClamp]
  exact rowClampTop_gp (by exact hg) _
theorem rowDecScroll_gp (hg : GP g0 g) (n : Nat) : MPred (GP g0) (g.rowDecScroll n) := by
  simp only [Grid.rowDecScroll]
  exact scrollDown_gp (rowClampTop_gp (by exact hg) _) _
theorem rowSet_gp (hg : GP g0 g) (i : Nat) : MPred (GP g0) (g.rowSet i) := by
  simp only [Grid.rowSet]
  exact rowClamp_gp (by exact hg)
/-- moving left: the column can reach `cols` only by staying there (`col ≤ cols` is used here) -/
theorem colDec_gp (hg : GP g0 g) (n : Nat) : GP g0 (g.colDec n) := by
  obtain ⟨⟨h1, h2, h3⟩, h4⟩ := hg
  refine ⟨⟨h1, ?_, h3⟩, ?_⟩
  · show g.pos.col - n ≤ g.size.cols; omega
  · intro h
    have h : g.pos.col - n = g.size.cols ∨ g.savedPos.col = g.size.cols := h
    exact h4 (by unfold Grid.pend; omega)
theorem colIncClamp_gp (hg : GP g0 g) (n : Nat) : MPred (GP g0) (g.colIncClamp n) := by
  simp only [Grid.colIncClamp, Grid.colInc]
  have hq : GQ g0 g := hg.toGQ
  exact colClamp_gq (by exact hq)
theorem colTab_gp (hg : GP g0 g) : MPred (GP g0) g.colTab := by
  simp only [Grid.colTab]
  have hq : GQ g0 g := hg.toGQ
  exact colClamp_gq (by exact hq)
theorem colSet_gp (hg : GP g0 g) (i : Nat) : MPred (GP g0) (g.colSet i) := by
  simp only [Grid.colSet]
  have hq : GQ g0 g := hg.toGQ
  exact colClamp_gq (by exact hq)
theorem cnl_gp (hg : GP g0 g) (n : Nat) : MPred (GP g0) (g.cnl n) :=
  MPred.bind (colSet_gp hg 0) (fun a ha => rowIncClamp_gp ha n)
theorem cpl_gp (hg : GP g0 g) (n : Nat) : MPred (GP g0) (g.cpl n) :=
  MPred.bind (colSet_gp hg 0) (fun a ha => MPred.pure (rowDecClamp_gp ha n))
theorem appendToPrev_gp (hg : GP g0 g) (row col c : Nat) : MPred (GP g0) (g.appendToPrev row col c) := by
  simp only [Grid.appendToPrev]
  apply MPred.bind_any; intro pc
  apply MPred.ite <;> intro _
  · apply MPred.bind_any; intro c2
    exact modifyCellM_gp hg _ _ _
  · exact modifyCellM_gp hg _ _ _
theorem textZero_gp (hg : GP g0 g) (c : Nat) : MPred (GP g0) (g.textZero c) := by
  simp only [Grid.textZero]
  mgp
/-- the cursor with column 0 -/
theorem col0_gp (hg : GP g0 g) : GP g0 { g with pos := { g.pos with col := 0 } } := by
  obtain ⟨⟨h1, h2, h3⟩, h4⟩ := hg
  refine ⟨⟨h1, Nat.zero_le _, h3⟩, ?_⟩
  intro h
  have h : 0 = g.size.cols ∨ g.savedPos.col = g.size.cols := h
  exact h4 (Or.inr (by omega))
/-- `col_wrap` keeps the column or sets it to 0 -/
theorem colWrap_gp (hg : GP g0 g) (w : Nat) (wr : Bool) : MPred (GP g0) (g.colWrap w wr) := by
  simp only [Grid.colWrap]
  apply MPred.bind_any; intro lim
  apply MPred.ite <;> intro _
  · refine MPred.bind (rowIncScroll_gp (col0_gp hg) 1) ?_
    intro a ha
    apply MPred.ite <;> intro _
    · exact MPred.pure ha
    · apply MPred.bind_any; intro pr
      apply MPred.bind_any; intro rows
      exact MPred.pure ha
  · exact MPred.pure hg
/-- `Grid::clear` (of `CSI ? 1049 h`) homes both cursors -/
theorem clear_gp (hg : GP g0 g) : MPred (GP g0) g.clear := by
  obtain ⟨⟨h1, h2, h3⟩, h4⟩ := hg
  simp only [Grid.clear]
  apply MPred.bind_any; intro b
  apply MPred.pure
  refine ⟨⟨h1, Nat.zero_le _, Nat.zero_le _⟩, ?_⟩
  intro h
  have h : 0 = g.size.cols ∨ 0 = g.size.cols := h
  omega

end gp

/-! ## 2. `text`: only a character of non-zero width that is really written advances the cursor -/

open Vt.C05 in
/-- `Screen::text` reaches the cell writes and `col_inc` with `c` on a grid of `cols` columns: `c` is
not dropped as a control character (`width() = None` below U+0100), its clamped width
(`effWidth W c = min (width.unwrap_or(1)) 2`) is 1 or 2, and it is not dropped as too wide for the screen -/
def EffText (W : Nat → Option Nat) (cols c : Nat) : Prop :=
  ¬ (W c = none ∧ c < 256) ∧ 1 ≤ effWidth W c ∧ effWidth W c ≤ cols

instance (W : Nat → Option Nat) (cols c : Nat) : Decidable (EffText W cols c) := by
  unfold EffText; infer_instance

open Vt.C05 in
theorem text_gp (W : Nat → Option Nat) {g0 g : Grid} (hg : GP g0 g) (a : Attrs) (c : Nat)
    (hne : ¬ EffText W g.size.cols c) : MPred (GP g0) (g.text W a c) := by
  simp only [Grid.text]
  apply MPred.ite <;> intro h1
  · exact MPred.pure hg
  · apply MPred.ite <;> intro h2
    · exact MPred.pure hg
    · apply MPred.bind_any; intro wr
      refine MPred.bind (colWrap_gp hg _ _) ?_
      intro a' ha
      apply MPred.ite <;> intro h3
      · exact textZero_gp ha _
      · exfalso
        apply hne
        refine ⟨?_, ?_, ?_⟩
        · rintro ⟨e1, e2⟩
          apply h1
          simp [e1, e2]
        · simp only [beq_iff_eq] at h3
          unfold effWidth; omega
        · unfold effWidth; omega

/-! ## 3. screens -/

/-- `s` is well-formed (columns) and has a pending cursor only if `s0` had one -/
def SP (s0 s : Screen) : Prop := SColsOk s ∧ (s.pend → s0.pend)

theorem SP.refl {s : Screen} (h : SColsOk s) : SP s s := ⟨h, id⟩

/-- both grids step by `GP` -/
theorem SP.step {s0 s s' : Screen} (hs : SP s0 s) (h1 : GP s.grid s'.grid) (h2 : GP s.altGrid s'.altGrid) :
    SP s0 s' :=
  ⟨⟨h1.1, h2.1⟩, fun hp => hs.2 (hp.elim (fun x => Or.inl (h1.2 x)) (fun x => Or.inr (h2.2 x)))⟩

section sp
variable {s0 s : Screen}

theorem modifyGrid_sp' {f : Grid → M Grid} (hs : SP s0 s) (hf : GP s.cur s.cur → MPred (GP s.cur) (f s.cur)) :
    MPred (SP s0) (s.modifyGrid f) := by
  simp only [Screen.modifyGrid]
  cases ha : s.altScreen
  · simp only [Screen.cur, ha, Bool.false_eq_true, ↓reduceIte] at hf ⊢
    refine MPred.bind (hf (GP.refl hs.1.1)) ?_
    intro a h'
    exact MPred.pure (SP.step hs h' (GP.refl hs.1.2))
  · simp only [Screen.cur, ha, ↓reduceIte] at hf ⊢
    refine MPred.bind (hf (GP.refl hs.1.2)) ?_
    intro a h'
    exact MPred.pure (SP.step hs (GP.refl hs.1.1) h')

theorem modifyGrid_sp {f : Grid → M Grid} (hf : ∀ g0 g, GP g0 g → MPred (GP g0) (f g)) (hs : SP s0 s) :
    MPred (SP s0) (s.modifyGrid f) :=
  modifyGrid_sp' hs (hf _ _)

theorem enterAlternateGrid_sp (hs : SP s0 s) : MPred (SP s0) s.enterAlternateGrid := by
  simp only [Screen.enterAlternateGrid]
  refine MPred.bind (modifyGrid_sp (fun g0 g hk => MPred.pure (setScrollback_gp hk 0)) hs) ?_
  intro a h'
  apply MPred.pure
  exact SP.step h' (GP.refl h'.1.1) (allocateRows_gp (GP.refl h'.1.2))

theorem exitAlternateGrid_sp (hs : SP s0 s) : SP s0 s.exitAlternateGrid := hs

theorem sSaveCursor_sp (hs : SP s0 s) : MPred (SP s0) s.saveCursor := by
  simp only [Screen.saveCursor]
  refine MPred.bind (modifyGrid_sp (fun g0 g hk => MPred.pure (saveCursor_gp hk)) hs) ?_
  intro a h'
  exact MPred.pure h'

theorem sRestoreCursor_sp (hs : SP s0 s) : MPred (SP s0) s.restoreCursor := by
  simp only [Screen.restoreCursor]
  refine MPred.bind (modifyGrid_sp (fun g0 g hk => MPred.pure (restoreCursor_gp hk)) hs) ?_
  intro a h'
  exact MPred.pure h'

/-- what `Screen::new` builds: both grids of the requested size, all four cursors at (0,0) -/
theorem new_cursors {size : Size} {sb : Nat} {s : Screen} (h : Screen.new size sb = .ok s) :
    s.grid.size = size ∧ s.altGrid.size = size ∧ s.grid.pos = ⟨0, 0⟩ ∧ s.grid.savedPos = ⟨0, 0⟩ ∧
    s.altGrid.pos = ⟨0, 0⟩ ∧ s.altGrid.savedPos = ⟨0, 0⟩ := by
  simp only [Screen.new, Grid.new] at h
  obtain ⟨g, hg, hs⟩ := bind_eq_ok.mp h
  obtain ⟨ag, hag, hs⟩ := bind_eq_ok.mp hs
  simp only [pure_eq_ok, Except.ok.injEq] at hs
  subst hs
  obtain ⟨b, _, hg⟩ := bind_eq_ok.mp hg
  obtain ⟨b', _, hag⟩ := bind_eq_ok.mp hag
  simp only [pure_eq_ok, Except.ok.injEq] at hg hag
  subst hg hag
  simp only [Grid.allocateRows]
  split <;> simp

/-- a new screen with at least one column is well-formed and has no pending cursor -/
theorem new_colsOk_not_pend {size : Size} {sb : Nat} {s : Screen} (hc : 1 ≤ size.cols)
    (h : Screen.new size sb = .ok s) : SColsOk s ∧ ¬ s.pend := by
  obtain ⟨h1, h2, h3, h4, h5, h6⟩ := new_cursors h
  refine ⟨⟨⟨?_, ?_, ?_⟩, ⟨?_, ?_, ?_⟩⟩, ?_⟩
  · rw [h1]; exact hc
  · rw [h3]; exact Nat.zero_le _
  · rw [h4]; exact Nat.zero_le _
  · rw [h2]; exact hc
  · rw [h5]; exact Nat.zero_le _
  · rw [h6]; exact Nat.zero_le _
  · unfold Screen.pend Grid.pend
    rw [h1, h2, h3, h4, h5, h6]
    simp only
    omega

/-- RIS -/
theorem ris_sp (hs : SP s0 s) : MPred (SP s0) s.ris := by
  rw [MPred.iff]
  intro s' h
  obtain ⟨h1, h2⟩ := new_colsOk_not_pend hs.1.1.1 h
  exact ⟨h1, fun hp => absurd hp h2⟩

abbrev OSP (s0 : Screen) (o : Option Screen) : Prop := ∀ s', o = some s' → SP s0 s'

theorem some_sp {m : M Screen} (h : MPred (SP s0) m) :
    MPred (OSP s0) (do let s ← m; pure (some s)) :=
  MPred.bind h (fun a h' => MPred.pure (fun s' e => by cases e; exact h'))

/-- every DECSET, `?1049h` included (DECSC, then the alternate grid is cleared: cursors homed) -/
theorem decsetOne_sp (hs : SP s0 s) (p : List Nat) : MPred (OSP s0) (s.decsetOne p) := by
  unfold Screen.decsetOne
  split
  all_goals first
    | (apply MPred.pure; intro s' e; cases e; exact hs)
    | skip
  · exact some_sp (modifyGrid_sp (fun g0 g hk => setOriginMode_gp hk _) hs)
  · exact some_sp (enterAlternateGrid_sp hs)
  · refine MPred.bind (sSaveCursor_sp hs) ?_
    intro s1 h1
    refine MPred.bind (clear_gp (GP.refl h1.1.2)) ?_
    intro ag hag
    exact some_sp (enterAlternateGrid_sp (SP.step h1 (GP.refl h1.1.1) hag))
  · exact MPred.pure (fun s' e => nomatch e)

/-- every DECRST, `?1049l` included (DECRC on the primary grid) -/
theorem decrstOne_sp (hs : SP s0 s) (p : List Nat) : MPred (OSP s0) (s.decrstOne p) := by
  unfold Screen.decrstOne
  split
  all_goals first
    | (apply MPred.pure; intro s' e
       cases e <;> first
         | exact hs
         | (simp only [Screen.clearMouseMode, Screen.clearMouseEnc]; split <;> exact hs))
    | skip
  · exact some_sp (modifyGrid_sp (fun g0 g hk => setOriginMode_gp hk _) hs)
  · exact some_sp (sRestoreCursor_sp (exitAlternateGrid_sp hs))

theorem edMode_sp (hs : SP s0 s) (m : Nat) : MPred (OSP s0) (s.edMode m) := by
  unfold Screen.edMode
  split
  · exact some_sp (modifyGrid_sp (fun g0 g hk => eraseAllForward_gp hk _) hs)
  · exact some_sp (modifyGrid_sp (fun g0 g hk => eraseAllBackward_gp hk _) hs)
  · exact some_sp (modifyGrid_sp (fun g0 g hk => MPred.pure (eraseAll_gp hk _)) hs)
  · exact MPred.pure (fun s' e => nomatch e)

theorem elMode_sp (hs : SP s0 s) (m : Nat) : MPred (OSP s0) (s.elMode m) := by
  unfold Screen.elMode
  split
  · exact some_sp (modifyGrid_sp (fun g0 g hk => eraseRowForward_gp hk _) hs)
  · exact some_sp (modifyGrid_sp (fun g0 g hk => eraseRowBackward_gp hk _) hs)
  · exact some_sp (modifyGrid_sp (fun g0 g hk => eraseRow_gp hk _) hs)
  · exact MPred.pure (fun s' e => nomatch e)

end sp

/-! ## 4. `set_size`, `set_scrollback`, `Screen::new` (theorems 1-3) -/

/-- `Grid::set_size` — whenever it returns — leaves the new size with at least one column and both
cursors, live and saved, strictly below it (`col_clamp`, and the `min` on the saved position) -/
theorem gridSetSize_cols (g : Grid) (size : Size) :
    MPred (fun g' => g'.size = size ∧ 1 ≤ size.cols ∧ g'.pos.col < size.cols ∧ g'.savedPos.col < size.cols)
      (g.setSize size) := by
  have tail : ∀ g2 : Grid, g2.size = size →
      MPred (fun g' => g'.size = size ∧ 1 ≤ size.cols ∧ g'.pos.col < size.cols ∧ g'.savedPos.col < size.cols)
        (g2.rowClampBottom false >>= fun x => x.fst.colClamp >>= fun g => subM 4091 size.rows 1 >>= fun r1 =>
          subM 4092 size.cols 1 >>= fun c1 =>
            pure { g with savedPos := ⟨min g.savedPos.row r1, min g.savedPos.col c1⟩ }) := by
    intro g2 hg2
    refine MPred.bind (Q := fun p => p.1.size = size) ?_ ?_
    · simp only [Grid.rowClampBottom]
      apply MPred.bind_any; intro b
      apply MPred.ite <;> intro _ <;> exact MPred.pure hg2
    · intro p hp
      refine MPred.bind (Q := fun g3 => g3.size = size ∧ 1 ≤ size.cols ∧ g3.pos.col < size.cols) ?_ ?_
      · rw [MPred.iff]
        intro g3 h3
        simp only [Grid.colClamp] at h3
        obtain ⟨b, hb, h3⟩ := bind_eq_ok.mp h3
        rw [subM_eq_ok] at hb
        simp only [pure_eq_ok, Except.ok.injEq] at h3
        subst h3
        rw [hp] at hb
        split
        · exact ⟨hp, hb.1, by show b < size.cols; omega⟩
        · exact ⟨hp, hb.1, by rw [hp] at *; omega⟩
      · intro g3 h3
        obtain ⟨e1, e2, e3⟩ := h3
        apply MPred.bind_any; intro r1
        simp only [subM_ok e2, ok_bind]
        apply MPred.pure
        refine ⟨e1, e2, e3, ?_⟩
        show min g3.savedPos.col (size.cols - 1) < size.cols
        omega
  simp only [Grid.setSize, Grid.rowClampTop, Bool.false_and, Bool.false_eq_true, ↓reduceIte]
  apply MPred.bind_any; intro oldB
  apply MPred.ite <;> intro _ <;> (apply MPred.bind_any; intro sb1) <;> (apply MPred.ite <;> intro _) <;>
    (apply MPred.bind_any; intro sb2) <;> exact tail _ rfl

/-- **2. `set_size` clears every pending position**, live and saved, on both grids.  No hypothesis
is needed: `set_size` panics (model: `.error`) unless `rows, cols ≥ 1`. -/
theorem setSize_colsOk_not_pend {s s' : Screen} {r c : Nat} (h : s.setSize r c = .ok s') :
    SColsOk s' ∧ ¬ s'.pend := by
  simp only [Screen.setSize] at h
  obtain ⟨g, hg, h⟩ := bind_eq_ok.mp h
  obtain ⟨ag, hag, h⟩ := bind_eq_ok.mp h
  simp only [pure_eq_ok, Except.ok.injEq] at h
  subst h
  obtain ⟨a1, a2, a3, a4⟩ := MPred.iff.mp (gridSetSize_cols s.grid ⟨r, c⟩) g hg
  obtain ⟨b1, b2, b3, b4⟩ := MPred.iff.mp (gridSetSize_cols s.altGrid ⟨r, c⟩) ag hag
  simp only at a2 a3 a4 b2 b3 b4
  refine ⟨⟨⟨?_, ?_, ?_⟩, ⟨?_, ?_, ?_⟩⟩, ?_⟩
  · show 1 ≤ g.size.cols; rw [a1]; exact a2
  · show g.pos.col ≤ g.size.cols; rw [a1]; exact Nat.le_of_lt a3
  · show g.savedPos.col ≤ g.size.cols; rw [a1]; exact Nat.le_of_lt a4
  · show 1 ≤ ag.size.cols; rw [b1]; exact b2
  · show ag.pos.col ≤ ag.size.cols; rw [b1]; exact Nat.le_of_lt b3
  · show ag.savedPos.col ≤ ag.size.cols; rw [b1]; exact Nat.le_of_lt b4
  · intro hp
    have hp : (g.pos.col = g.size.cols ∨ g.savedPos.col = g.size.cols) ∨
        (ag.pos.col = ag.size.cols ∨ ag.savedPos.col = ag.size.cols) := hp
    rw [a1, b1] at hp
    simp only at hp
    omega

/-- **2** in the form of the task -/
theorem setSize_not_pend (W : Nat → Option Nat) {s s' : Screen} {r c : Nat} (hi : Inv W s) (hr : 1 ≤ r) (hc : 1 ≤ c)
    (h : s.setSize r c = .ok s') : ¬ s'.pend :=
  (setSize_colsOk_not_pend h).2

/-- **1. a new screen has no pending cursor** -/
theorem new_not_pend {rows cols sb : Nat} {s : Screen} (hr : 1 ≤ rows) (hc : 1 ≤ cols)
    (h : Screen.new ⟨rows, cols⟩ sb = .ok s) : ¬ s.pend :=
  (new_colsOk_not_pend hc h).2

/-- **3. `set_scrollback` does not change `pend`** (nor any cursor or size) -/
theorem setScrollback_pend {s s' : Screen} {k : Nat} (h : s.setScrollback k = .ok s') :
    (s'.pend ↔ s.pend) ∧ (SColsOk s' ↔ SColsOk s) := by
  simp only [Screen.setScrollback] at h
  rcases modifyGrid_eq_ok.mp h with ⟨_, g, hg, rfl⟩ | ⟨_, g, hg, rfl⟩
  all_goals
    simp only [pure_eq_ok, Except.ok.injEq] at hg
    subst hg
    exact ⟨Iff.rfl, Iff.rfl⟩

/-! ## 5. callbacks, the wrapped screen, `perform` (theorem 4) -/

/-- a callback policy that itself creates no pending position: on a screen whose columns are
well-formed (`SColsOk`, part of `Inv`) it returns one that still is, and that has a pending cursor
only if the screen it was handed had one -/
def CbNoPend (cb : CbPolicy) : Prop :=
  ∀ e s s', SColsOk s → cb e s = .ok s' → SColsOk s' ∧ (s'.pend → s.pend)

theorem cbNone_noPend : CbNoPend cbNone := by
  intro e s s' hs h
  simp only [cbNone, pure_eq_ok, Except.ok.injEq] at h
  subst h
  exact ⟨hs, id⟩

/-- the resizing callback: `set_size` leaves no pending cursor at all -/
theorem cbResize_noPend : CbNoPend cbResize := by
  intro e s s' hs h
  cases e with
  | resize r c =>
    simp only [cbResize] at h
    split at h
    · obtain ⟨h1, h2⟩ := setSize_colsOk_not_pend h
      exact ⟨h1, fun hp => absurd hp h2⟩
    · simp only [pure_eq_ok, Except.ok.injEq] at h
      subst h
      exact ⟨hs, id⟩
  | _ =>
    simp only [cbResize, pure_eq_ok, Except.ok.injEq] at h
    subst h
    exact ⟨hs, id⟩

theorem CbNoPend.sp {cb : CbPolicy} (hcb : CbNoPend cb) (e : Event) {s0 s : Screen} (hs : SP s0 s) :
    MPred (SP s0) (cb e s) := by
  rw [MPred.iff]
  intro s' h
  obtain ⟨h1, h2⟩ := hcb e s s' hs.1 h
  exact ⟨h1, fun hp => hs.2 (h2 hp)⟩

/-- a step of the wrapped screen that creates no pending cursor -/
def WSP (f : WS → M WS) : Prop := ∀ s0 ws, SP s0 ws.screen → MPred (fun ws' => SP s0 ws'.screen) (f ws)

section wsp
variable {cb : CbPolicy}

theorem emit_sp (hcb : CbNoPend cb) (e : Event) : WSP (emit cb e) := by
  intro s0 ws hs
  simp only [emit]
  refine MPred.bind (hcb.sp e hs) ?_
  intro a h'
  exact MPred.pure h'

theorem onScreen_sp {f : Screen → M Screen} (hf : ∀ s0 s, SP s0 s → MPred (SP s0) (f s)) :
    WSP (fun ws => ws.onScreen f) := by
  intro s0 ws hs
  simp only [WS.onScreen]
  refine MPred.bind (hf s0 _ hs) ?_
  intro a h'
  exact MPred.pure h'

theorem onGrid_sp {f : Screen → Grid → M Grid} (hf : ∀ s g0 g, GP g0 g → MPred (GP g0) (f s g)) :
    WSP (fun ws => ws.onScreen (fun s => s.modifyGrid (f s))) :=
  onScreen_sp (fun s0 s hs => modifyGrid_sp (hf s) hs)

theorem arm_sp {unh : WS → M WS} (hunh : WSP unh) {arm : Screen → M (Option Screen)}
    (harm : ∀ s0 s, SP s0 s → MPred (OSP s0) (arm s)) :
    WSP (fun ws => do
      match ← arm ws.screen with
      | some s => pure { ws with screen := s }
      | none => unh ws) := by
  intro s0 ws hs
  simp only
  refine MPred.bind (harm s0 _ hs) ?_
  intro o ho
  cases o with
  | none => exact hunh s0 ws hs
  | some s' => exact MPred.pure (ho s' rfl)

theorem fold_sp {α} {step : WS → α → M WS} (hstep : ∀ x, WSP (fun ws => step ws x)) :
    ∀ (xs : List α), WSP (fun ws => xs.foldlM step ws) := by
  intro xs
  induction xs with
  | nil => intro s0 ws hs; exact MPred.pure hs
  | cons x xs ih =>
    intro s0 ws hs
    simp only [List.foldlM]
    exact MPred.bind (hstep x s0 ws hs) (fun a h' => ih s0 a h')

theorem sgrLoop_sp {unh : WS → M WS} (hunh : WSP unh) (ps : List (List Nat)) : WSP (sgrLoop unh ps) := by
  intro s0 ws
  fun_induction sgrLoop unh ps ws <;> intro hs
  all_goals first
    | exact MPred.pure hs
    | (rename_i ih; exact ih hs)
    | exact hunh s0 _ hs
    | (rename_i ih; exact MPred.bind (hunh s0 _ hs) (fun a h' => ih a h'))

theorem sgr_sp {unh : WS → M WS} (hunh : WSP unh) (ps : List (List Nat)) : WSP (sgr unh ps) := by
  intro s0 ws hs
  unfold sgr
  split
  · exact MPred.pure hs
  · exact sgrLoop_sp hunh ps s0 ws hs

theorem performExecute_sp (hcb : CbNoPend cb) (b : Nat) : WSP (fun ws => performExecute cb ws b) := by
  intro s0 ws hs
  simp only [performExecute]
  split
  all_goals first
    | exact emit_sp hcb _ s0 ws hs
    | exact MPred.pure hs
    | exact onGrid_sp (f := fun _ g => pure (g.colDec 1)) (fun s g0 g hk => MPred.pure (colDec_gp hk 1)) s0 ws hs
    | exact onGrid_sp (f := fun _ g => g.colTab) (fun s g0 g hk => colTab_gp hk) s0 ws hs
    | exact onGrid_sp (f := fun _ g => g.colSet 0) (fun s g0 g hk => colSet_gp hk 0) s0 ws hs
    | exact onGrid_sp (f := fun _ g => do let (g, _) ← g.rowIncScroll 1; pure g)
        (fun s g0 g hk => MPred.bind (rowIncScroll_gp hk 1) (fun p hp => MPred.pure hp)) s0 ws hs

open Vt.C05 in
/-- **an effective print**: `Perform::print(c)` reaches `Screen::text` (`c` is not in the C1 range,
which is routed to `execute`, and is not U+FFFD), and `text` writes it with non-zero width on the
active grid (`EffText`) -/
def EffPrint (W : Nat → Option Nat) (s : Screen) (c : Nat) : Prop :=
  ¬ (0x80 ≤ c ∧ c < 0xA0) ∧ c ≠ 0xFFFD ∧ EffText W s.cur.size.cols c

instance (W : Nat → Option Nat) (s : Screen) (c : Nat) : Decidable (EffPrint W s c) := by
  unfold EffPrint; infer_instance

/-- the action is an effective print on screen `s` -/
def EffAction (W : Nat → Option Nat) (s : Screen) : Action → Prop
  | .print c => EffPrint W s c
  | _ => False

instance (W : Nat → Option Nat) (s : Screen) (a : Action) : Decidable (EffAction W s a) := by
  cases a <;> simp only [EffAction] <;> infer_instance

theorem perform_sp (W : Nat → Option Nat) (hcb : CbNoPend cb) (a : Action) (s0 : Screen) (ws : WS)
    (hs : SP s0 ws.screen) (hne : ¬ EffAction W ws.screen a) :
    MPred (fun ws' => SP s0 ws'.screen) (perform W cb ws a) := by
  have hunh : ∀ e, WSP (emit cb e) := fun e => emit_sp hcb e
  cases a with
  | print c =>
    simp only [perform, performPrint]
    apply MPred.ite <;> intro h1
    · exact performExecute_sp hcb c s0 ws hs
    · apply MPred.ite <;> intro h2
      · exact hunh _ s0 ws hs
      · simp only [WS.onScreen, Screen.text]
        refine MPred.bind (modifyGrid_sp' hs (fun hk => text_gp W hk _ c ?_)) (fun a h' => MPred.pure h')
        intro he
        apply hne
        refine ⟨?_, ?_, he⟩
        · intro hc; apply h1; simp [hc.1, hc.2]
        · intro hc; apply h2; simp [hc]
  | execute b => exact performExecute_sp hcb b s0 ws hs
  | hook _ _ _ _ => exact MPred.pure hs
  | put _ => exact MPred.pure hs
  | unhook => exact MPred.pure hs
  | oscDispatch params _ =>
    simp only [perform, performOsc]
    split
    · exact MPred.bind (hunh _ s0 ws hs) (fun a h' => hunh _ s0 a h')
    all_goals exact hunh _ s0 ws hs
  | escDispatch ints ig b =>
    simp only [perform, performEsc]
    split
    · exact hunh _ s0 ws hs
    · split
      · exact onScreen_sp (f := Screen.decsc) (fun s0 s hs => sSaveCursor_sp hs) s0 ws hs
      · exact onScreen_sp (f := Screen.decrc) (fun s0 s hs => sRestoreCursor_sp hs) s0 ws hs
      · exact MPred.pure hs
      · exact MPred.pure hs
      · exact onGrid_sp (f := fun _ g => g.rowDecScroll 1) (fun s g0 g hk => rowDecScroll_gp hk 1) s0 ws hs
      · exact onScreen_sp (f := Screen.ris) (fun s0 s hs => ris_sp hs) s0 ws hs
      · exact hunh _ s0 ws hs
      · exact hunh _ s0 ws hs
  | csiDispatch params ints ig c =>
    simp only [perform, performCsi]
    split
    · split
      · exact onGrid_sp (f := fun _ g => g.insertCells (canon1 params 1))
          (fun s g0 g hk => insertCells_gp hk _) s0 ws hs
      · exact onGrid_sp (f := fun _ g => pure (g.rowDecClamp (canon1 params 1)))
          (fun s g0 g hk => MPred.pure (rowDecClamp_gp hk _)) s0 ws hs
      · exact onGrid_sp (f := fun _ g => g.rowIncClamp (canon1 params 1))
          (fun s g0 g hk => rowIncClamp_gp hk _) s0 ws hs
      · exact onGrid_sp (f := fun _ g => g.colIncClamp (canon1 params 1))
          (fun s g0 g hk => colIncClamp_gp hk _) s0 ws hs
      · exact onGrid_sp (f := fun _ g => pure (g.colDec (canon1 params 1)))
          (fun s g0 g hk => MPred.pure (colDec_gp hk _)) s0 ws hs
      · exact onGrid_sp (f := fun _ g => g.cnl (canon1 params 1))
          (fun s g0 g hk => cnl_gp hk _) s0 ws hs
      · exact onGrid_sp (f := fun _ g => g.cpl (canon1 params 1))
          (fun s g0 g hk => cpl_gp hk _) s0 ws hs
      · refine onScreen_sp (f := fun s => s.cha (canon1 params 1)) ?_ s0 ws hs
        intro s0 s hs
        simp only [Screen.cha]
        apply MPred.bind_any; intro x
        exact modifyGrid_sp (fun g0 g hk => colSet_gp hk _) hs
      · refine onScreen_sp (f := fun s => s.cup (canon2 params 1 1).1 (canon2 params 1 1).2) ?_ s0 ws hs
        intro s0 s hs
        simp only [Screen.cup]
        apply MPred.bind_any; intro x
        apply MPred.bind_any; intro y
        exact modifyGrid_sp (fun g0 g hk => setPos_gp hk _) hs
      · exact arm_sp (hunh _) (arm := fun s => s.edMode (canon1 params 0))
          (fun s0 s hs => edMode_sp hs _) s0 ws hs
      · exact arm_sp (hunh _) (arm := fun s => s.elMode (canon1 params 0))
          (fun s0 s hs => elMode_sp hs _) s0 ws hs
      · exact onGrid_sp (f := fun _ g => g.insertLines (canon1 params 1))
          (fun s g0 g hk => insertLines_gp hk _) s0 ws hs
      · exact onGrid_sp (f := fun _ g => g.deleteLines (canon1 params 1))
          (fun s g0 g hk => deleteLines_gp hk _) s0 ws hs
      · exact onGrid_sp (f := fun _ g => g.deleteCells (canon1 params 1))
          (fun s g0 g hk => deleteCells_gp hk _) s0 ws hs
      · exact onGrid_sp (f := fun _ g => g.scrollUp (canon1 params 1))
          (fun s g0 g hk => scrollUp_gp hk _) s0 ws hs
      · exact onGrid_sp (f := fun _ g => g.scrollDown (canon1 params 1))
          (fun s g0 g hk => scrollDown_gp hk _) s0 ws hs
      · exact onGrid_sp (f := fun s g => g.eraseCells (canon1 params 1) s.attrs)
          (fun s g0 g hk => eraseCells_gp hk _ _) s0 ws hs
      · refine onScreen_sp (f := fun s => s.vpa (canon1 params 1)) ?_ s0 ws hs
        intro s0 s hs
        simp only [Screen.vpa]
        apply MPred.bind_any; intro x
        exact modifyGrid_sp (fun g0 g hk => rowSet_gp hk _) hs
      · exact sgr_sp (hunh _) params s0 ws hs
      · refine onScreen_sp (f := fun s => s.decstbm (canon2 params 1 s.cur.size.rows).1
            (canon2 params 1 s.cur.size.rows).2) ?_ s0 ws hs
        intro s0 s hs
        simp only [Screen.decstbm]
        apply MPred.bind_any; intro x
        apply MPred.bind_any; intro y
        exact modifyGrid_sp (fun g0 g hk => setScrollRegion_gp hk _ _) hs
      · apply MPred.ite <;> intro _
        · exact hunh _ s0 ws hs
        · exact hunh _ s0 ws hs
      · exact hunh _ s0 ws hs
    · split
      · exact arm_sp (hunh _) (arm := fun s => s.edMode (canon1 params 0))
          (fun s0 s hs => edMode_sp hs _) s0 ws hs
      · exact arm_sp (hunh _) (arm := fun s => s.elMode (canon1 params 0))
          (fun s0 s hs => elMode_sp hs _) s0 ws hs
      · exact fold_sp (fun p => arm_sp (hunh _) (arm := fun s => s.decsetOne p)
          (fun s0 s hs => decsetOne_sp hs p)) params s0 ws hs
      · exact fold_sp (fun p => arm_sp (hunh _) (arm := fun s => s.decrstOne p)
          (fun s0 s hs => decrstOne_sp hs p)) params s0 ws hs
      · exact hunh _ s0 ws hs
    · exact hunh _ s0 ws hs

end wsp

/-- **4. the frame theorem: no action other than an effective print creates a pending cursor.**
Every `Action` — `execute`, every CSI / ESC / OSC / DCS dispatch with any parameters (cursor movement,
CUP, CHA, tabs, DECSC / DECRC, `?47` / `?1049` both ways, RIS, DECSTBM, origin mode, scrolling, erasing,
insertion / deletion, the resize request `CSI 8 ; r ; c t` with a callback that calls `set_size`, unknown
sequences) and `print c` when it is not an effective print (C1 range, U+FFFD, control characters,
zero-width characters, characters too wide for the screen) —
and every callback policy that itself creates no pending position: if some cursor (live or saved,
primary or alternate grid) is in column `cols` afterwards, one already was before. -/
theorem perform_no_new_pend (W : Nat → Option Nat) {cb : CbPolicy} (hcb : CbNoPend cb) (ws ws' : WS) (a : Action)
    (hne : ¬ EffAction W ws.screen a) (hinv : Inv W ws.screen) (h : perform W cb ws a = .ok ws') :
    ws'.screen.pend → ws.screen.pend :=
  (MPred.iff.mp (perform_sp W hcb a _ ws (SP.refl (sColsOk_of_inv hinv)) hne) ws' h).2

/-- the same from the weaker hypothesis `SColsOk` (no assumption on rows, cells, regions), with the
preservation of `SColsOk` -/
theorem perform_no_new_pend' (W : Nat → Option Nat) {cb : CbPolicy} (hcb : CbNoPend cb) (ws ws' : WS) (a : Action)
    (hne : ¬ EffAction W ws.screen a) (hok : SColsOk ws.screen) (h : perform W cb ws a = .ok ws') :
    SColsOk ws'.screen ∧ (ws'.screen.pend → ws.screen.pend) :=
  MPred.iff.mp (perform_sp W hcb a _ ws (SP.refl hok) hne) ws' h

/-- contrapositive: from a state with no pending cursor, nothing but an effective print creates one -/
theorem perform_not_pend (W : Nat → Option Nat) {cb : CbPolicy} (hcb : CbNoPend cb) (ws ws' : WS) (a : Action)
    (hinv : Inv W ws.screen) (hnp : ¬ ws.screen.pend) (h : perform W cb ws a = .ok ws')
    (hp : ws'.screen.pend) : EffAction W ws.screen a :=
  Decidable.byContradiction (fun hne => hnp (perform_no_new_pend W hcb ws ws' a hne hinv h hp))

/-! ## 6. where a new pending cursor comes from (theorem 5) -/

theorem cur_pend_of {s : Screen} (h : s.cur.pend) : s.pend := by
  unfold Screen.cur at h
  split at h
  · exact Or.inr h
  · exact Or.inl h

theorem cur_colsOk {s : Screen} (h : SColsOk s) : ColsOk s.cur := by
  unfold Screen.cur
  split
  · exact h.2
  · exact h.1

/-- the grid that is NOT active -/
def _root_.Vt.Screen.other (s : Screen) : Grid := if s.altScreen then s.grid else s.altGrid

theorem pend_iff_cur_other (s : Screen) : s.pend ↔ s.cur.pend ∨ s.other.pend := by
  unfold Screen.pend Screen.cur Screen.other
  cases s.altScreen
  · simp only [Bool.false_eq_true, ↓reduceIte]
  · simp only [↓reduceIte]; exact Or.comm

theorem withCur_other (s : Screen) (g : Grid) : (MiscC05.withCur s g).other = s.other := by
  unfold MiscC05.withCur Screen.other
  cases h : s.altScreen <;> simp [h]

open Vt.C05 Vt.MiscC05 in
/-- **5. an effective print that creates a pending cursor**: from a screen with no pending cursor,
if one exists after `print c` then it is the LIVE cursor of the ACTIVE grid (its saved cursor and both
cursors of the other grid are not pending), and the last column (`cols - 1`) of the cursor's line has
just been printed into: it holds the character (width 1: the cell has contents) or is the second half of
the wide character (width 2: a continuation cell). -/
theorem print_pend_origin (W : Nat → Option Nat) (cb : CbPolicy) (ws ws' : WS) (c : Nat)
    (hinv : Inv W ws.screen) (hW32 : W 32 = some 1) (heff : EffPrint W ws.screen c)
    (h : perform W cb ws (.print c) = .ok ws') (hnp : ¬ ws.screen.pend) (hp : ws'.screen.pend) :
    ws'.screen.cur.pos.col = ws'.screen.cur.size.cols ∧
    ws'.screen.cur.savedPos.col < ws'.screen.cur.size.cols ∧
    ¬ ws'.screen.other.pend ∧
    ∃ r x, ws'.screen.cur.rows[ws'.screen.cur.pos.row]? = some r ∧
      r.cells[ws'.screen.cur.size.cols - 1]? = some x ∧
      (if effWidth W c = 1 then x.hasContents = true else x.isWideContinuation = true) := by
  obtain ⟨hc1, hrep, hnc, hw1, hwc⟩ := heff
  have hsi := (inv_iff W _).mp hinv
  obtain ⟨hg, hl⟩ := hsi.cur
  obtain ⟨r, g1, r1, hr, hcw, hs, hr1, ht⟩ := text_via_colWrap hg hl hW32 ws.screen.attrs c hnc hw1 hwc
  obtain ⟨g1', hcw', _, hcol⟩ := colWrap_ok hg hl (effWidth W c)
    (decide (ws.screen.cur.pos.col + effWidth W c > ws.screen.cur.size.cols) && lastOccB r) hwc
  rw [hcw] at hcw'
  cases hcw'
  rw [perform_print_eq cb ws c hc1 hrep ht] at h
  cases h
  have hgp : GP ws.screen.cur g1 :=
    MPred.iff.mp (colWrap_gp (GP.refl (cur_colsOk (sColsOk_of_inv hinv))) _ _) g1 hcw
  have hnc1 : ¬ g1.pend := fun hx => hnp (cur_pend_of (hgp.2 hx))
  have hno : ¬ ws.screen.other.pend := fun hx => hnp ((pend_iff_cur_other _).mpr (Or.inr hx))
  rw [pend_iff_cur_other] at hp
  simp only [setScreen] at hp ⊢
  rw [withCur_cur, withCur_other] at hp ⊢
  have hsz : g1.size = ws.screen.cur.size := hs.size
  have hcolv : g1.pos.col + effWidth W c = g1.size.cols := by
    rcases hp with hp | hp
    · have hp : g1.pos.col + effWidth W c = g1.size.cols ∨ g1.savedPos.col = g1.size.cols := hp
      rcases hp with hp | hp
      · exact hp
      · exact absurd (Or.inr hp) hnc1
    · exact absurd hp hno
  have hsv : g1.savedPos.col < g1.size.cols := by
    have h1 : g1.savedPos.col ≤ g1.size.cols := hgp.1.2.2
    have h2 : g1.savedPos.col ≠ g1.size.cols := fun e => hnc1 (Or.inr e)
    omega
  refine ⟨hcolv, hsv, hno, ?_⟩
  have hlt : g1.pos.row < g1.rows.length := (List.getElem?_eq_some_iff.mp hr1).1
  have hlen : r1.cells.length = g1.size.cols := (hs.inv.row_ok r1 (List.mem_of_getElem? hr1)).1
  have hcp : 1 ≤ g1.size.cols := hs.inv.cols_pos
  have hw2 : effWidth W c ≤ 2 := by unfold effWidth; omega
  have hx0 : r1.cells[g1.size.cols - 1]? = some (r1.cells[g1.size.cols - 1]'(by omega)) :=
    List.getElem?_eq_getElem (by omega)
  generalize r1.cells[g1.size.cols - 1]'(by omega) = x0 at hx0
  refine ⟨printedRow W r1 g1.pos.col ws.screen.cur.size.cols ws.screen.attrs c (decide (effWidth W c > 1)),
    printedCell W r1.cells g1.pos.col ws.screen.attrs c (decide (effWidth W c > 1)) (g1.size.cols - 1) x0,
    ?_, ?_, ?_⟩
  · show (g1.rows.set g1.pos.row _)[g1.pos.row]? = some _
    rw [List.getElem?_set_self hlt]
  · show (printedRow W r1 g1.pos.col ws.screen.cur.size.cols ws.screen.attrs c (decide (effWidth W c > 1))).cells[
      g1.size.cols - 1]? = some _
    simp only [printedRow, List.getElem?_mapIdx, hx0, Option.map_some]
  · by_cases hw : effWidth W c = 1
    · simp only [hw, ↓reduceIte]
      have hj : g1.size.cols - 1 = g1.pos.col := by omega
      simp only [printedCell, hj, ↓reduceIte, setCell, Cell.hasContents, decide_eq_true_eq]
      exact Utf8.encode_length_pos c
    · simp only [hw, ↓reduceIte]
      have hw' : effWidth W c = 2 := by omega
      have hj : g1.size.cols - 1 = g1.pos.col + 1 := by omega
      simp only [printedCell, hj, hw', show ¬ (g1.pos.col + 1 = g1.pos.col) by omega,
        show ¬ (g1.pos.col + 1 + 1 = g1.pos.col ∧ flagAt r1.cells g1.pos.col (·.cont) = true) by omega,
        ↓reduceIte, show (2 > 1) by omega, decide_true, contOf, Cell.isWideContinuation, Cell.setWideContinuation]

/-! ## 7. along action lists and histories (theorem 6) -/

open Vt.C13 in
/-- **6a. any list of actions.**  If a cursor is pending after performing `acts`, then one was pending
before, or the list contains a `print c` that was an EFFECTIVE print on the screen it was applied to
(`ws1` = the state after the actions before it). -/
theorem actions_pend_origin {W : Nat → Option Nat} (hW32 : W 32 = some 1) {cb : CbPolicy} (hci : CbInv W cb)
    (hcb : CbNoPend cb) :
    ∀ (acts : List Action) (ws ws' : WS), Inv W ws.screen → (∀ a ∈ acts, ActionOk a) →
      acts.foldlM (perform W cb) ws = .ok ws' → ws'.screen.pend →
      ws.screen.pend ∨ ∃ acts1 c acts2 ws1, acts = acts1 ++ Action.print c :: acts2 ∧
        acts1.foldlM (perform W cb) ws = .ok ws1 ∧ EffPrint W ws1.screen c := by
  intro acts
  induction acts with
  | nil =>
    intro ws ws' _ _ h hp
    simp only [List.foldlM, pure_eq_ok, Except.ok.injEq] at h
    subst h
    exact Or.inl hp
  | cons a rest ih =>
    intro ws ws' hinv hok h hp
    simp only [List.foldlM] at h
    obtain ⟨w1, h1, h2⟩ := bind_eq_ok.mp h
    obtain ⟨w1', e1, i1⟩ := inv_perform hW32 hci ws ((inv_iff W _).mp hinv) a (hok a List.mem_cons_self)
    rw [h1] at e1
    cases e1
    rcases ih w1 ws' ((inv_iff W _).mpr i1) (fun x hx => hok x (List.mem_cons_of_mem _ hx)) h2 hp with hw | hw
    · by_cases he : EffAction W ws.screen a
      · cases a with
        | print c => exact Or.inr ⟨[], c, rest, ws, rfl, rfl, he⟩
        | _ => exact absurd he (by simp [EffAction])
      · exact Or.inl (perform_no_new_pend W hcb ws w1 a he hinv h1 hw)
    · obtain ⟨acts1, c, acts2, ws1, e, hf, hE⟩ := hw
      refine Or.inr ⟨a :: acts1, c, acts2, ws1, by rw [e]; rfl, ?_, hE⟩
      simp only [List.foldlM, h1, ok_bind, hf]

open Vt.C13 in
/-- the simple list form: actions that are never effective prints (everything but `print c` with a
character `text` would write with non-zero width) create no pending cursor -/
theorem actions_no_new_pend {W : Nat → Option Nat} (hW32 : W 32 = some 1) {cb : CbPolicy} (hci : CbInv W cb)
    (hcb : CbNoPend cb) (acts : List Action) (ws ws' : WS) (hinv : Inv W ws.screen)
    (hok : ∀ a ∈ acts, ActionOk a) (hq : ∀ a ∈ acts, ∀ s, ¬ EffAction W s a)
    (h : acts.foldlM (perform W cb) ws = .ok ws') : ws'.screen.pend → ws.screen.pend := by
  intro hp
  rcases actions_pend_origin hW32 hci hcb acts ws ws' hinv hok h hp with h1 | ⟨acts1, c, acts2, ws1, e, _, hE⟩
  · exact h1
  · exact absurd hE (hq (.print c) (by rw [e]; simp) ws1.screen)

/-- `process(bytes)` from parser state `p` performs an effective print: one of the actions vte
produces for `bytes` is a `print c` that is effective on the screen it meets -/
def ProcessPrints (W : Nat → Option Nat) (cb : CbPolicy) (p : Parser) (bytes : List Nat) : Prop :=
  ∃ acts1 c acts2 ws1, (p.vte.advance bytes).2 = acts1 ++ Action.print c :: acts2 ∧
    acts1.foldlM (perform W cb) p.ws = .ok ws1 ∧ EffPrint W ws1.screen c

open Vt.C13 in
/-- **6b. one call of the public API.**  `set_size` leaves no pending cursor; `set_scrollback` keeps
what there is; `process` has one afterwards only if there was one before or it printed effectively. -/
theorem applyOp_pend_origin {W : Nat → Option Nat} (hW32 : W 32 = some 1) {cb : CbPolicy} (hci : CbInv W cb)
    (hcb : CbNoPend cb) (p p' : Parser) (hp : ParserInv W p) (op : Op) (hv : op.Valid)
    (h : applyOp W cb p op = .ok p') (hpend : p'.ws.screen.pend) :
    match op with
    | .process bytes => p.ws.screen.pend ∨ ProcessPrints W cb p bytes
    | .setSize _ _ => False
    | .setScrollback _ => p.ws.screen.pend := by
  cases op with
  | process bytes =>
    simp only [applyOp, Parser.process] at h
    obtain ⟨ws', h1, h2⟩ := bind_eq_ok.mp h
    simp only [pure_eq_ok, Except.ok.injEq] at h2
    subst h2
    exact actions_pend_origin hW32 hci hcb _ p.ws ws' ((inv_iff W _).mpr hp.screen)
      (good_advance p.vte bytes hp.vte hv).2 h1 hpend
  | setSize r c =>
    simp only [applyOp] at h
    obtain ⟨s', h1, h2⟩ := bind_eq_ok.mp h
    simp only [pure_eq_ok, Except.ok.injEq] at h2
    subst h2
    exact (setSize_colsOk_not_pend h1).2 hpend
  | setScrollback k =>
    simp only [applyOp] at h
    obtain ⟨s', h1, h2⟩ := bind_eq_ok.mp h
    simp only [pure_eq_ok, Except.ok.injEq] at h2
    subst h2
    exact (setScrollback_pend h1).1.mp hpend

/-- a history of public API calls from `Parser::new(rows, cols, sb)` (the expression of
`C13.reachable_inv`) -/
def run (W : Nat → Option Nat) (cb : CbPolicy) (rows cols sb : Nat) (ops : List C13.Op) : M Parser :=
  Parser.new rows cols sb >>= fun p0 => ops.foldlM (C13.applyOp W cb) p0

theorem run_snoc (W : Nat → Option Nat) (cb : CbPolicy) (rows cols sb : Nat) (ops : List C13.Op) (op : C13.Op) :
    run W cb rows cols sb (ops ++ [op]) = run W cb rows cols sb ops >>= fun p => C13.applyOp W cb p op := by
  unfold run
  cases Parser.new rows cols sb with
  | error e => rfl
  | ok p0 =>
    simp only [ok_bind, List.foldlM_append]
    cases List.foldlM (C13.applyOp W cb) p0 ops with
    | error e => rfl
    | ok p1 =>
      simp only [List.foldlM, ok_bind, pure_eq_ok]
      cases C13.applyOp W cb p1 op <;> rfl

def isSetSize : C13.Op → Bool
  | .setSize _ _ => true
  | _ => false

open Vt.C13 in
/-- **6. reachable states: a pending cursor has a print behind it.**  Along every history of valid
`process` / `set_size` / `set_scrollback` calls from `Parser::new` (callbacks: any policy that keeps `Inv`
and creates no pending position, e.g. `cbNone`, `cbResize`): if some cursor of the final screen is in
the pending-wrap column, then the history contains a `process(bytes)` call with NO `set_size` call after
it, during which an effective print was performed (`ProcessPrints` at the parser state `p1` that call
started from). -/
theorem reachable_pend_has_print {W : Nat → Option Nat} (hW32 : W 32 = some 1) {cb : CbPolicy}
    (hci : CbInv W cb) (hcb : CbNoPend cb)
    (rows cols sb : Nat) (hr : 1 ≤ rows) (hc : 1 ≤ cols) (hr' : rows ≤ 65535) (hc' : cols ≤ 65535)
    (ops : List Op) (hv : ∀ op ∈ ops, op.Valid) (p : Parser)
    (h : run W cb rows cols sb ops = .ok p) (hpend : p.ws.screen.pend) :
    ∃ pre bytes post p1, ops = pre ++ Op.process bytes :: post ∧ (∀ op ∈ post, isSetSize op = false) ∧
      run W cb rows cols sb pre = .ok p1 ∧ ProcessPrints W cb p1 bytes := by
  have key : ∀ (l : List Op), (∀ op ∈ l, op.Valid) → ∀ p, run W cb rows cols sb l.reverse = .ok p →
      p.ws.screen.pend →
      ∃ pre bytes post p1, l.reverse = pre ++ Op.process bytes :: post ∧ (∀ op ∈ post, isSetSize op = false) ∧
        run W cb rows cols sb pre = .ok p1 ∧ ProcessPrints W cb p1 bytes := by
    intro l
    induction l with
    | nil =>
      intro _ p h hpend
      simp only [run, List.reverse_nil, List.foldlM, Parser.new] at h
      obtain ⟨p0, h0, h1⟩ := bind_eq_ok.mp h
      obtain ⟨s, hs, h0⟩ := bind_eq_ok.mp h0
      simp only [pure_eq_ok, Except.ok.injEq] at h0 h1
      subst h0 h1
      exact absurd hpend (new_not_pend hr hc hs)
    | cons op l ih =>
      intro hv p h hpend
      rw [List.reverse_cons, run_snoc] at h
      obtain ⟨p1, h1, h2⟩ := bind_eq_ok.mp h
      have hvl : ∀ o ∈ l.reverse, o.Valid := fun o ho => hv o (List.mem_cons_of_mem _ (List.mem_reverse.mp ho))
      obtain ⟨p1', e1, i1⟩ := reachable_inv hW32 hci rows cols sb hr hc hr' hc' l.reverse hvl
      have e1' : run W cb rows cols sb l.reverse = .ok p1' := e1
      rw [h1] at e1'
      cases e1'
      have hstep := applyOp_pend_origin hW32 hci hcb p1 p i1 op (hv op List.mem_cons_self) h2 hpend
      rw [List.reverse_cons]
      cases op with
      | process bytes =>
        simp only at hstep
        rcases hstep with hq | hq
        · obtain ⟨pre, b, post, q, e, hpost, hrun, hpp⟩ :=
            ih (fun o ho => hv o (List.mem_cons_of_mem _ ho)) p1 h1 hq
          refine ⟨pre, b, post ++ [Op.process bytes], q, by rw [e]; simp, ?_, hrun, hpp⟩
          intro o ho
          rcases List.mem_append.mp ho with ho | ho
          · exact hpost o ho
          · simp only [List.mem_singleton] at ho; subst ho; rfl
        · exact ⟨l.reverse, bytes, [], p1, rfl, by simp, h1, hq⟩
      | setSize r c => exact absurd hstep (by simp)
      | setScrollback k =>
        simp only at hstep
        obtain ⟨pre, b, post, q, e, hpost, hrun, hpp⟩ :=
          ih (fun o ho => hv o (List.mem_cons_of_mem _ ho)) p1 h1 hstep
        refine ⟨pre, b, post ++ [Op.setScrollback k], q, by rw [e]; simp, ?_, hrun, hpp⟩
        intro o ho
        rcases List.mem_append.mp ho with ho | ho
        · exact hpost o ho
        · simp only [List.mem_singleton] at ho; subst ho; rfl
  have := key ops.reverse (fun o ho => hv o (List.mem_reverse.mp ho)) p (by rw [List.reverse_reverse]; exact h) hpend
  rw [List.reverse_reverse] at this
  exact this

open Vt.C13 in
/-- corollary (the simple form): a history in which no `process` call comes after the last `set_size`
— in particular one without any `process` call — ends with no pending cursor -/
theorem no_process_after_setSize_not_pend {W : Nat → Option Nat} (hW32 : W 32 = some 1) {cb : CbPolicy}
    (hci : CbInv W cb) (hcb : CbNoPend cb)
    (rows cols sb : Nat) (hr : 1 ≤ rows) (hc : 1 ≤ cols) (hr' : rows ≤ 65535) (hc' : cols ≤ 65535)
    (ops : List Op) (hv : ∀ op ∈ ops, op.Valid) (p : Parser) (h : run W cb rows cols sb ops = .ok p)
    (hno : ∀ pre bytes post, ops = pre ++ Op.process bytes :: post → ∃ op ∈ post, isSetSize op = true) :
    ¬ p.ws.screen.pend := by
  intro hpend
  obtain ⟨pre, bytes, post, p1, e, hpost, _, _⟩ :=
    reachable_pend_has_print hW32 hci hcb rows cols sb hr hc hr' hc' ops hv p h hpend
  obtain ⟨op, ho, hs⟩ := hno pre bytes post e
  rw [hpost op ho] at hs
  exact Bool.noConfusion hs

/-! ## 8. tests: the hypotheses are satisfiable, the exclusions are needed (kernel-evaluated) -/

section tests
open Vt.C13 Vt.MiscC05

/-- test helper: the run succeeded and its result satisfies `P` -/
def okSat {α} (m : M α) (P : α → Bool) : Bool :=
  match m with
  | .ok a => P a
  | .error _ => false

/-- test helper: a history on a fresh parser, width function `W0` -/
def hist (cb : CbPolicy) (rows cols sb : Nat) (ops : List Op) : Option Parser :=
  (run W0 cb rows cols sb ops).toOption

/-- 2x3 screen, "abc": the live cursor of the primary grid is in column 3 = `cols` — `pend` -/
example : ∃ p, MiscC05.run 2 3 0 [97, 98, 99] = some p ∧
    (p.ws.screen.pend ∧ p.ws.screen.grid.pos = ⟨0, 3⟩ ∧ ¬ p.ws.screen.altGrid.pend) :=
  exists_of_run (by decide +kernel)

/-- the same through `hist`; with `ESC 7` the SAVED cursor is in column 3 too, and stays there when the
live cursor leaves (CR) -/
example : ∃ p, hist cbNone 2 3 0 [.process [97, 98, 99, 0x1B, 55, 13]] = some p ∧
    (p.ws.screen.pend ∧ p.ws.screen.grid.pos = ⟨0, 0⟩ ∧ p.ws.screen.grid.savedPos = ⟨0, 3⟩) :=
  exists_of_run (by decide +kernel)

/-- … and `set_size` (here to the same size) removes it: both cursors are clamped to column 2
(`setSize_not_pend`) -/
example : ∃ p, hist cbNone 2 3 0 [.process [97, 98, 99, 0x1B, 55], .setSize 2 3] = some p ∧
    (¬ p.ws.screen.pend ∧ p.ws.screen.grid.pos = ⟨0, 2⟩ ∧ p.ws.screen.grid.savedPos = ⟨0, 2⟩) :=
  exists_of_run (by decide +kernel)

/-- … also when it is the resize callback that calls `set_size` (`CSI 8 ; 2 ; 3 t`, `cbResize_noPend`) -/
example : ∃ p, hist cbResize 2 3 0 [.process [97, 98, 99, 0x1B, 55, 0x1B, 0x5B, 56, 0x3B, 50, 0x3B, 51, 116]]
    = some p ∧ ¬ p.ws.screen.pend :=
  exists_of_run (by decide +kernel)

/-- `new_not_pend`, concretely -/
example : ∃ p, hist cbNone 2 3 0 [] = some p ∧ ¬ p.ws.screen.pend :=
  exists_of_run (by decide +kernel)

/-- hypotheses of `perform_no_new_pend` on a non-trivial state: 2x3 screen after "ab" (cursor in
column 2, not pending, `Inv`), action CUF 5 (`CSI 5 C`): not an effective print, runs, and the cursor is
clamped to column 2 — no pending cursor -/
example : ∃ p, MiscC05.run 2 3 0 [97, 98] = some p ∧
    (Inv W0 p.ws.screen ∧ ¬ p.ws.screen.pend ∧
     ¬ EffAction W0 p.ws.screen (.csiDispatch [[5]] [] false 67) ∧
     okSat (perform W0 cbNone p.ws (.csiDispatch [[5]] [] false 67)) (fun ws' => decide (ws'.screen.grid.pos = ⟨0, 2⟩ ∧ ¬ ws'.screen.pend)) = true) :=
  exists_of_run (by decide +kernel)

/-- a print that is NOT effective, on the same state: a zero-width character (U+0301), a control
character below U+0100 (U+0085 is routed to `execute`; U+00AD has width 1 in `W0`, so U+007F is used),
U+FFFD; and a wide character on a 1-column screen (dropped by `text`) -/
example : ∃ p, MiscC05.run 2 3 0 [97, 98] = some p ∧
    (¬ EffAction W0 p.ws.screen (.print 0x301) ∧ ¬ EffAction W0 p.ws.screen (.print 0x85) ∧
     ¬ EffAction W0 p.ws.screen (.print 0x7F) ∧ ¬ EffAction W0 p.ws.screen (.print 0xFFFD) ∧
     EffAction W0 p.ws.screen (.print 99) ∧ EffAction W0 p.ws.screen (.print 0x4E00)) :=
  exists_of_run (by decide +kernel)

example : ∃ p, MiscC05.run 2 1 0 [] = some p ∧
    (¬ EffAction W0 p.ws.screen (.print 0x4E00) ∧ EffAction W0 p.ws.screen (.print 99)) :=
  exists_of_run (by decide +kernel)

/-- hypotheses and conclusion of `print_pend_origin`, width 1: 2x3 after "ab", print "c" -/
example : ∃ p, MiscC05.run 2 3 0 [97, 98] = some p ∧
    (Inv W0 p.ws.screen ∧ EffPrint W0 p.ws.screen 99 ∧ ¬ p.ws.screen.pend ∧
     okSat (perform W0 cbNone p.ws (.print 99)) (fun ws' => decide (ws'.screen.pend ∧ ws'.screen.cur.pos = ⟨0, 3⟩ ∧
          ((ws'.screen.cur.rows[0]?.bind (fun r => r.cells[2]?)).map (·.hasContents)) = some true)) = true) :=
  exists_of_run (by decide +kernel)

/-- … width 2: 2x4 after "ab", print U+4E00: cursor in column 4, column 3 is the continuation half -/
example : ∃ p, MiscC05.run 2 4 0 [97, 98] = some p ∧
    (Inv W0 p.ws.screen ∧ EffPrint W0 p.ws.screen 0x4E00 ∧ ¬ p.ws.screen.pend ∧
     okSat (perform W0 cbNone p.ws (.print 0x4E00)) (fun ws' => decide (ws'.screen.pend ∧ ws'.screen.cur.pos = ⟨0, 4⟩ ∧
          ((ws'.screen.cur.rows[0]?.bind (fun r => r.cells[3]?)).map (·.isWideContinuation)) = some true)) = true) :=
  exists_of_run (by decide +kernel)

/-- an effective print need not create a pending cursor (the converse of theorem 4 is not claimed) -/
example : ∃ p, MiscC05.run 2 3 0 [97] = some p ∧
    (EffPrint W0 p.ws.screen 98 ∧
     okSat (perform W0 cbNone p.ws (.print 98)) (fun ws' => decide (¬ ws'.screen.pend)) = true) :=
  exists_of_run (by decide +kernel)

/-- the pending column is carried to the alternate grid's cursors only by printing there: `?1049h`
after "abc" saves column 3 on the PRIMARY grid (DECSC) and homes the alternate grid's cursors -/
example : ∃ p, hist cbNone 2 3 0 [.process [97, 98, 99, 0x1B, 0x5B, 0x3F, 49, 48, 52, 57, 104]] = some p ∧
    (p.ws.screen.altScreen = true ∧ p.ws.screen.grid.savedPos = ⟨0, 3⟩ ∧ ¬ p.ws.screen.altGrid.pend) :=
  exists_of_run (by decide +kernel)

/-- `reachable_pend_has_print`: hypotheses hold for a concrete history whose final state is pending
(the `process` call after the `set_size` is the one that printed) -/
example : (∀ op ∈ [Op.process [97, 98, 99], .setSize 2 2, .setScrollback 0, .process [120]], op.Valid) ∧
    ∃ p, hist cbNone 2 3 0 [.process [97, 98, 99], .setSize 2 2, .setScrollback 0, .process [120]] = some p ∧
      p.ws.screen.pend :=
  ⟨by intro op h; simp only [List.mem_cons, List.mem_nil_iff, or_false] at h
      rcases h with rfl | rfl | rfl | rfl <;> simp [Op.Valid],
   exists_of_run (by decide +kernel)⟩

end tests

/-! the two callback policies of the harness satisfy both callback hypotheses of section 7 -/
theorem cbNone_ok (W : Nat → Option Nat) : C13.CbInv W cbNone ∧ CbNoPend cbNone := ⟨C13.cbNone_inv, cbNone_noPend⟩
theorem cbResize_ok (W : Nat → Option Nat) : C13.CbInv W cbResize ∧ CbNoPend cbResize :=
  ⟨C13.cbResize_inv, cbResize_noPend⟩

end Vt.C13pend

