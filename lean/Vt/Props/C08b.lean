/-
  C08 (continued) — IL, DL, SU, SD for every count: the exact rows.

  Write the rows as `A ++ R ++ C` with `R` the lines the operation addresses (cursor line, resp. top
  margin, down to the bottom margin), `A` the lines above and `C` the lines below the bottom margin.
    * `deleteLines_eq`, `scrollUp_rows` : `R` becomes `shiftUp R k blank` = `R` with its first `k` lines
      dropped and `k` blank lines appended (`k` capped by the loop bound; more than `|R|` leaves `R` blank);
    * `insertLines_eq`, `scrollDown_eq` : `R` becomes `shiftDown R k blank` = `k` blank lines followed by
      the first `|R| - k` lines of `R`, the new last line of the region losing its wrap flag;
    * `A` and `C` — every line outside the addressed range — are literally untouched, and (IL, DL, SD)
      so is the rest of the grid record: cursor, region, size, scrollback.
-/
import Vt.Lemmas.Loops
import Vt.Lemmas.GridInv
namespace Vt.C08
open Vt
set_option linter.unusedSimpArgs false

def shiftUp (R : List Row) (k : Nat) (x : Row) : List Row := (R ++ List.replicate k x).drop k

def unwrapLast (L : List Row) : List Row :=
  match L.getLast? with
  | some l => L.dropLast ++ [l.wrap false]
  | none => []

def shiftDown (R : List Row) (k : Nat) (x : Row) : List Row :=
  if k = 0 then R else unwrapLast ((List.replicate k x ++ R).take R.length)

theorem shiftUp_zero (R : List Row) (x : Row) : shiftUp R 0 x = R := by simp [shiftUp]

theorem shiftUp_length (R : List Row) (k : Nat) (x : Row) : (shiftUp R k x).length = R.length := by
  simp [shiftUp]

/-- one more line scrolled off the top of the range -/
theorem shiftUp_succ (R : List Row) (k : Nat) (x : Row) (hR : 1 ≤ R.length) :
    (shiftUp R k x).tail ++ [x] = shiftUp R (k + 1) x := by
  unfold shiftUp
  rw [List.tail_drop, List.replicate_succ', ← List.append_assoc]
  rw [List.drop_append_of_le_length (l₂ := [x]) (by simp only [List.length_append, List.length_replicate]; omega)]

theorem shiftUp_ne_nil (R : List Row) (k : Nat) (x : Row) (hR : 1 ≤ R.length) : shiftUp R k x ≠ [] := by
  intro h
  have := congrArg List.length h
  rw [shiftUp_length] at this
  simp only [List.length_nil] at this
  omega

/-! ### list-level steps -/

theorem insert_after (s1 : Nat) (A R C : List Row) (x : Row) :
    insertM s1 (A ++ R ++ C) (A.length + R.length) x = .ok (A ++ R ++ x :: C) := by
  unfold insertM
  rw [if_pos (by simp)]
  rw [show A.length + R.length = (A ++ R).length by simp, List.take_left' rfl, List.drop_left' rfl]
  rfl

theorem remove_first (s2 : Nat) (A R' C : List Row) (r0 : Row) :
    removeM s2 (A ++ (r0 :: R') ++ C) A.length = .ok (r0, A ++ R' ++ C) := by
  have h2 : (A ++ (r0 :: R') ++ C)[A.length]? = some r0 := by simp [List.append_assoc]
  simp only [removeM, h2]
  simp [List.append_assoc, List.eraseIdx_append_of_length_le]

theorem remove_last (s1 : Nat) (A R0 C : List Row) (last : Row) :
    removeM s1 (A ++ (R0 ++ [last]) ++ C) (A.length + R0.length) = .ok (last, A ++ R0 ++ C) := by
  have h0 : (A ++ (R0 ++ [last]) ++ C)[A.length + R0.length]? = some last := by
    simp [List.append_assoc, List.getElem?_append_right]
  simp only [removeM, h0, pure_eq_ok, Except.ok.injEq, Prod.mk.injEq, true_and]
  rw [List.append_assoc, List.eraseIdx_append_of_length_le (by omega)]
  simp only [Nat.add_sub_cancel_left, List.append_assoc]
  rw [List.eraseIdx_append_of_length_le (by omega)]
  simp

theorem insert_front (s2 : Nat) (A R0 C : List Row) (x : Row) :
    insertM s2 (A ++ R0 ++ C) A.length x = .ok (A ++ (x :: R0) ++ C) := by
  unfold insertM
  rw [if_pos (by simp)]
  simp [List.take_append_of_le_length, List.drop_append_of_le_length, List.append_assoc,
    List.take_of_length_le, List.drop_of_length_le]

theorem unwrapLast_snoc (L : List Row) (l : Row) : unwrapLast (L ++ [l]) = L ++ [l.wrap false] := by
  simp [unwrapLast]

theorem unwrapLast_length (L : List Row) : (unwrapLast L).length = L.length := by
  unfold unwrapLast
  cases h : L.getLast? with
  | none => simp at h; simp [h]
  | some l =>
    simp only [List.length_append, List.length_dropLast, List.length_singleton]
    have : L ≠ [] := by intro hn; simp [hn] at h
    have := List.length_pos_iff.mpr this
    omega

theorem snoc_of_ne_nil (L : List Row) (h : 1 ≤ L.length) : ∃ init l, L = init ++ [l] := by
  have hne : L ≠ [] := by intro hn; simp [hn] at h
  exact ⟨L.dropLast, L.getLast hne, (List.dropLast_concat_getLast hne).symm⟩

theorem modify_last (s3 : Nat) (A R1 C : List Row) (h : 1 ≤ R1.length) :
    modifyM s3 (A ++ R1 ++ C) (A.length + (R1.length - 1)) (fun r => pure (r.wrap false)) =
      .ok (A ++ unwrapLast R1 ++ C) := by
  obtain ⟨init, l, rfl⟩ := snoc_of_ne_nil R1 h
  have hget : (A ++ (init ++ [l]) ++ C)[A.length + ((init ++ [l]).length - 1)]? = some l := by
    simp [List.append_assoc, List.getElem?_append_right]
  simp only [modifyM, hget, pure_bind', pure_eq_ok, Except.ok.injEq, unwrapLast_snoc]
  simp [List.set_append_right, List.append_assoc]

/-- one more blank line pushed in at the top of the range -/
theorem shiftDown_succ (R : List Row) (k : Nat) (x : Row) (hR : 1 ≤ R.length) :
    unwrapLast (x :: (shiftDown R k x).dropLast) = shiftDown R (k + 1) x := by
  have key : ∀ L : List Row, R.length ≤ L.length → x :: (L.take R.length).dropLast = (x :: L).take R.length := by
    intro L hL
    rw [List.dropLast_eq_take, List.length_take, List.take_take, Nat.min_eq_left hL,
      Nat.min_eq_left (Nat.sub_le _ _)]
    cases hm : R.length with
    | zero => omega
    | succ m => simp
  unfold shiftDown
  by_cases hk : k = 0
  · subst hk
    simp only [↓reduceIte, Nat.zero_add, Nat.add_one_ne_zero, List.replicate_one, List.singleton_append]
    have := key R (Nat.le_refl _)
    rw [List.take_length] at this
    rw [this]
  · simp only [hk, ↓reduceIte, Nat.add_one_ne_zero]
    have hT : 1 ≤ ((List.replicate k x ++ R).take R.length).length := by simp; omega
    obtain ⟨init, l, hinit⟩ := snoc_of_ne_nil _ hT
    rw [hinit, unwrapLast_snoc, List.dropLast_concat]
    have : init = ((List.replicate k x ++ R).take R.length).dropLast := by rw [hinit, List.dropLast_concat]
    rw [this, key _ (by simp), List.replicate_succ]
    simp

theorem shiftDown_length (R : List Row) (k : Nat) (x : Row) : (shiftDown R k x).length = R.length := by
  unfold shiftDown
  split
  · rfl
  · rw [unwrapLast_length]; simp

/-! ### the grid operations -/

/-- the rows split as `A ++ R ++ C`: `A` above line `p`, `R` from `p` down to the bottom margin, `C` below -/
structure Split (g : Grid) (p : Nat) (A R C : List Row) : Prop where
  rows : g.rows = A ++ R ++ C
  above : A.length = p
  range : A.length + R.length = g.scrollBottom + 1
  nonempty : 1 ≤ R.length

/-- the canonical split of a live grid at a line `p` on or above the bottom margin -/
theorem split_at (g : Grid) (p : Nat) (hp : p ≤ g.scrollBottom) (hb : g.scrollBottom < g.rows.length) :
    Split g p (g.rows.take p) ((g.rows.drop p).take (g.scrollBottom + 1 - p)) (g.rows.drop (g.scrollBottom + 1)) := by
  refine ⟨?_, by simp; omega, by simp; omega, by simp; omega⟩
  have : g.rows.drop (g.scrollBottom + 1) = (g.rows.drop p).drop (g.scrollBottom + 1 - p) := by
    rw [List.drop_drop]; congr 1; omega
  rw [this, List.append_assoc, List.take_append_drop, List.take_append_drop]

def withRows (g : Grid) (rows : List Row) : Grid := { g with rows := rows }

def dlStep (g : Grid) : M Grid := do
  let rows ← insertM 434 g.rows (g.scrollBottom + 1) g.newRow
  let (_, rows) ← removeM 435 rows g.pos.row
  pure { g with rows := rows }

def suStep (g : Grid) : M Grid := do
  let rows ← insertM 438 g.rows (g.scrollBottom + 1) g.newRow
  let (removed, rows) ← removeM 439 rows g.scrollTop
  let g := { g with rows := rows }
  if g.scrollbackLen > 0 then do
    let active ← g.scrollRegionActive
    if !active then
      let sb := g.scrollback ++ [removed]
      let sb := sb.drop (sb.length - g.scrollbackLen)
      let off := if g.scrollbackOffset > 0 then min sb.length (g.scrollbackOffset + 1)
                 else g.scrollbackOffset
      pure { g with scrollback := sb, scrollbackOffset := off }
    else pure g
  else pure g

def ilStep (g : Grid) : M Grid := do
  let (_, rows) ← removeM 430 g.rows g.scrollBottom
  let rows ← insertM 431 rows g.pos.row g.newRow
  let rows ← modifyM 432 rows g.scrollBottom (fun r => pure (r.wrap false))
  pure { g with rows := rows }

def sdStep (g : Grid) : M Grid := do
  let (_, rows) ← removeM 440 g.rows g.scrollBottom
  let rows ← insertM 441 rows g.scrollTop g.newRow
  let rows ← modifyM 442 rows g.scrollBottom (fun r => pure (r.wrap false))
  pure { g with rows := rows }

theorem deleteLines_unfold (g : Grid) (n : Nat) :
    g.deleteLines n = (subM 433 g.size.rows g.pos.row >>= fun d => iterateM (min n d) dlStep g) := rfl
theorem scrollUp_unfold (g : Grid) (n : Nat) :
    g.scrollUp n = (subM 437 g.size.rows g.scrollTop >>= fun d => iterateM (min n d) suStep g) := rfl
theorem insertLines_unfold (g : Grid) (n : Nat) :
    g.insertLines n = iterateM (min n g.size.rows) ilStep g := rfl
theorem scrollDown_unfold (g : Grid) (n : Nat) :
    g.scrollDown n = iterateM (min n g.size.rows) sdStep g := rfl

/-- **C08** DL n (cursor line `p` inside the region): lines `p ..= bottom` shift up by
`min n (rows - p)`, blank lines come in at the bottom margin; everything else is untouched -/
theorem deleteLines_eq (g : Grid) (A R C : List Row) (h : Split g g.pos.row A R C) (hp : g.pos.row ≤ g.size.rows)
    (n : Nat) :
    g.deleteLines n = .ok (withRows g (A ++ shiftUp R (min n (g.size.rows - g.pos.row)) g.newRow ++ C)) := by
  rw [deleteLines_unfold]
  simp only [subM_ok hp, ok_bind]
  have step : ∀ k s, s = withRows g (A ++ shiftUp R k g.newRow ++ C) →
      ∃ s', dlStep s = .ok s' ∧ s' = withRows g (A ++ shiftUp R (k + 1) g.newRow ++ C) := by
    intro k s hs
    subst hs
    have hne := shiftUp_ne_nil R k g.newRow h.nonempty
    cases hS : shiftUp R k g.newRow with
    | nil => exact absurd hS hne
    | cons r0 R' =>
      refine ⟨_, ?_, rfl⟩
      have hb : g.scrollBottom + 1 = A.length + (r0 :: R').length := by
        have h1 := congrArg List.length hS; rw [shiftUp_length] at h1
        have := h.range; rw [← h1]; omega
      have hnew : (withRows g (A ++ r0 :: R' ++ C)).newRow = g.newRow := rfl
      simp only [dlStep]
      rw [show (withRows g (A ++ r0 :: R' ++ C)).rows = A ++ (r0 :: R') ++ C by simp [withRows],
        show (withRows g (A ++ r0 :: R' ++ C)).scrollBottom = g.scrollBottom from rfl,
        show (withRows g (A ++ r0 :: R' ++ C)).pos = g.pos from rfl, hnew, hb, insert_after]
      simp only [ok_bind]
      rw [← h.above, remove_first]
      simp only [ok_bind, pure_eq_ok, Except.ok.injEq]
      rw [← shiftUp_succ R k _ h.nonempty, hS]
      simp [withRows, List.append_assoc]
  obtain ⟨s', e, hs'⟩ := iterateM_inv_idx (fun k s => s = withRows g (A ++ shiftUp R k g.newRow ++ C)) dlStep
    (min n (g.size.rows - g.pos.row)) g (by simp [withRows, shiftUp_zero, ← h.rows]) (fun k s _ hs => step k s hs)
  rw [e, hs']

/-- what the line operations leave alone -/
def SameFrame (g s : Grid) : Prop :=
  s.size = g.size ∧ s.pos = g.pos ∧ s.scrollTop = g.scrollTop ∧ s.scrollBottom = g.scrollBottom

/-- **C08** SU n: lines `top ..= bottom` shift up by `min n (rows - top)`; the rows outside the region,
the cursor, the size and the margins are untouched (the scrollback side is C12's `scrollUp_one_records`) -/
theorem scrollUp_rows (g : Grid) (A R C : List Row) (h : Split g g.scrollTop A R C) (ht : g.scrollTop ≤ g.size.rows)
    (hrows : 1 ≤ g.size.rows) (n : Nat) :
    ∃ g', g.scrollUp n = .ok g' ∧
      g'.rows = A ++ shiftUp R (min n (g.size.rows - g.scrollTop)) g.newRow ++ C ∧ SameFrame g g' := by
  rw [scrollUp_unfold]
  simp only [subM_ok ht, ok_bind]
  have step : ∀ k s, (s.rows = A ++ shiftUp R k g.newRow ++ C ∧ SameFrame g s) →
      ∃ s', suStep s = .ok s' ∧ (s'.rows = A ++ shiftUp R (k + 1) g.newRow ++ C ∧ SameFrame g s') := by
    intro k s hs
    obtain ⟨hr, hsz, hpos, htop, hbot⟩ := hs
    have hne := shiftUp_ne_nil R k g.newRow h.nonempty
    cases hS : shiftUp R k g.newRow with
    | nil => exact absurd hS hne
    | cons r0 R' =>
      have hb : s.scrollBottom + 1 = A.length + (r0 :: R').length := by
        have h1 := congrArg List.length hS; rw [shiftUp_length] at h1
        have := h.range; rw [hbot, ← h1]; omega
      have hnew : s.newRow = g.newRow := by simp [Grid.newRow, hsz]
      have hrows' : A ++ R' ++ g.newRow :: C = A ++ shiftUp R (k + 1) g.newRow ++ C := by
        rw [← shiftUp_succ R k _ h.nonempty, hS]; simp
      have hrows1 : 1 ≤ s.size.rows := by rw [hsz]; exact hrows
      simp only [suStep]
      rw [hr, hS, hb, hnew, insert_after]
      simp only [ok_bind]
      rw [htop, ← h.above, remove_first]
      simp only [ok_bind, Grid.scrollRegionActive, subM_ok hrows1, pure_bind', hrows']
      split
      · split
        · exact ⟨_, rfl, rfl, hsz, hpos, h.above, hbot⟩
        · exact ⟨_, rfl, rfl, hsz, hpos, h.above, hbot⟩
      · exact ⟨_, rfl, rfl, hsz, hpos, h.above, hbot⟩
  obtain ⟨s', e, hs'⟩ := iterateM_inv_idx
    (fun k s => s.rows = A ++ shiftUp R k g.newRow ++ C ∧ SameFrame g s) suStep
    (min n (g.size.rows - g.scrollTop)) g (by simp [shiftUp_zero, ← h.rows, SameFrame])
    (fun k s _ hs => step k s hs)
  exact ⟨s', e, hs'⟩

/-- the shared step of IL (`p` = cursor line) and SD (`p` = top margin) on the closed form -/
theorem down_step (g : Grid) (p : Nat) (A R C : List Row) (h : Split g p A R C) (s1 s2 s3 k : Nat) :
    (removeM s1 (A ++ shiftDown R k g.newRow ++ C) g.scrollBottom >>= fun q =>
      insertM s2 q.2 p g.newRow >>= fun rows =>
      modifyM s3 rows g.scrollBottom (fun r => pure (r.wrap false))) =
    .ok (A ++ shiftDown R (k + 1) g.newRow ++ C) := by
  have hlen := shiftDown_length R k g.newRow
  obtain ⟨R0, last, hS⟩ := snoc_of_ne_nil (shiftDown R k g.newRow) (by rw [hlen]; exact h.nonempty)
  have hR0 : R0.length + 1 = R.length := by
    have := congrArg List.length hS; rw [hlen] at this; simp at this; omega
  have hb : g.scrollBottom = A.length + R0.length := by have := h.range; omega
  rw [hS, hb, remove_last]
  simp only [ok_bind]
  rw [← h.above, insert_front]
  simp only [ok_bind]
  have hb' : A.length + R0.length = A.length + ((g.newRow :: R0).length - 1) := by simp
  rw [hb', modify_last _ _ _ _ (by simp)]
  have : R0 = (shiftDown R k g.newRow).dropLast := by rw [hS, List.dropLast_concat]
  rw [this, shiftDown_succ R k _ h.nonempty]

theorem shiftDown_zero (R : List Row) (x : Row) : shiftDown R 0 x = R := by simp [shiftDown]

/-- **C08** IL n (cursor line `p` inside the region): `min n rows` blank lines are inserted at `p`, the
lines `p ..= bottom` move down, what is pushed past the bottom margin is dropped, and the new last
line of the region loses its wrap flag; everything else is untouched -/
theorem insertLines_eq (g : Grid) (A R C : List Row) (h : Split g g.pos.row A R C) (n : Nat) :
    g.insertLines n = .ok (withRows g (A ++ shiftDown R (min n g.size.rows) g.newRow ++ C)) := by
  rw [insertLines_unfold]
  have step : ∀ k s, s = withRows g (A ++ shiftDown R k g.newRow ++ C) →
      ∃ s', ilStep s = .ok s' ∧ s' = withRows g (A ++ shiftDown R (k + 1) g.newRow ++ C) := by
    intro k s hs
    subst hs
    refine ⟨_, ?_, rfl⟩
    have := down_step g g.pos.row A R C h 430 431 432 k
    simp only [ilStep, withRows, Grid.newRow] at this ⊢
    cases h1 : removeM 430 (A ++ shiftDown R k (Row.new g.size.cols) ++ C) g.scrollBottom with
    | error e => rw [h1] at this; simp at this
    | ok q =>
      rw [h1] at this
      simp only [ok_bind] at this ⊢
      cases h2 : insertM 431 q.2 g.pos.row (Row.new g.size.cols) with
      | error e => rw [h2] at this; simp at this
      | ok rows =>
        rw [h2] at this
        simp only [ok_bind] at this ⊢
        rw [this]
        rfl
  obtain ⟨s', e, hs'⟩ := iterateM_inv_idx (fun k s => s = withRows g (A ++ shiftDown R k g.newRow ++ C)) ilStep
    (min n g.size.rows) g (by simp [withRows, shiftDown_zero, ← h.rows]) (fun k s _ hs => step k s hs)
  rw [e, hs']

/-- **C08** SD n: `min n rows` blank lines come in at the top margin, lines `top ..= bottom` move down;
everything else is untouched -/
theorem scrollDown_eq (g : Grid) (A R C : List Row) (h : Split g g.scrollTop A R C) (n : Nat) :
    g.scrollDown n = .ok (withRows g (A ++ shiftDown R (min n g.size.rows) g.newRow ++ C)) := by
  rw [scrollDown_unfold]
  have step : ∀ k s, s = withRows g (A ++ shiftDown R k g.newRow ++ C) →
      ∃ s', sdStep s = .ok s' ∧ s' = withRows g (A ++ shiftDown R (k + 1) g.newRow ++ C) := by
    intro k s hs
    subst hs
    refine ⟨_, ?_, rfl⟩
    have := down_step g g.scrollTop A R C h 440 441 442 k
    simp only [sdStep, withRows, Grid.newRow] at this ⊢
    cases h1 : removeM 440 (A ++ shiftDown R k (Row.new g.size.cols) ++ C) g.scrollBottom with
    | error e => rw [h1] at this; simp at this
    | ok q =>
      rw [h1] at this
      simp only [ok_bind] at this ⊢
      cases h2 : insertM 441 q.2 g.scrollTop (Row.new g.size.cols) with
      | error e => rw [h2] at this; simp at this
      | ok rows =>
        rw [h2] at this
        simp only [ok_bind] at this ⊢
        rw [this]
        rfl
  obtain ⟨s', e, hs'⟩ := iterateM_inv_idx (fun k s => s = withRows g (A ++ shiftDown R k g.newRow ++ C)) sdStep
    (min n g.size.rows) g (by simp [withRows, shiftDown_zero, ← h.rows]) (fun k s _ hs => step k s hs)
  rw [e, hs']

/-- reading `shiftUp`: `k ≤ |R|` lines are dropped from the top and `k` blanks appended -/
theorem shiftUp_eq (R : List Row) (k : Nat) (x : Row) (hk : k ≤ R.length) :
    shiftUp R k x = R.drop k ++ List.replicate k x := by
  unfold shiftUp; rw [List.drop_append_of_le_length hk]

/-- … and with `k ≥ |R|` the whole range is blank -/
theorem shiftUp_all (R : List Row) (k : Nat) (x : Row) (hk : R.length ≤ k) :
    shiftUp R k x = List.replicate R.length x := by
  unfold shiftUp
  rw [List.drop_append, List.drop_of_length_le hk, List.nil_append, List.drop_replicate]
  congr 1; omega

end Vt.C08
