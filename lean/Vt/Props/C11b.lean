/-
  C11 (continued) — entering and leaving the alternate screen.

  * `enter47_eq`, `enter1049_eq` : whole-record closed forms of `CSI ? 47 h` / `CSI ? 1049 h` issued on the
    primary screen: the primary grid only has its scrollback *view* reset to offset 0 (and, for 1049,
    the cursor saved); the alternate grid is allocated and, for 1049, cleared with the cursor home.
  * `exit47_eq`, `exit1049_eq` : `CSI ? 47 l` only flips the active grid; `CSI ? 1049 l` additionally
    restores the saved cursor position, origin mode and pen.
  * `alt_round_trip_47`, `alt_round_trip_1049` : enter, then ANY list of actions other than RIS /
    `?47l` / `?1049l`, then leave: the primary grid record is what it was (cells, wrap flags, region,
    scrollback, cursor), except that the view offset is 0 — whatever was drawn in between.
  * `alt_no_scrollback` : under `Inv` the alternate grid holds no scrollback, and `alt_cleared`: after
    `?1049h` every alternate cell is blank.
-/
import Vt.Props.C11
import Vt.Lemmas.Inv
namespace Vt.C11
open Vt
set_option linter.unusedSimpArgs false

/-- the screen after `CSI ? 47 h` on the primary screen -/
def entered47 (s : Screen) : Screen :=
  { s with
    grid := s.grid.setScrollback 0
    altScreen := true
    altGrid := s.altGrid.allocateRows }

/-- the screen after `CSI ? 1049 h` on the primary screen, `ag` being the cleared alternate grid -/
def entered1049 (s : Screen) (ag : Grid) : Screen :=
  { s with
    grid := (s.grid.saveCursor).setScrollback 0
    savedAttrs := s.attrs
    altScreen := true
    altGrid := ag.allocateRows }

/-- the screen after `CSI ? 1049 l` -/
def left1049 (s : Screen) : Screen :=
  { s with
    altScreen := false
    grid := s.grid.restoreCursor
    attrs := s.savedAttrs }

/-- `Grid::clear` -/
def clearedGrid (g : Grid) : Grid :=
  { g with
    pos := ⟨0, 0⟩
    savedPos := ⟨0, 0⟩
    rows := g.rows.map (fun r => r.clear Attrs.default)
    scrollTop := 0
    scrollBottom := g.size.rows - 1
    originMode := false
    savedOriginMode := false }

/-- `CSI ? 47 h` on the primary screen -/
theorem enter47_eq (s : Screen) (hs : s.altScreen = false) :
    s.decsetOne [47] = .ok (some (entered47 s)) := by
  unfold entered47
  simp [Screen.decsetOne, Screen.enterAlternateGrid, Screen.modifyGrid, hs]

/-- `CSI ? 1049 h` on the primary screen -/
theorem enter1049_eq (s : Screen) (hs : s.altScreen = false) (hr : 1 ≤ s.altGrid.size.rows) :
    s.altGrid.clear = .ok (clearedGrid s.altGrid) ∧
      s.decsetOne [1049] = .ok (some (entered1049 s (clearedGrid s.altGrid))) := by
  have e : s.altGrid.clear = .ok (clearedGrid s.altGrid) := by
    simp [Grid.clear, subM_ok hr, clearedGrid]
  refine ⟨e, ?_⟩
  simp [entered1049, Screen.decsetOne, Screen.decsc, Screen.saveCursor, Screen.enterAlternateGrid, Screen.modifyGrid, hs, e]

/-- after `CSI ? 1049 h` every cell of the alternate screen is blank and its cursor is home -/
theorem alt_cleared (s s' : Screen) (hs : s.altScreen = false) (hr : 1 ≤ s.altGrid.size.rows)
    (h : s.decsetOne [1049] = .ok (some s')) :
    s'.altGrid.pos = ⟨0, 0⟩ ∧ ∀ r ∈ s'.altGrid.rows, ∀ c ∈ r.cells, c.hasContents = false ∧ c.attrs = Attrs.default := by
  obtain ⟨_, e'⟩ := enter1049_eq s hs hr
  rw [e'] at h
  simp only [Except.ok.injEq, Option.some.injEq] at h
  subst h
  simp only [entered1049, clearedGrid, Grid.allocateRows]
  by_cases hemp : (List.map (fun r => r.clear Attrs.default) s.altGrid.rows).isEmpty = true
  all_goals simp only [hemp, ↓reduceIte, Bool.false_eq_true]
  · refine ⟨trivial, ?_⟩
    intro r hr' c hc
    simp only [List.mem_replicate] at hr'
    obtain ⟨_, rfl⟩ := hr'
    simp only [Row.new, List.mem_replicate] at hc
    obtain ⟨_, rfl⟩ := hc
    exact ⟨rfl, rfl⟩
  · refine ⟨trivial, ?_⟩
    intro r hr' c hc
    simp only [List.mem_map] at hr'
    obtain ⟨r0, _, rfl⟩ := hr'
    simp only [Row.clear, List.mem_map] at hc
    obtain ⟨c0, _, rfl⟩ := hc
    simp [Cell.clear, Cell.hasContents]

/-- `CSI ? 47 l` -/
theorem exit47_eq (s : Screen) : s.decrstOne [47] = .ok (some s.exitAlternateGrid) := rfl

/-- `CSI ? 1049 l`: back to the primary grid, cursor position, origin mode and pen restored from the
save made on entry -/
theorem exit1049_eq (s : Screen) :
    s.decrstOne [1049] = .ok (some (left1049 s)) := by
  simp [left1049, Screen.decrstOne, Screen.exitAlternateGrid, Screen.decrc, Screen.restoreCursor, Screen.modifyGrid]

/-- **C11** `?47h … ?47l`: whatever is drawn in between, the primary grid record is untouched but for the
view offset, which entering reset to 0 -/
theorem alt_round_trip_47 (W : Nat → Option Nat) {cb : CbPolicy} (hcb : CbKeeps cb) (ws : WS)
    (hs : ws.screen.altScreen = false) (s1 : Screen) (h1 : ws.screen.decsetOne [47] = .ok (some s1))
    (acts : List Action) (hl : ∀ a ∈ acts, Leaves a = false) (ws2 : WS)
    (h2 : acts.foldlM (perform W cb) { ws with screen := s1 } = .ok ws2)
    (s3 : Screen) (h3 : ws2.screen.decrstOne [47] = .ok (some s3)) :
    s3.altScreen = false ∧ s3.grid = ws.screen.grid.setScrollback 0 := by
  rw [enter47_eq _ hs] at h1
  simp only [Except.ok.injEq, Option.some.injEq] at h1
  subst h1
  obtain ⟨hg, _⟩ := alt_isolation_stream W hcb acts _ ws2 (by rfl) hl h2
  rw [exit47_eq] at h3
  simp only [Except.ok.injEq, Option.some.injEq] at h3
  subst h3
  exact ⟨rfl, hg⟩

/-- **C11** `?1049h … ?1049l`: the primary grid record comes back exactly — cells, wrap flags, scroll
region, scrollback, cursor position, origin mode — with the view offset 0, and the pen is the one
saved on entry -/
theorem alt_round_trip_1049 (W : Nat → Option Nat) {cb : CbPolicy} (hcb : CbKeeps cb) (ws : WS)
    (hs : ws.screen.altScreen = false) (hr : 1 ≤ ws.screen.altGrid.size.rows)
    (s1 : Screen) (h1 : ws.screen.decsetOne [1049] = .ok (some s1))
    (acts : List Action) (hl : ∀ a ∈ acts, Leaves a = false) (ws2 : WS)
    (h2 : acts.foldlM (perform W cb) { ws with screen := s1 } = .ok ws2)
    (s3 : Screen) (h3 : ws2.screen.decrstOne [1049] = .ok (some s3)) :
    s3.altScreen = false ∧
    s3.grid = ((ws.screen.grid.saveCursor).setScrollback 0).restoreCursor ∧
    s3.grid.rows = ws.screen.grid.rows ∧ s3.grid.pos = ws.screen.grid.pos ∧
    s3.grid.scrollTop = ws.screen.grid.scrollTop ∧ s3.grid.scrollBottom = ws.screen.grid.scrollBottom ∧
    s3.grid.scrollback = ws.screen.grid.scrollback ∧ s3.grid.originMode = ws.screen.grid.originMode := by
  obtain ⟨_, e1⟩ := enter1049_eq _ hs hr
  rw [e1] at h1
  simp only [Except.ok.injEq, Option.some.injEq] at h1
  subst h1
  obtain ⟨hg, _⟩ := alt_isolation_stream W hcb acts _ ws2 (by rfl) hl h2
  rw [exit1049_eq] at h3
  simp only [Except.ok.injEq, Option.some.injEq] at h3
  subst h3
  simp only [entered1049] at hg
  simp only [left1049, hg]
  exact ⟨trivial, trivial, rfl, rfl, rfl, rfl, rfl, rfl⟩

/-- **C11** the alternate screen never holds scrollback (`Inv`, hence every reachable state) -/
theorem alt_no_scrollback {W : Nat → Option Nat} {s : Screen} (h : Inv W s) :
    s.altGrid.scrollback = [] ∧ s.altGrid.scrollbackOffset = 0 := by
  have hi := (inv_iff W s).mp h
  have h1 := hi.alt.sb_len
  have h2 := hi.alt.sb_off
  rw [hi.alt_cap] at h1
  have : s.altGrid.scrollback.length = 0 := by omega
  exact ⟨List.eq_nil_of_length_eq_zero this, by omega⟩

end Vt.C11
