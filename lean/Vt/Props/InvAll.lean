/-
  Vt.Props.InvAll — **`emitInv` is an invariant**: every screen reachable through the public API satisfies the
  Boolean `emitInvB` (= `Inv` ∧ `Inv⁺` ∧ the emitter side conditions) that the redraw theorems C01 / C15 assume.
  Assembled from `reachable_inv` (InvPerform), `reachable_x` (InvX3) and `reachable_f` (InvF2).
-/
import Vt.Props.InvF2
namespace Vt.InvAll
open Vt Vt.C13 Vt.InvX Vt.InvF
set_option linter.unusedSimpArgs false
set_option linter.unusedVariables false

variable {W : Nat → Option Nat}

theorem rowPlusOk_of {r : Row} (hx : AllX r.cells) (hf : RF r) : rowPlusOk r = true := by
  simp only [rowPlusOk, Bool.and_eq_true, Bool.or_eq_true, Bool.not_eq_true', List.all_eq_true, beq_iff_eq]
  refine ⟨?_, ?_⟩
  · cases hw : r.wrapped with
    | false => exact Or.inl rfl
    | true => exact Or.inr ((lastColOccupied_iff r).mpr (hf hw))
  · intro c hc
    have := hx c hc
    simp only [cx, Bool.and_eq_true, Bool.or_eq_true, Bool.not_eq_true', beq_iff_eq] at this
    exact this.1.2

theorem gridPlusOk_of {g : Grid} (hx : GridX g) (hf : GridF g) : gridPlusOk g = true := by
  simp only [gridPlusOk, Bool.and_eq_true, List.all_eq_true]
  refine ⟨⟨fun r hr => rowPlusOk_of (hx.1 r hr) (hf.1.1 r hr), fun r hr => rowPlusOk_of (hx.2 r hr) (hf.1.2 r hr)⟩, ?_⟩
  cases hl : g.rows.getLast? with
  | none => rfl
  | some r => simp [hf.2 r hl]

theorem rowEmitOk_of {cols : Nat} {r : Row} (hok : rowOk W r = true) (hlen : r.cells.length = cols) (hx : AllX r.cells) :
    rowEmitOk W cols r = true := by
  simp only [rowEmitOk, List.all_eq_true]
  intro p hp
  obtain ⟨c, i⟩ := p
  rw [List.mk_mem_zipIdx_iff_getElem?] at hp
  simp only
  have hinv := ((rowOk_iff W r).mp hok).2
  have hcm := List.mem_of_getElem? hp
  have hcok := hinv.cells_ok c hcm
  refine cellEmitOk_of_cx (hx c hcm) ?_ ?_
  · intro _
    have hi := getElem?_lt hp
    by_cases hw : c.wide = true
    · obtain ⟨d, hd, _⟩ := paired_wide_next hp hinv.paired hw
      have := getElem?_lt hd
      simp only [hw, ↓reduceIte]; omega
    · simp only [hw, Bool.false_eq_true, ↓reduceIte]; omega
  · intro f zs hcs
    have hk := hcok
    simp only [cellOk, Bool.and_eq_true] at hk
    have := hk.2
    simp only [hcs, Bool.and_eq_true, beq_iff_eq] at this
    exact this.2.1.2

theorem gridEmitOk_of {g : Grid} {un : Bool} (hinv : GridInv W g un) (hx : GridX g) : gridEmitOk W g = true := by
  simp only [gridEmitOk, List.all_eq_true]
  intro r hr
  exact rowEmitOk_of (hinv.row_ok r hr).2 (hinv.row_ok r hr).1 (hx.1 r hr)

/-- the three parts give the Boolean the checks evaluate -/
theorem emitInvB_of {s : Screen} (hi : ScreenInv W s) (hx : ScreenX s) (hf : ScreenF s) : emitInvB W s = true := by
  simp only [emitInvB, invPlusB, Bool.and_eq_true]
  exact ⟨⟨⟨⟨⟨(inv_iff W s).mpr hi, gridPlusOk_of hx.grid hf.grid⟩, gridPlusOk_of hx.alt hf.alt⟩,
    gridEmitOk_of hi.grid hx.grid⟩, gridEmitOk_of hi.alt hx.alt⟩, hx.pen⟩

/-- **every reachable screen satisfies `emitInv`**: every history of `process` / `set_size` / `set_scrollback`
calls from `Parser::new` (sizes 1..65535, any capacity, any bytes, any chunking), for every callback policy that
keeps the three parts (e.g. none, or a resize callback calling `set_size`) -/
theorem reachable_emitInv (hW32 : W 32 = some 1) {cb : CbPolicy} (hcb : CbInv W cb) (hcx : CbX W cb) (hcf : CbF W cb)
    (rows cols sb : Nat) (hr : 1 ≤ rows) (hc : 1 ≤ cols) (hr' : rows ≤ 65535) (hc' : cols ≤ 65535)
    (ops : List Op) (hv : ∀ op ∈ ops, op.Valid) :
    ∃ p, (Parser.new rows cols sb >>= fun p0 => ops.foldlM (applyOp W cb) p0) = .ok p ∧ ParserInv W p ∧
      emitInvB W p.ws.screen = true := by
  obtain ⟨p, e, hi, hx⟩ := reachable_x hW32 hcb hcx rows cols sb hr hc hr' hc' ops hv
  obtain ⟨p', e', _, hf⟩ := reachable_f hW32 hcb hcf rows cols sb hr hc hr' hc' ops hv
  have : p' = p := by rw [e] at e'; exact (Except.ok.inj e').symm
  subst this
  exact ⟨p', e, hi, emitInvB_of hi.screen hx hf⟩

/-- the callback policies of the model keep all three parts -/
theorem cbNone_all : CbInv W cbNone ∧ CbX W cbNone ∧ CbF W cbNone := ⟨cbNone_inv, cbNone_x, cbNone_f⟩
theorem cbResize_all : CbInv W cbResize ∧ CbX W cbResize ∧ CbF W cbResize := ⟨cbResize_inv, cbResize_x, cbResize_f⟩

end Vt.InvAll
