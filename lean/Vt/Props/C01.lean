/-
  C01 — full redraw (contents_formatted / state_formatted) reproduces the screen.

  This file holds the witness and the kernel-evaluated examples; the general theorems (every reachable screen,
  cursor anywhere, scrolled views, receivers fed earlier redraws) are in RowDraw, GridDraw, C01grid, C01cursor,
  C01full, C01view, Reach, MiscC01 (see the registry):
  * `F9_witness` : the known finding — with a scrolled view and the cursor in the pending-wrap
    column the redraw does NOT reproduce the visible state (kernel-evaluated on the model).
  * `redraw_examples` : kernel-evaluated reproductions of non-trivial screens (wide characters,
    combining characters, colours, wrapped rows, pending-wrap cursor, alternate screen, modes),
    on a fresh and on a dirty receiver, with byte-identical re-emission.  These are tests of the
    model, labelled as such; the correspondence check ties the model's emitters to the code.
-/
import Vt.Spec.Obs
import Vt.Props.C02
namespace Vt.C01
open Vt

/-- does a fresh parser fed `S.state_formatted()` end observably equal to `S`, and re-emit the
same bytes (at offset 0)? `dirty`: bytes fed to the receiver first. -/
def reproduces (S : Screen) (dirty : List Nat) : M Bool := do
  let q ← Parser.new S.cur.size.rows S.cur.size.cols 0
  let q ← q.process W0 cbNone dirty
  let f ← S.stateFormatted
  let q ← q.process W0 cbNone f
  let a ← obs S
  let b ← obs q.screen
  let again ← q.screen.stateFormatted
  pure (obsEq (S.cur.scrollbackOffset != 0) a b && (S.cur.scrollbackOffset != 0 || again == f))

/-- F9: 3x4, capacity 5, "aaaa\r\nbbb\r\ncc\r\ndd\r\neeee", set_scrollback(1) -/
theorem F9_witness : C02.isOkFalse (do
    let p ← C02.run 3 4 5 [[97, 97, 97, 97, 13, 10, 98, 98, 98, 13, 10, 99, 99, 13, 10, 100, 100, 13, 10, 101, 101, 101, 101]]
    let s ← p.screen.setScrollback 1
    reproduces s []) = true := by decide +kernel

/-- kernel-evaluated reproductions (tests of the model, not the universal claim) -/
theorem redraw_examples :
    isOkTrue (do
      -- wide + combining + colour + wrapped row + pending-wrap cursor
      let p ← C02.run 3 4 0 [[0x1b, 0x5b, 0x33, 0x31, 0x3b, 0x34, 0x6d, 97, 0xCC, 0x81, 0xE4, 0xB8, 0x80, 98, 99, 100, 101, 102]]
      reproduces p.screen []) = true ∧
    isOkTrue (do
      -- dirty receiver, alternate screen, modes, hidden cursor, region
      let p ← C02.run 4 5 3 [[0x1b, 0x5b, 0x3f, 0x31, 0x30, 0x34, 0x39, 0x68, 0x1b, 0x5b, 0x3f, 0x32, 0x35, 0x6c, 0x1b, 0x3d,
                              0x1b, 0x5b, 0x32, 0x3b, 0x33, 0x72, 120, 121, 13, 10, 10, 10, 122, 0x1b, 0x5b, 0x3f, 0x31, 0x30, 0x30, 0x32, 0x68]]
      reproduces p.screen [0x1b, 0x5b, 0x34, 0x31, 0x6d, 113, 113, 113, 113, 113, 113, 113]) = true ∧
    isOkTrue (do
      -- scrolled view without pending wrap: reproduces up to the exempt flag
      let p ← C02.run 3 4 5 [[97, 97, 97, 97, 98, 13, 10, 99, 13, 10, 100, 13, 10, 101]]
      let s ← p.screen.setScrollback 2
      reproduces s []) = true := by
  refine ⟨by decide +kernel, by decide +kernel, by decide +kernel⟩

end Vt.C01
