import Vt.Props.C05b
import Vt.Spec.Obs
/-
  MiscC05 — C05 at the Screen / action level, and the end-to-end statements for a character that
  does NOT fit on the current line.

  (a) Lift.  `perform_print_eq`: for a character that is neither C1 nor U+FFFD,
      `perform W cb ws (.print c)` (= `Perform::print(c)` on the wrapped screen) is
      `Screen::text` on the ACTIVE grid with the screen's pen: the result is
      `{ ws with screen := withCur ws.screen g' }` — the inactive grid, the pen, the modes and the
      event log are untouched and no callback runs.  `perform_print_fits` is `C05.text_fits_spec`
      through this lift (hypothesis: `Inv W ws.screen`).
  (b) Composition of `wrapDecision_spec`, `colWrap_room` / `colWrap_stay` / `colWrap_scroll`,
      `text_after_wrap`, `text_fits_spec` into one closed form per case, for a character of width
      1 or 2 with `col + w > cols`:
        `text_wrap_room`    room below: cursor to the next line, the old line flagged iff its last
                            column is occupied, the character printed at column 0 of the next line;
        `text_wrap_scroll`  bottom line of a scroll region of ≥ 2 lines: one scroll step, the old
                            line (now one line up) flagged iff its last column is occupied, the
                            character printed at column 0 of the fresh blank bottom line;
        `text_wrap_scroll1` ONE-LINE region: one scroll step, NO flag, the character printed at
                            column 0 of the fresh blank line;
        `text_wrap_stay`    last line of the screen, outside the region: the flag of the line is
                            CLEARED, the character overprints column 0 of the same line.
      Each has its `perform_print_*` corollary (action level).
  (c) Reading found by the audit, recorded as `one_line_region_loses_wrap_flag` (a kernel-evaluated
      test): on a one-line region (in particular a 1-row screen) the line that scrolls away is NOT
      flagged wrapped, and this is observable in the scrollback: 1x2 screen, capacity 5, input "abc".
-/
namespace Vt.MiscC05
open Vt Vt.C05
set_option linter.unusedSimpArgs false
set_option linter.unusedVariables false

variable {W : Nat → Option Nat}

/-! ## (a) the lift to `Screen` and `perform` -/

/-- the screen with its ACTIVE grid replaced (`*self.grid_mut() = g`) -/
def withCur (s : Screen) (g : Grid) : Screen :=
  if s.altScreen then { s with altGrid := g } else { s with grid := g }

theorem withCur_cur (s : Screen) (g : Grid) : (withCur s g).cur = g := by
  unfold withCur Screen.cur
  cases h : s.altScreen <;> simp [h]

/-- a grid with new rows and a new cursor, everything else kept (for statements) -/
def setRP (g : Grid) (rows : List Row) (pos : Pos) : Grid := { g with rows := rows, pos := pos }

/-- the wrapped screen with a new screen, the event log kept -/
def setScreen (ws : WS) (s : Screen) : WS := { ws with screen := s }

/-- everything but the active grid is kept -/
theorem withCur_frame (s : Screen) (g : Grid) :
    (withCur s g).attrs = s.attrs ∧ (withCur s g).savedAttrs = s.savedAttrs ∧
    (withCur s g).altScreen = s.altScreen ∧ (withCur s g).hideCursor = s.hideCursor ∧
    (withCur s g).appKeypad = s.appKeypad ∧ (withCur s g).appCursor = s.appCursor ∧
    (withCur s g).bracketedPaste = s.bracketedPaste ∧ (withCur s g).mouseMode = s.mouseMode ∧
    (withCur s g).mouseEnc = s.mouseEnc ∧
    (s.altScreen = true → (withCur s g).grid = s.grid) ∧
    (s.altScreen = false → (withCur s g).altGrid = s.altGrid) := by
  unfold withCur
  cases h : s.altScreen <;> simp [h]

theorem modifyGrid_eq (s : Screen) (f : Grid → M Grid) {g' : Grid} (h : f s.cur = .ok g') :
    s.modifyGrid f = .ok (withCur s g') := by
  unfold Screen.modifyGrid withCur
  unfold Screen.cur at h
  cases ha : s.altScreen
  · simp only [ha, Bool.false_eq_true, ↓reduceIte] at h ⊢
    rw [h]; rfl
  · simp only [ha, ↓reduceIte] at h ⊢
    rw [h]; rfl

/-- **C05 lift**: `Perform::print(c)` for `c` outside C1 and ≠ U+FFFD is `text` on the active grid
with the pen; only the active grid changes, nothing is reported, no callback runs. -/
theorem perform_print_eq (cb : CbPolicy) (ws : WS) (c : Nat) (hc1 : ¬ (0x80 ≤ c ∧ c < 0xA0))
    (hrep : c ≠ 0xFFFD) {g' : Grid} (h : ws.screen.cur.text W ws.screen.attrs c = .ok g') :
    perform W cb ws (.print c) = .ok (setScreen ws (withCur ws.screen g')) := by
  have h1 : (decide (0x80 ≤ c) && decide (c < 0xA0)) = false := by
    cases hh : (decide (0x80 ≤ c) && decide (c < 0xA0))
    · rfl
    · simp only [Bool.and_eq_true, decide_eq_true_eq] at hh; exact absurd hh hc1
  have h2 : (c == 0xFFFD) = false := by rw [beq_eq_false_iff_ne]; exact hrep
  simp only [perform, performPrint, h1, h2, Bool.false_eq_true, ↓reduceIte, WS.onScreen, Screen.text,
    modifyGrid_eq ws.screen (fun g => g.text W ws.screen.attrs c) h, ok_bind, pure_eq_ok, setScreen]

/-- **C05, a character that fits, action level.**  On a screen satisfying `Inv`, printing a
character of width 1 or 2 that fits on the cursor line of the active grid: that line becomes
`printedRow`, the cursor advances by the width; the event log, the pen, the modes and the inactive
grid are unchanged. -/
theorem perform_print_fits (cb : CbPolicy) (ws : WS) (hinv : Inv W ws.screen) (hW32 : W 32 = some 1)
    (c : Nat) (hc1 : ¬ (0x80 ≤ c ∧ c < 0xA0)) (hrep : c ≠ 0xFFFD) (hnc : ¬ (W c = none ∧ c < 256))
    (hw1 : 1 ≤ effWidth W c)
    (hfit : ws.screen.cur.pos.col + effWidth W c ≤ ws.screen.cur.size.cols) :
    ∃ r, ws.screen.cur.rows[ws.screen.cur.pos.row]? = some r ∧
      perform W cb ws (.print c) = .ok (setScreen ws (withCur ws.screen
        (setRP ws.screen.cur
          (ws.screen.cur.rows.set ws.screen.cur.pos.row
            (printedRow W r ws.screen.cur.pos.col ws.screen.cur.size.cols ws.screen.attrs c
              (decide (effWidth W c > 1))))
          ⟨ws.screen.cur.pos.row, ws.screen.cur.pos.col + effWidth W c⟩))) := by
  obtain ⟨hg, hl⟩ := ((inv_iff W _).mp hinv).cur
  obtain ⟨r, hr, ht⟩ := text_fits_spec hg hl hW32 ws.screen.attrs c hnc hw1 hfit
  exact ⟨r, hr, perform_print_eq cb ws c hc1 hrep ht⟩

/-! ## (b) a character that does not fit -/

/-- printing = `col_wrap` with the wrap decision, then printing a character that fits (generic
composition; the cases below instantiate `g1`) -/
theorem text_via_colWrap {g : Grid} (hinv : GridInv W g true) (hl : g.rows.length = g.size.rows)
    (hW32 : W 32 = some 1) (a : Attrs) (c : Nat) (hnc : ¬ (W c = none ∧ c < 256))
    (hw1 : 1 ≤ effWidth W c) (hwc : effWidth W c ≤ g.size.cols) :
    ∃ r g1 r1, g.rows[g.pos.row]? = some r ∧
      g.colWrap (effWidth W c) (decide (g.pos.col + effWidth W c > g.size.cols) && lastOccB r) = .ok g1 ∧
      StepOk W g g1 ∧ g1.rows[g1.pos.row]? = some r1 ∧
      g.text W a c = .ok { g1 with
        rows := g1.rows.set g1.pos.row
          (printedRow W r1 g1.pos.col g.size.cols a c (decide (effWidth W c > 1)))
        pos := ⟨g1.pos.row, g1.pos.col + effWidth W c⟩ } := by
  obtain ⟨r, hr, hd⟩ := wrapDecision_spec hinv hl (effWidth W c) hwc
  obtain ⟨g1, hcw, hs, hcol⟩ := colWrap_ok hinv hl (effWidth W c)
    (decide (g.pos.col + effWidth W c > g.size.cols) && lastOccB r) hwc
  obtain ⟨r1, hr1, ht1⟩ := text_fits_spec hs.inv hs.len hW32 a c hnc hw1 hcol
  refine ⟨r, g1, r1, hr, hcw, hs, hr1, ?_⟩
  rw [text_after_wrap a c hnc hwc hd hcw hs.size hcol, ht1, hs.size]

/-- **C05, wrap with room below** (inside the scroll region above its bottom line, or outside it
above the last line of the screen): for a character of width `w ∈ {1,2}`, `w ≤ cols`, that does not
fit (`col + w > cols`):
  * the line `r` the cursor leaves gets `wrapped := lastOccB r` — set iff its last column is
    occupied (text or the second half of a wide character), cleared otherwise;
  * the character is printed at column 0 of the next line `r2` by the closed form `printedRow`;
  * the cursor ends at `(row + 1, w)`; nothing else in the grid changes. -/
theorem text_wrap_room {g : Grid} (hinv : GridInv W g true) (hl : g.rows.length = g.size.rows)
    (hW32 : W 32 = some 1) (a : Attrs) (c : Nat) (hnc : ¬ (W c = none ∧ c < 256))
    (hw1 : 1 ≤ effWidth W c) (hwc : effWidth W c ≤ g.size.cols)
    (hno : g.pos.col + effWidth W c > g.size.cols)
    (hroom : g.pos.row + 1 ≤ (if g.inScrollRegion then g.scrollBottom else g.size.rows - 1)) :
    ∃ r r2, g.rows[g.pos.row]? = some r ∧ g.rows[g.pos.row + 1]? = some r2 ∧
      g.text W a c = .ok { g with
        rows := (g.rows.set g.pos.row (r.wrap (lastOccB r))).set (g.pos.row + 1)
          (printedRow W r2 0 g.size.cols a c (decide (effWidth W c > 1)))
        pos := ⟨g.pos.row + 1, effWidth W c⟩ } := by
  obtain ⟨r, g1, r1, hr, hcw, hs, hr1, ht⟩ := text_via_colWrap hinv hl hW32 a c hnc hw1 hwc
  obtain ⟨r', hr', hcw'⟩ := colWrap_room hinv hl (effWidth W c)
    (decide (g.pos.col + effWidth W c > g.size.cols) && lastOccB r) hwc hno hroom
  rw [hr] at hr'; cases hr'
  rw [hcw] at hcw'; cases hcw'
  simp only [decide_eq_true hno, Bool.true_and] at hr1 ht ⊢
  rw [List.getElem?_set_ne (by omega)] at hr1
  refine ⟨r, r1, hr, hr1, ?_⟩
  rw [ht]
  simp only [Nat.zero_add]

/-- **C05, wrap on the last line of the screen when it lies outside the scroll region**: nothing
scrolls, the cursor returns to column 0 of the SAME line, the line's wrap flag is cleared, and the
character overprints column 0 (closed form `printedRow` on the line with the flag cleared). -/
theorem text_wrap_stay {g : Grid} (hinv : GridInv W g true) (hl : g.rows.length = g.size.rows)
    (hW32 : W 32 = some 1) (a : Attrs) (c : Nat) (hnc : ¬ (W c = none ∧ c < 256))
    (hw1 : 1 ≤ effWidth W c) (hwc : effWidth W c ≤ g.size.cols)
    (hno : g.pos.col + effWidth W c > g.size.cols) (hin : g.inScrollRegion = false)
    (hlast : g.pos.row = g.size.rows - 1) :
    ∃ r, g.rows[g.pos.row]? = some r ∧
      g.text W a c = .ok { g with
        rows := g.rows.set g.pos.row
          (printedRow W (r.wrap false) 0 g.size.cols a c (decide (effWidth W c > 1)))
        pos := ⟨g.pos.row, effWidth W c⟩ } := by
  obtain ⟨r, g1, r1, hr, hcw, hs, hr1, ht⟩ := text_via_colWrap hinv hl hW32 a c hnc hw1 hwc
  obtain ⟨r', hr', hcw'⟩ := colWrap_stay hinv hl (effWidth W c)
    (decide (g.pos.col + effWidth W c > g.size.cols) && lastOccB r) hwc hno hin hlast
  rw [hr] at hr'; cases hr'
  rw [hcw] at hcw'; cases hcw'
  have hrl : g.pos.row < g.rows.length := by rw [hl]; exact hinv.pos_row
  simp only at hr1 ht
  rw [List.getElem?_set_self hrl] at hr1
  cases hr1
  refine ⟨r, hr, ?_⟩
  rw [ht]
  simp only [Nat.zero_add, List.set_set]

/-- one scroll step: the bottom line of the region is a fresh blank line afterwards -/
theorem scrollUp_one_bottom {g g' : Grid} (hb : g.scrollBottom < g.rows.length)
    (ht : g.scrollTop ≤ g.scrollBottom) (e : C12.scrollUpStep g = .ok g') :
    g'.rows[g.scrollBottom]? = some g.newRow := by
  simp only [C12.scrollUpStep] at e
  obtain ⟨rows1, h1, e⟩ := bind_eq_ok.mp e
  obtain ⟨⟨removed, rows2⟩, h2, e⟩ := bind_eq_ok.mp e
  have hr1 : rows1 = g.rows.take (g.scrollBottom + 1) ++ g.newRow :: g.rows.drop (g.scrollBottom + 1) := by
    unfold insertM at h1
    split at h1
    · simp only [pure_eq_ok, Except.ok.injEq] at h1; exact h1.symm
    · simp [panic] at h1
  have hr2 : rows2 = rows1.eraseIdx g.scrollTop := by
    unfold removeM at h2
    cases hc : rows1[g.scrollTop]? with
    | none => rw [hc] at h2; simp [panic] at h2
    | some z =>
      rw [hc] at h2
      simp only [pure_eq_ok, Except.ok.injEq, Prod.mk.injEq] at h2
      exact h2.2.symm
  have hrows : rows2[g.scrollBottom]? = some g.newRow := by
    rw [hr2, List.getElem?_eraseIdx_of_ge (by omega), hr1]
    rw [List.getElem?_append_right (by simp [List.length_take]; omega)]
    have : g.scrollBottom + 1 - (List.take (g.scrollBottom + 1) g.rows).length = 0 := by
      simp [List.length_take]; omega
    rw [this]; rfl
  simp only at e
  split at e
  · obtain ⟨active, _, e⟩ := bind_eq_ok.mp e
    split at e <;> (simp only [pure_eq_ok, Except.ok.injEq] at e; rw [← e]; exact hrows)
  · simp only [pure_eq_ok, Except.ok.injEq] at e
    rw [← e]; exact hrows

/-- a scroll step keeps the margins, the cursor, the size and the number of rows it was given -/
theorem scrollUpStep_frame {g g' : Grid} (e : C12.scrollUpStep g = .ok g') :
    g'.scrollTop = g.scrollTop ∧ g'.scrollBottom = g.scrollBottom ∧ g'.pos = g.pos ∧ g'.size = g.size := by
  simp only [C12.scrollUpStep] at e
  obtain ⟨rows1, _, e⟩ := bind_eq_ok.mp e
  obtain ⟨⟨removed, rows2⟩, _, e⟩ := bind_eq_ok.mp e
  simp only at e
  split at e
  · obtain ⟨active, _, e⟩ := bind_eq_ok.mp e
    split at e <;> (simp only [pure_eq_ok, Except.ok.injEq] at e; rw [← e]; exact ⟨rfl, rfl, rfl, rfl⟩)
  · simp only [pure_eq_ok, Except.ok.injEq] at e
    rw [← e]; exact ⟨rfl, rfl, rfl, rfl⟩

/-- **C05, wrap on the bottom line of a scroll region of at least two lines**: the region scrolls by
one line (`g1` = one `scrollUpStep` of the grid with the cursor in column 0: the top line of the
region goes — into the scrollback when the region is the whole screen and the capacity non-zero);
the line `r` the cursor left is now line `bottom - 1` and gets `wrapped := lastOccB r`; the
character is printed at column 0 of the fresh blank bottom line; the cursor ends at `(bottom, w)`. -/
theorem text_wrap_scroll {g : Grid} (hinv : GridInv W g true) (hl : g.rows.length = g.size.rows)
    (hW32 : W 32 = some 1) (a : Attrs) (c : Nat) (hnc : ¬ (W c = none ∧ c < 256))
    (hw1 : 1 ≤ effWidth W c) (hwc : effWidth W c ≤ g.size.cols)
    (hno : g.pos.col + effWidth W c > g.size.cols) (hin : g.inScrollRegion = true)
    (hbot : g.pos.row = g.scrollBottom) (htb : g.scrollTop < g.scrollBottom) :
    ∃ g1 r, C12.scrollUpStep ({ g with pos := ⟨g.pos.row, 0⟩ } : Grid) = .ok g1 ∧
      g.rows[g.pos.row]? = some r ∧ g1.rows[g.scrollBottom - 1]? = some r ∧
      g1.rows[g.scrollBottom]? = some g.newRow ∧
      g.text W a c = .ok { g1 with
        rows := (g1.rows.set (g.scrollBottom - 1) (r.wrap (lastOccB r))).set g.scrollBottom
          (printedRow W g.newRow 0 g.size.cols a c (decide (effWidth W c > 1)))
        pos := ⟨g.scrollBottom, effWidth W c⟩ } := by
  obtain ⟨r, g2, r2, hr, hcw, hs, hr2, ht⟩ := text_via_colWrap hinv hl hW32 a c hnc hw1 hwc
  obtain ⟨g1, hstep, _, hmany⟩ := colWrap_scroll hinv hl (effWidth W c)
    (decide (g.pos.col + effWidth W c > g.size.cols) && lastOccB r) hwc hno hin hbot
  obtain ⟨r', hg1r, hr', hcw'⟩ := hmany htb
  rw [hr] at hr'; cases hr'
  rw [hcw] at hcw'; cases hcw'
  obtain ⟨_, _, hpos, _⟩ := scrollUpStep_frame hstep
  have hbl : g.scrollBottom < g.rows.length := by rw [← hbot, hl]; exact hinv.pos_row
  have hnew := scrollUp_one_bottom (g := { g with pos := ⟨g.pos.row, 0⟩ }) hbl (Nat.le_of_lt htb) hstep
  simp only [Grid.newRow] at hnew
  refine ⟨g1, r, hstep, hr, hg1r, hnew, ?_⟩
  simp only [decide_eq_true hno, Bool.true_and, hpos] at hr2 ht
  rw [hbot] at hr2 ht
  rw [List.getElem?_set_ne (by omega), hnew] at hr2
  cases hr2
  rw [ht]
  simp only [Nat.zero_add, Grid.newRow]

/-- **C05, wrap on a ONE-LINE scroll region** (in particular a one-row screen): the region scrolls
by one line, the line the cursor left has scrolled away — into the scrollback when the region is
the whole screen — and NOTHING is flagged: the result has the rows of the scroll step with the
character printed at column 0 of the fresh blank line. -/
theorem text_wrap_scroll1 {g : Grid} (hinv : GridInv W g true) (hl : g.rows.length = g.size.rows)
    (hW32 : W 32 = some 1) (a : Attrs) (c : Nat) (hnc : ¬ (W c = none ∧ c < 256))
    (hw1 : 1 ≤ effWidth W c) (hwc : effWidth W c ≤ g.size.cols)
    (hno : g.pos.col + effWidth W c > g.size.cols) (hin : g.inScrollRegion = true)
    (hbot : g.pos.row = g.scrollBottom) (htb : g.scrollTop = g.scrollBottom) :
    ∃ g1, C12.scrollUpStep ({ g with pos := ⟨g.pos.row, 0⟩ } : Grid) = .ok g1 ∧
      g1.rows[g.scrollBottom]? = some g.newRow ∧
      g.text W a c = .ok { g1 with
        rows := g1.rows.set g.scrollBottom
          (printedRow W g.newRow 0 g.size.cols a c (decide (effWidth W c > 1)))
        pos := ⟨g.scrollBottom, effWidth W c⟩ } := by
  obtain ⟨r, g2, r2, hr, hcw, hs, hr2, ht⟩ := text_via_colWrap hinv hl hW32 a c hnc hw1 hwc
  obtain ⟨g1, hstep, hone, _⟩ := colWrap_scroll hinv hl (effWidth W c)
    (decide (g.pos.col + effWidth W c > g.size.cols) && lastOccB r) hwc hno hin hbot
  have hcw' := hone htb
  rw [hcw] at hcw'; cases hcw'
  obtain ⟨_, _, hpos, _⟩ := scrollUpStep_frame hstep
  have hbl : g.scrollBottom < g.rows.length := by rw [← hbot, hl]; exact hinv.pos_row
  have hnew := scrollUp_one_bottom (g := { g with pos := ⟨g.pos.row, 0⟩ }) hbl (Nat.le_of_eq htb) hstep
  simp only [Grid.newRow] at hnew
  refine ⟨g2, hstep, hnew, ?_⟩
  simp only [hpos] at hr2 ht
  rw [hbot] at hr2 ht
  rw [hnew] at hr2
  cases hr2
  rw [ht]
  simp only [Nat.zero_add, Grid.newRow]

/-! ### the same at the action level -/

section action
variable (cb : CbPolicy) (ws : WS)

/-- `text_wrap_room` for `Perform::print` -/
theorem perform_print_wrap_room (hinv : Inv W ws.screen) (hW32 : W 32 = some 1)
    (c : Nat) (hc1 : ¬ (0x80 ≤ c ∧ c < 0xA0)) (hrep : c ≠ 0xFFFD) (hnc : ¬ (W c = none ∧ c < 256))
    (hw1 : 1 ≤ effWidth W c) (hwc : effWidth W c ≤ ws.screen.cur.size.cols)
    (hno : ws.screen.cur.pos.col + effWidth W c > ws.screen.cur.size.cols)
    (hroom : ws.screen.cur.pos.row + 1 ≤
      (if ws.screen.cur.inScrollRegion then ws.screen.cur.scrollBottom else ws.screen.cur.size.rows - 1)) :
    ∃ r r2, ws.screen.cur.rows[ws.screen.cur.pos.row]? = some r ∧
      ws.screen.cur.rows[ws.screen.cur.pos.row + 1]? = some r2 ∧
      perform W cb ws (.print c) = .ok (setScreen ws (withCur ws.screen
        (setRP ws.screen.cur
          ((ws.screen.cur.rows.set ws.screen.cur.pos.row (r.wrap (lastOccB r))).set
            (ws.screen.cur.pos.row + 1)
            (printedRow W r2 0 ws.screen.cur.size.cols ws.screen.attrs c (decide (effWidth W c > 1))))
          ⟨ws.screen.cur.pos.row + 1, effWidth W c⟩))) := by
  obtain ⟨hg, hl⟩ := ((inv_iff W _).mp hinv).cur
  obtain ⟨r, r2, hr, hr2, ht⟩ := text_wrap_room hg hl hW32 ws.screen.attrs c hnc hw1 hwc hno hroom
  exact ⟨r, r2, hr, hr2, perform_print_eq cb ws c hc1 hrep ht⟩

/-- `text_wrap_stay` for `Perform::print` -/
theorem perform_print_wrap_stay (hinv : Inv W ws.screen) (hW32 : W 32 = some 1)
    (c : Nat) (hc1 : ¬ (0x80 ≤ c ∧ c < 0xA0)) (hrep : c ≠ 0xFFFD) (hnc : ¬ (W c = none ∧ c < 256))
    (hw1 : 1 ≤ effWidth W c) (hwc : effWidth W c ≤ ws.screen.cur.size.cols)
    (hno : ws.screen.cur.pos.col + effWidth W c > ws.screen.cur.size.cols)
    (hin : ws.screen.cur.inScrollRegion = false)
    (hlast : ws.screen.cur.pos.row = ws.screen.cur.size.rows - 1) :
    ∃ r, ws.screen.cur.rows[ws.screen.cur.pos.row]? = some r ∧
      perform W cb ws (.print c) = .ok (setScreen ws (withCur ws.screen
        (setRP ws.screen.cur
          (ws.screen.cur.rows.set ws.screen.cur.pos.row
            (printedRow W (r.wrap false) 0 ws.screen.cur.size.cols ws.screen.attrs c
              (decide (effWidth W c > 1))))
          ⟨ws.screen.cur.pos.row, effWidth W c⟩))) := by
  obtain ⟨hg, hl⟩ := ((inv_iff W _).mp hinv).cur
  obtain ⟨r, hr, ht⟩ := text_wrap_stay hg hl hW32 ws.screen.attrs c hnc hw1 hwc hno hin hlast
  exact ⟨r, hr, perform_print_eq cb ws c hc1 hrep ht⟩

/-- `text_wrap_scroll` for `Perform::print` -/
theorem perform_print_wrap_scroll (hinv : Inv W ws.screen) (hW32 : W 32 = some 1)
    (c : Nat) (hc1 : ¬ (0x80 ≤ c ∧ c < 0xA0)) (hrep : c ≠ 0xFFFD) (hnc : ¬ (W c = none ∧ c < 256))
    (hw1 : 1 ≤ effWidth W c) (hwc : effWidth W c ≤ ws.screen.cur.size.cols)
    (hno : ws.screen.cur.pos.col + effWidth W c > ws.screen.cur.size.cols)
    (hin : ws.screen.cur.inScrollRegion = true)
    (hbot : ws.screen.cur.pos.row = ws.screen.cur.scrollBottom)
    (htb : ws.screen.cur.scrollTop < ws.screen.cur.scrollBottom) :
    ∃ g1 r, C12.scrollUpStep ({ ws.screen.cur with pos := ⟨ws.screen.cur.pos.row, 0⟩ } : Grid) = .ok g1 ∧
      ws.screen.cur.rows[ws.screen.cur.pos.row]? = some r ∧
      g1.rows[ws.screen.cur.scrollBottom - 1]? = some r ∧
      g1.rows[ws.screen.cur.scrollBottom]? = some ws.screen.cur.newRow ∧
      perform W cb ws (.print c) = .ok (setScreen ws (withCur ws.screen
        (setRP g1
          ((g1.rows.set (ws.screen.cur.scrollBottom - 1) (r.wrap (lastOccB r))).set
            ws.screen.cur.scrollBottom
            (printedRow W ws.screen.cur.newRow 0 ws.screen.cur.size.cols ws.screen.attrs c
              (decide (effWidth W c > 1))))
          ⟨ws.screen.cur.scrollBottom, effWidth W c⟩))) := by
  obtain ⟨hg, hl⟩ := ((inv_iff W _).mp hinv).cur
  obtain ⟨g1, r, h1, h2, h3, h4, ht⟩ :=
    text_wrap_scroll hg hl hW32 ws.screen.attrs c hnc hw1 hwc hno hin hbot htb
  exact ⟨g1, r, h1, h2, h3, h4, perform_print_eq cb ws c hc1 hrep ht⟩

/-- `text_wrap_scroll1` (one-line region: no flag) for `Perform::print` -/
theorem perform_print_wrap_scroll1 (hinv : Inv W ws.screen) (hW32 : W 32 = some 1)
    (c : Nat) (hc1 : ¬ (0x80 ≤ c ∧ c < 0xA0)) (hrep : c ≠ 0xFFFD) (hnc : ¬ (W c = none ∧ c < 256))
    (hw1 : 1 ≤ effWidth W c) (hwc : effWidth W c ≤ ws.screen.cur.size.cols)
    (hno : ws.screen.cur.pos.col + effWidth W c > ws.screen.cur.size.cols)
    (hin : ws.screen.cur.inScrollRegion = true)
    (hbot : ws.screen.cur.pos.row = ws.screen.cur.scrollBottom)
    (htb : ws.screen.cur.scrollTop = ws.screen.cur.scrollBottom) :
    ∃ g1, C12.scrollUpStep ({ ws.screen.cur with pos := ⟨ws.screen.cur.pos.row, 0⟩ } : Grid) = .ok g1 ∧
      g1.rows[ws.screen.cur.scrollBottom]? = some ws.screen.cur.newRow ∧
      perform W cb ws (.print c) = .ok (setScreen ws (withCur ws.screen
        (setRP g1
          (g1.rows.set ws.screen.cur.scrollBottom
            (printedRow W ws.screen.cur.newRow 0 ws.screen.cur.size.cols ws.screen.attrs c
              (decide (effWidth W c > 1))))
          ⟨ws.screen.cur.scrollBottom, effWidth W c⟩))) := by
  obtain ⟨hg, hl⟩ := ((inv_iff W _).mp hinv).cur
  obtain ⟨g1, h1, h2, ht⟩ :=
    text_wrap_scroll1 hg hl hW32 ws.screen.attrs c hnc hw1 hwc hno hin hbot htb
  exact ⟨g1, h1, h2, perform_print_eq cb ws c hc1 hrep ht⟩

end action

/-! ## (c) the one-line region reading, and tests that the hypotheses are satisfiable -/

/-- run a byte string on a fresh parser (test helper) -/
def run (rows cols sb : Nat) (bytes : List Nat) : Option Parser :=
  ((Parser.new rows cols sb) >>= fun p => p.process W0 cbNone bytes).toOption

/-- **the reading recorded by the audit (test, kernel-evaluated).**  1x2 screen, scrollback capacity
5, input "abc".  "c" does not fit; the region is one line, so `col_wrap` scrolls and flags nothing
(`colWrap_scroll`, `text_wrap_scroll1`): the line "ab" is in the scrollback with `wrapped = false`
although its last column is occupied and the text continues on the next line.  The 2x2 screen
below is the comparison: there the line "ab" IS flagged. -/
theorem one_line_region_loses_wrap_flag :
    ((run 1 2 5 [97, 98, 99]).map fun p =>
        (p.screen.grid.scrollback.map (fun r => (r.cells.map (·.contents.take 1), r.wrapped)),
         p.screen.grid.rows.map (fun r => r.cells.map (fun c => c.contents.take c.len)),
         p.screen.grid.pos))
      = some ([([[97], [98]], false)], [[[99], []]], ⟨0, 1⟩) ∧
    ((run 2 2 5 [97, 98, 99]).map fun p =>
        (p.screen.grid.rows.map (fun r => (r.cells.map (fun c => c.contents.take c.len), r.wrapped)),
         p.screen.grid.pos))
      = some ([([[97], [98]], true), ([[99], []], false)], ⟨1, 1⟩) := by
  refine ⟨by decide +kernel, by decide +kernel⟩

/-- the same, seen through the public API (test): after `set_scrollback(1)` the 1x2 screen shows the
history line "ab" and `row_wrapped(0)` is `false`; on the 2x2 screen the line "ab" is line 0 of the
live screen and `row_wrapped(0)` is `true` -/
theorem one_line_region_row_wrapped :
    ((run 1 2 5 [97, 98, 99]).bind fun p =>
        ((p.screen.setScrollback 1) >>= fun s => do
          let c ← s.contents
          let w ← s.rowWrapped 0
          pure (c, w)).toOption) = some ([97, 98], false) ∧
    ((run 2 2 5 [97, 98, 99]).bind fun p => (p.screen.rowWrapped 0).toOption) = some true := by
  refine ⟨by decide +kernel, by decide +kernel⟩

/-- test helper: a property of the parser a run ends in -/
theorem exists_of_run {r : Option Parser} {P : Parser → Prop} [DecidablePred P]
    (h : (match r with | some p => decide (P p) | none => false) = true) : ∃ p, r = some p ∧ P p := by
  cases r with
  | none => simp at h
  | some p => exact ⟨p, rfl, of_decide_eq_true h⟩

/-- test: the state before the "c" of `one_line_region_loses_wrap_flag` meets the hypotheses of
`perform_print_wrap_scroll1` (one-line region, cursor past the last column, `Inv`) -/
theorem wrap_scroll1_nonvacuous :
    ∃ p, run 1 2 5 [97, 98] = some p ∧ (Inv W0 p.ws.screen ∧
      p.ws.screen.cur.pos.col + effWidth W0 99 > p.ws.screen.cur.size.cols ∧
      p.ws.screen.cur.inScrollRegion = true ∧
      p.ws.screen.cur.pos.row = p.ws.screen.cur.scrollBottom ∧
      p.ws.screen.cur.scrollTop = p.ws.screen.cur.scrollBottom) :=
  exists_of_run (by decide +kernel)

/-- test: hypotheses of `perform_print_wrap_room` (3x2 screen after "ab") -/
theorem wrap_room_nonvacuous :
    ∃ p, run 3 2 5 [97, 98] = some p ∧ (Inv W0 p.ws.screen ∧
      p.ws.screen.cur.pos.col + effWidth W0 99 > p.ws.screen.cur.size.cols ∧
      p.ws.screen.cur.pos.row + 1 ≤ (if p.ws.screen.cur.inScrollRegion then p.ws.screen.cur.scrollBottom
        else p.ws.screen.cur.size.rows - 1)) :=
  exists_of_run (by decide +kernel)

/-- test: hypotheses of `perform_print_wrap_scroll` (2x2 screen after "abcd": cursor on the bottom
line, past the end) -/
theorem wrap_scroll_nonvacuous :
    ∃ p, run 2 2 5 [97, 98, 99, 100] = some p ∧ (Inv W0 p.ws.screen ∧
      p.ws.screen.cur.pos.col + effWidth W0 99 > p.ws.screen.cur.size.cols ∧
      p.ws.screen.cur.inScrollRegion = true ∧
      p.ws.screen.cur.pos.row = p.ws.screen.cur.scrollBottom ∧
      p.ws.screen.cur.scrollTop < p.ws.screen.cur.scrollBottom) :=
  exists_of_run (by decide +kernel)

/-- test: hypotheses of `perform_print_wrap_stay` (3x2 screen, region rows 1-2 (`ESC[1;2r`), cursor
moved to the last line (`ESC[3;1H`), then "ab": past the end of the last line, outside the region) -/
theorem wrap_stay_nonvacuous :
    ∃ p, run 3 2 5 [27, 91, 49, 59, 50, 114, 27, 91, 51, 59, 49, 72, 97, 98] = some p ∧
      (Inv W0 p.ws.screen ∧
      p.ws.screen.cur.pos.col + effWidth W0 99 > p.ws.screen.cur.size.cols ∧
      p.ws.screen.cur.inScrollRegion = false ∧
      p.ws.screen.cur.pos.row = p.ws.screen.cur.size.rows - 1) :=
  exists_of_run (by decide +kernel)

end Vt.MiscC05

/-
#print axioms Vt.MiscC05.perform_print_eq
#print axioms Vt.MiscC05.perform_print_fits
#print axioms Vt.MiscC05.text_wrap_room
#print axioms Vt.MiscC05.text_wrap_stay
#print axioms Vt.MiscC05.text_wrap_scroll
#print axioms Vt.MiscC05.text_wrap_scroll1
#print axioms Vt.MiscC05.perform_print_wrap_room
#print axioms Vt.MiscC05.perform_print_wrap_stay
#print axioms Vt.MiscC05.perform_print_wrap_scroll
#print axioms Vt.MiscC05.perform_print_wrap_scroll1
-/
