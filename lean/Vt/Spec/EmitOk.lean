/-
  Vt.Spec.EmitOk — what the redraw theorems (C01, C15) need of a screen beyond `Inv` and `Inv⁺`, as
  Boolean functions so that the driver can evaluate them on every implementation state it is handed.

  All of it holds on every state the crate can reach (the checks evaluate it on every visited state):
    * a cell's first character is not U+FFFD (`perform.rs` reports that one instead of storing it);
    * a character of width `w` in column `c` satisfies `c + min w 2 ≤ cols` (a cell holds at most a
      double-width character; `text` clamps the width it works with to 2);
    * every combining character of a cell was appended while the cell held fewer than 18 bytes
      (`Cell::append` stops there), so re-typing the cell drops none of them;
    * colour components are bytes (they came through `u16ToU8`).
-/
import Vt.Spec.Inv
namespace Vt

def colorOk : Color → Bool
  | .default => true
  | .idx i => i ≤ 255
  | .rgb r g b => r ≤ 255 && g ≤ 255 && b ≤ 255

def attrsOk (a : Attrs) : Bool := colorOk a.fg && colorOk a.bg

/-- every append happened below the 18-byte stop; `n` = live bytes before the next one -/
def prefixOkB : Nat → List Nat → Bool
  | _, [] => true
  | n, z :: rest => decide (n < 18) && prefixOkB (n + (Utf8.encode z).length) rest

def cellEmitOk (W : Nat → Option Nat) (cols col : Nat) (c : Cell) : Bool :=
  attrsOk c.attrs &&
  (if c.len == 0 then true
   else match (Utf8.fromUtf8 (c.contents.take c.len)).chars with
     | [] => false
     | f :: zs => f != 0xFFFD && decide (col + min ((W f).getD 1) 2 ≤ cols) && prefixOkB (Utf8.encode f).length zs)

def rowEmitOk (W : Nat → Option Nat) (cols : Nat) (r : Row) : Bool :=
  (r.cells.zipIdx.all (fun p => cellEmitOk W cols p.2 p.1))

def gridEmitOk (W : Nat → Option Nat) (g : Grid) : Bool :=
  g.rows.all (rowEmitOk W g.size.cols)

/-- `Inv⁺` plus the emitter side conditions -/
def emitInvB (W : Nat → Option Nat) (s : Screen) : Bool :=
  invPlusB W s && gridEmitOk W s.grid && gridEmitOk W s.altGrid && attrsOk s.attrs

end Vt
