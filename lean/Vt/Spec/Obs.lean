/-
  Vt.Spec.Obs — the observable visible state (DESIGN §5.1) as a decidable function of a
  screen, and the equality `obs≈` used by C01/C02/C15 (wrap flag of the bottom visible row
  exempt while the view is scrolled back).
-/
import Vt.Model.Perform
namespace Vt

/-- what `Screen::cell(r,c)` exposes of a cell -/
structure CellObs where
  text : List Nat
  wide : Bool
  cont : Bool
  attrs : Attrs
  deriving DecidableEq, Repr

def cellObs (c : Cell) : CellObs := ⟨c.contents.take c.len, c.wide, c.cont, c.attrs⟩

structure Obs where
  size : Size
  cells : List (List CellObs)
  wrapped : List Bool
  cursor : Pos
  hide : Bool
  pen : Attrs
  modes : Bool × Bool × Bool × MouseMode × MouseEnc
  deriving DecidableEq, Repr

def obs (s : Screen) : M Obs := do
  let rs ← s.cur.visibleRows
  pure { size := s.cur.size, cells := rs.map (fun r => r.cells.map cellObs),
         wrapped := rs.map (fun r => r.wrapped), cursor := s.cur.pos, hide := s.hideCursor,
         pen := s.attrs, modes := (s.appKeypad, s.appCursor, s.bracketedPaste, s.mouseMode, s.mouseEnc) }

/-- `obs≈`: equal except for the wrap flag of the bottom visible row when `scrolled` -/
def obsEq (scrolled : Bool) (a b : Obs) : Bool :=
  a.size == b.size && a.cells == b.cells && a.cursor == b.cursor && a.hide == b.hide && a.pen == b.pen &&
  a.modes == b.modes &&
  (if scrolled then a.wrapped.dropLast == b.wrapped.dropLast && a.wrapped.length == b.wrapped.length
   else a.wrapped == b.wrapped)

/-- a small concrete width function for kernel-evaluated examples:
combining marks U+0300..U+036F are 0, CJK U+4E00..U+9FFF are 2, C0/DEL/C1 have none, the rest 1 -/
def W0 (c : Nat) : Option Nat :=
  if c < 32 || (127 ≤ c && c < 160) then none
  else if 0x300 ≤ c && c ≤ 0x36F then some 0
  else if 0x4E00 ≤ c && c ≤ 0x9FFF then some 2
  else some 1

end Vt
