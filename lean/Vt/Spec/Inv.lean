/-
  Vt.Spec.Inv — the structural invariant `Inv` (C13, hypothesis of every other
  theorem) as a decidable Boolean function, so that the driver can evaluate it
  on every implementation state it is handed (`I` command).

  `W` is `unicode_width`'s `width()`.
-/
import Vt.Model.Perform
namespace Vt

/-- a non-empty cell holds valid UTF-8 = one character of non-zero width (or the
space placeholder) followed only by zero-width characters; `wide` iff that first
character is double-width; a continuation cell is empty -/
def cellOk (W : Nat → Option Nat) (c : Cell) : Bool :=
  c.contents.length == 22 && c.len ≤ 22 && c.contents.all (· < 256) &&
  (!c.cont || (c.len == 0 && !c.wide)) &&
  (let r := Utf8.fromUtf8 (c.contents.take c.len)
   r.err.isNone &&
   match r.chars with
   | [] => !c.wide
   | f :: rest =>
     (f == 32 || (W f != some 0 && (W f != none || f ≥ 256))) &&
     (c.wide == decide ((W f).getD 1 > 1)) &&
     rest.all (fun z => W z == some 0))

/-- `pw` = the previous cell is wide.  A cell is a continuation iff its
predecessor is wide; the last cell is not wide. -/
def pairingOk : Bool → List Cell → Bool
  | pw, [] => !pw
  | pw, c :: rest => (c.cont == pw) && pairingOk c.wide rest

def rowOk (W : Nat → Option Nat) (r : Row) : Bool :=
  r.cells.length ≥ 1 && r.cells.all (cellOk W) && pairingOk false r.cells

def posOk (sz : Size) (p : Pos) : Bool := p.row < sz.rows && p.col ≤ sz.cols

def gridOk (W : Nat → Option Nat) (g : Grid) (mayBeUnallocated : Bool) : Bool :=
  g.size.rows ≥ 1 && g.size.cols ≥ 1 && g.size.rows ≤ 65535 && g.size.cols ≤ 65535 &&
  ((mayBeUnallocated && g.rows.isEmpty) || g.rows.length == g.size.rows) &&
  g.rows.all (fun r => r.cells.length == g.size.cols && rowOk W r) &&
  posOk g.size g.pos && posOk g.size g.savedPos &&
  g.scrollTop ≤ g.scrollBottom && g.scrollBottom < g.size.rows &&
  g.scrollback.length ≤ g.scrollbackLen && g.scrollbackOffset ≤ g.scrollback.length &&
  g.scrollback.all (rowOk W)

def invB (W : Nat → Option Nat) (s : Screen) : Bool :=
  gridOk W s.grid false && gridOk W s.altGrid true &&
  s.altGrid.scrollbackLen == 0 && s.grid.size == s.altGrid.size &&
  (!s.altScreen || !s.altGrid.rows.isEmpty)

/-- `Inv` as a proposition -/
def Inv (W : Nat → Option Nat) (s : Screen) : Prop := invB W s = true

instance (W : Nat → Option Nat) (s : Screen) : Decidable (Inv W s) := by unfold Inv; infer_instance

/-! `Inv⁺`: what only the emitter proofs need. -/

def lastColOccupied (r : Row) : Bool :=
  match r.cells.getLast? with
  | some c => c.hasContents || c.cont
  | none => false

def rowPlusOk (r : Row) : Bool :=
  (!r.wrapped || lastColOccupied r) && r.cells.all (fun c => !c.cont || c.attrs == Attrs.default)

def gridPlusOk (g : Grid) : Bool :=
  g.rows.all rowPlusOk && g.scrollback.all rowPlusOk &&
  (match g.rows.getLast? with | some r => !r.wrapped | none => true)

def invPlusB (W : Nat → Option Nat) (s : Screen) : Bool :=
  invB W s && gridPlusOk s.grid && gridPlusOk s.altGrid

/-- first failing clause, for diagnostics (0 = none) -/
def invWhy (W : Nat → Option Nat) (s : Screen) : Nat :=
  let g := s.cur
  if !(g.size.rows ≥ 1 && g.size.cols ≥ 1) then 1
  else if !(g.rows.length == g.size.rows) then 2
  else if !(g.rows.all (fun r => r.cells.length == g.size.cols)) then 3
  else if !(g.rows.all (fun r => r.cells.all (cellOk W))) then 4
  else if !(g.rows.all (fun r => pairingOk false r.cells)) then 5
  else if !(posOk g.size g.pos) then 6
  else if !(posOk g.size g.savedPos) then 7
  else if !(g.scrollTop ≤ g.scrollBottom && g.scrollBottom < g.size.rows) then 8
  else if !(g.scrollback.length ≤ g.scrollbackLen && g.scrollbackOffset ≤ g.scrollback.length) then 9
  else if !(g.scrollback.all (rowOk W)) then 10
  else if !(invB W s) then 11
  else 0

end Vt
