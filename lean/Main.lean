/-
  vtmodel — line-protocol driver over Vt.Model (DESIGN.md §3.1).
  usage: vtmodel <width.tbl>   (ops on stdin, one output line per input line)
-/
import Vt.Model.Dump
import Vt.Spec.Inv
import Vt.Spec.EmitOk
import Vt.Props.DiffWrap
open Vt Vt.Dump

structure WEntry where
  lo : Nat
  hi : Nat
  w : Option Nat
  deriving Inhabited

/-- binary search in the sorted range table -/
partial def lookupW (tbl : Array WEntry) (c : Nat) : Option Nat :=
  let rec go (lo hi : Nat) : Option Nat :=
    if lo ≥ hi then none
    else
      let mid := (lo + hi) / 2
      let e := tbl[mid]!
      if c < e.lo then go lo mid
      else if c > e.hi then go (mid + 1) hi
      else e.w
  go 0 tbl.size

def parseWidthTable (s : String) : Array WEntry := Id.run do
  let mut arr : Array WEntry := #[]
  for line in s.splitOn "\n" do
    match line.trimAscii.toString.splitOn " " with
    | [a, b, c] =>
      match a.toNat?, b.toNat? with
      | some lo, some hi =>
        let w := if c == "n" then none else c.toNat?
        arr := arr.push { lo := lo, hi := hi, w := w }
      | _, _ => pure ()
    | _ => pure ()
  return arr

structure DState where
  parser : Option Parser := none
  cb : CbPolicy := cbNone
  slots : Array (Option Screen) := Array.replicate 16 none
  evMark : Nat := 0
  scratch : Vte := Vte.new

def hexList (l : List (List Nat)) : String :=
  s!"l {l.length} " ++ String.intercalate "|" (l.map hex)

def resBytes : M (List Nat) → String
  | .ok bs => "b " ++ hex bs
  | .error (.at n) => s!"PANIC {n}"

def resList : M (List (List Nat)) → String
  | .ok l => hexList l
  | .error (.at n) => s!"PANIC {n}"

def withScreen (st : DState) (f : Screen → String) : String :=
  match st.parser with
  | some p => f p.screen
  | none => "NOPARSER"

def slot (st : DState) (k : Nat) : Option Screen := (st.slots.getD k none)

def mouseModeName : MouseMode → String
  | .none => "None" | .press => "Press" | .pressRelease => "PressRelease"
  | .buttonMotion => "ButtonMotion" | .anyMotion => "AnyMotion"

def mouseEncName : MouseEnc → String
  | .default => "Default" | .utf8 => "Utf8" | .sgr => "Sgr"

/-- what the public accessors of `Screen` report (alternate_screen, hide_cursor, the input modes, size,
cursor_position, scrollback, the pen), in the harness's `pub_str` format -/
def pubStr (s : Screen) : String :=
  s!"{b01 s.altScreen}{b01 s.hideCursor} {b01 s.appKeypad}{b01 s.appCursor}{b01 s.bracketedPaste}:{mouseModeName s.mouseMode}:{mouseEncName s.mouseEnc} {s.cur.size.rows},{s.cur.size.cols} {s.cur.pos.row},{s.cur.pos.col} {s.cur.scrollbackOffset} {attrsStr s.attrs}"

def step (W : Nat → Option Nat) (st : DState) (line : String) : DState × String :=
  let toks := line.trimAscii.toString.splitOn " "
  match toks with
  | ["N", r, c, sb, cbn] =>
    -- a new case: a new parser, and the snapshot slots are emptied (cases are self-contained)
    match r.toNat?, c.toNat?, sb.toNat? with
    | some r, some c, some sb =>
      let cb := if cbn == "resize" then cbResize else if cbn == "probe" then cbProbe else cbNone
      match Parser.new r c sb with
      | .ok p => ({ st with parser := some p, cb := cb, evMark := 0, slots := Array.replicate 16 none }, "ok")
      | .error (.at n) => ({ st with parser := none, slots := Array.replicate 16 none }, s!"PANIC {n}")
    | _, _, _ => (st, "BADOP")
  | ["N", r, c, sb, cbn, "keep"] =>
    -- a new parser inside a case: the snapshots taken so far stay (pairs from independent histories)
    match r.toNat?, c.toNat?, sb.toNat? with
    | some r, some c, some sb =>
      let cb := if cbn == "resize" then cbResize else if cbn == "probe" then cbProbe else cbNone
      match Parser.new r c sb with
      | .ok p => ({ st with parser := some p, cb := cb, evMark := 0 }, "ok")
      | .error (.at n) => ({ st with parser := none }, s!"PANIC {n}")
    | _, _, _ => (st, "BADOP")
  | ["P", h] | ["W", h] =>
    match st.parser, unhex h with
    | some p, some bs =>
      match p.process W st.cb bs with
      | .ok p' => ({ st with parser := some p' }, if toks.head! == "W" then s!"ok {bs.length}" else "ok")
      | .error (.at n) => (st, s!"PANIC {n}")
    | _, _ => (st, "BADOP")
  | ["WA", h] =>
    -- `write_all`: the provided method of `io::Write` loops over `write`, which takes everything at once
    match st.parser, unhex h with
    | some p, some bs =>
      match p.writeAll W st.cb bs with
      | .ok p' => ({ st with parser := some p' }, s!"ok {bs.length}")
      | .error (.at n) => (st, s!"PANIC {n}")
    | _, _ => (st, "BADOP")
  | ["WV", h, cuts] =>
    -- `write_vectored` offered again until everything is taken: the crate does not override it, and the
    -- provided method passes the first non-empty slice to `write` — one `process` call per slice
    match st.parser, unhex h with
    | some p, some bs =>
      let cs := ((cuts.splitOn ",").filterMap String.toNat?).filter (· ≤ bs.length)
      let bounds := (0 :: cs ++ [bs.length]).mergeSort
      let pieces := (bounds.zip bounds.tail).map (fun (a, b) => (bs.drop a).take (b - a))
      match p.writeVectoredAll W st.cb pieces with
      | .ok p' => ({ st with parser := some p' }, s!"ok {bs.length}")
      | .error (.at n) => (st, s!"PANIC {n}")
    | _, _ => (st, "BADOP")
  | ["P"] => (st, "ok")
  | ["W"] => (st, "ok 0")
  | ["Z", r, c] =>
    match st.parser, r.toNat?, c.toNat? with
    | some p, some r, some c =>
      match p.ws.screen.setSize r c with
      | .ok s => ({ st with parser := some { p with ws := { p.ws with screen := s } } }, "ok")
      | .error (.at n) => (st, s!"PANIC {n}")
    | _, _, _ => (st, "BADOP")
  | ["B", k] =>
    match st.parser, k.toNat? with
    | some p, some k =>
      match p.ws.screen.setScrollback k with
      | .ok s => ({ st with parser := some { p with ws := { p.ws with screen := s } } }, "ok")
      | .error (.at n) => (st, s!"PANIC {n}")
    | _, _ => (st, "BADOP")
  | ["U", k] =>
    -- `*parser.screen_mut() = snapshot.clone()`
    match st.parser, k.toNat?.bind (slot st) with
    | some p, some s => ({ st with parser := some { p with ws := { p.ws with screen := s } } }, "ok")
    | none, _ => (st, "NOPARSER")
    | _, none => (st, "NOSLOT")
  | ["S", k] =>
    match st.parser, k.toNat? with
    | some p, some k => ({ st with slots := st.slots.setIfInBounds k (some p.screen) }, "ok")
    | _, _ => (st, "BADOP")
  | "L" :: dump =>
    match parseScreenToks dump with
    | some s =>
      let p : Parser := match st.parser with
        | some p => { p with ws := { p.ws with screen := s } }
        | none => { vte := Vte.new, ws := { screen := s, events := [] } }
      ({ st with parser := some p }, "ok")
    | none => (st, "BADDUMP")
  | "LS" :: k :: dump =>
    match parseScreenToks dump, k.toNat? with
    | some s, some k => ({ st with slots := st.slots.setIfInBounds k (some s) }, "ok")
    | _, _ => (st, "BADDUMP")
  | ["D"] => (st, withScreen st (fun s => "d " ++ screenStr s ++ " pub " ++ pubStr s))
  | ["E"] =>
    match st.parser with
    | some p =>
      let evs := p.ws.events.drop st.evMark
      ({ st with evMark := p.ws.events.length },
       String.intercalate " " ("ev" :: evs.map eventStr))
    | none => (st, "NOPARSER")
  | ["I"] =>
    (st, withScreen st (fun s => s!"inv {b01 (invB W s)} {b01 (invPlusB W s)} {invWhy W s} {b01 (emitInvB W s)}"))
  | ["K", k] =>
    -- the side conditions of the C02 theorems (DiffWrap: `LinkW` with the position-free `LineOkW`) on the pair
    -- (previous = slot k, current = the screen): evaluated on implementation states like `I`
    (st, withScreen st (fun s =>
      match k.toNat?.bind (slot st) with
      | some prev =>
        let sized := s.cur.size == prev.cur.size
        let off0 := s.cur.scrollbackOffset == 0 && prev.cur.scrollbackOffset == 0
        s!"k {b01 sized} {b01 off0} {b01 (sized && off0 && Vt.C02.linesOkWB s prev)} {b01 (sized && off0 && Vt.C02.linesOkWB prev s)}"
      | none => "NOSLOT"))
  | ["F", name] =>
    (st, withScreen st (fun s =>
      match name with
      | "state" => resBytes s.stateFormatted
      | "contents" => resBytes s.contentsFormatted
      | "input" => resBytes (pure s.inputModeFormatted)
      | "attrs" => resBytes (pure s.attributesFormatted)
      | "cursor" => resBytes s.cursorStateFormatted
      | _ => "BADOP"))
  | ["X", name, k] =>
    (st, withScreen st (fun s =>
      match k.toNat?.bind (slot st) with
      | some prev =>
        match name with
        | "state" => resBytes (s.stateDiff prev)
        | "contents" => resBytes (s.contentsDiff prev)
        | "input" => resBytes (pure (s.inputModeDiff prev))
        | _ => "BADOP"
      | none => "NOSLOT"))
  | ["T"] => (st, withScreen st (fun s => resBytes s.contents))
  | ["R", a, b] =>
    (st, withScreen st (fun s =>
      match a.toNat?, b.toNat? with
      | some a, some b => resList (s.rows a b)
      | _, _ => "BADOP"))
  | ["RF", a, b] =>
    (st, withScreen st (fun s =>
      match a.toNat?, b.toNat? with
      | some a, some b => resList (s.rowsFormatted a b)
      | _, _ => "BADOP"))
  | ["RD", k, a, b] =>
    (st, withScreen st (fun s =>
      match k.toNat?.bind (slot st), a.toNat?, b.toNat? with
      | some prev, some a, some b => resList (s.rowsDiff prev a b)
      | _, _, _ => "BADOP"))
  | ["C", a, b, c, d] =>
    (st, withScreen st (fun s =>
      match a.toNat?, b.toNat?, c.toNat?, d.toNat? with
      | some a, some b, some c, some d => resBytes (s.contentsBetween a b c d)
      | _, _, _, _ => "BADOP"))
  | ["Q", r, c] =>
    (st, withScreen st (fun s =>
      match r.toNat?, c.toNat? with
      | some r, some c =>
        match s.cell r c, s.rowWrapped r with
        | .ok cell, .ok w =>
          let cs := match cell with
            | some cell =>
              (match cell.contentsBytes with
               | .ok bs => s!"{hex bs}/{b01 cell.isWide}/{b01 cell.isWideContinuation}/{attrsStr cell.attrs}"
               | .error _ => "PANIC")
            | none => "none"
          s!"q {cs} {b01 w}"
        | _, _ => "PANIC 0"
      | _, _ => "BADOP"))
  | ["A", "reset"] => ({ st with scratch := Vte.new }, "ok")
  | ["A", h] =>
    match unhex h with
    | some bs =>
      let (v, acts) := st.scratch.advance bs
      ({ st with scratch := v }, String.intercalate " " ("a" :: acts.map actionStr))
    | none => (st, "BADOP")
  | ["A"] => (st, "a")
  | _ => (st, "BADOP")

partial def loop (W : Nat → Option Nat) (h : IO.FS.Stream) (out : IO.FS.Stream) (st : DState) : IO Unit := do
  let line ← h.getLine
  if line.isEmpty then return ()
  let (st', o) := step W st line
  out.putStrLn o
  loop W h out st'

def main (args : List String) : IO UInt32 := do
  match args with
  | [tblPath] =>
    let tbl := parseWidthTable (← IO.FS.readFile tblPath)
    let W := lookupW tbl
    let stdin ← IO.getStdin
    let stdout ← IO.getStdout
    loop W stdin stdout {}
    stdout.flush
    return 0
  | _ =>
    IO.eprintln "usage: vtmodel <width.tbl> < ops"
    return 2
